#!/bin/bash
# Build the framework from files on disk only (offline). Full .vo build; forbidden-token grep first.
set -e
HERE="$(cd "$(dirname "$0")" && pwd)"
cd "$HERE"
mkdir -p build evidence replay
if grep -rnE '\b(Admitted|admit|Axiom|Parameter|Conjecture|Admit Obligations)\b|Unset Guard|bypass_check|type-in-type|impredicative-set' coq --include='*.v' | grep -v '^coq/Generated/.*(\*' ; then
  echo "forbidden token in the Coq development"; exit 1
fi
export VERIF_REPO="${VERIF_REPO:-/repo}"
export PYTHONPATH="$HERE:$VERIF_REPO/cirq-core:$VERIF_REPO/cirq-google:$VERIF_REPO/cirq-ionq:$VERIF_REPO/cirq-aqt:$VERIF_REPO/cirq-pasqal"
export PYTHONHASHSEED=0 OMP_NUM_THREADS=1 PYTHONDONTWRITEBYTECODE=1
# regenerate every table from the working tree, then build everything
/venv/bin/python -W ignore -m vf.tables all
/venv/bin/python -W ignore -c "from vf import coq; coq.ensure_project()"
cd coq && timeout 3000 make -j16 2>&1 | tail -40
test "${PIPESTATUS[0]}" = 0
echo "setup ok"
