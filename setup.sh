#!/bin/bash
# Build the framework from files on disk only (offline). Full .vo build; forbidden-token grep first.
set -e
HERE="$(cd "$(dirname "$0")" && pwd)"
cd "$HERE"
mkdir -p build evidence replay
if grep -rnE '\b(Admitted|admit|Axiom|Parameter|Conjecture|Admit Obligations)\b|Unset Guard|bypass_check|type-in-type|impredicative-set' coq --include='*.v' | grep -vE '^\S+:\s*[0-9]+:\s*\(\*.*\*\)\s*$' ; then
  echo "forbidden token in the Coq development"; exit 1
fi
export VERIF_REPO="${VERIF_REPO:-/repo}"
export PYTHONPATH="$HERE:$VERIF_REPO/cirq-core:$VERIF_REPO/cirq-google:$VERIF_REPO/cirq-ionq:$VERIF_REPO/cirq-aqt:$VERIF_REPO/cirq-pasqal"
export PYTHONHASHSEED=0 OMP_NUM_THREADS=1 PYTHONDONTWRITEBYTECODE=1
# regenerate every table from the working tree (a generator that refuses is reported again by the check that needs the table)
/venv/bin/python -W ignore -m vf.tables all || echo "WARNING: a table generator refused; the dependent check will report it"
/venv/bin/python -W ignore -c "from vf import coq; coq.ensure_project()"
# full .vo build of everything; -k so that one broken file does not hide the others: a file that does not build is a broken
# obligation of the property whose Props/Cxx.v needs it, and that check reports it.
cd coq
set +e
timeout 5400 make -k -j16 > ../build/setup_make.log 2>&1
rc=$?
set -e
grep -vE '^Closed under the global context|^COQC|^COQDEP|^$' ../build/setup_make.log | tail -30
nvo=$(find . -name '*.vo' | wc -l); nv=$(find . -name '*.v' | wc -l)
echo "make exit $rc; $nvo of $nv files compiled"
test "$nvo" -ge 10      # the framework itself (Base/) must build
echo "setup ok"
