#!/venv/bin/python
"""usage: tools_markfixed.py Cxx <signature-prefix> <grep pattern of the /repo fix: commit subject>  — mark matching open findings fixed"""
import json, subprocess, sys
prop, sig, pat = sys.argv[1:4]
log = subprocess.run(['git', '-C', '/repo', 'log', '--format=%h %s', '--grep', pat], capture_output=True, text=True).stdout.strip().splitlines()
assert len(log) == 1, log
p = f'/verif/known_findings/{prop}.json'
d = json.load(open(p)); n = 0
for f in d['findings']:
    if f['status'] == 'open' and f['signature'].startswith(sig):
        f['status'] = 'fixed'; f['commit'] = log[0]; n += 1
json.dump(d, open(p, 'w'), indent=1); print(prop, sig, '->', n, 'entries fixed by', log[0])
