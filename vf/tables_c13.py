"""Regenerated tables for C13 (DESIGN 2.1): the local update rules of CliffordTableau.apply_*, `_rowsum`,
the CH-form `_H_decompose`/`_phase`, and the 24 SingleQubitCliffordGates, evaluated from the working tree.

Fail-closed: a rule that is not local (touches other columns, depends on the axis position or on the row
index), an exponent that behaves differently from its class, or an entry that cannot be recognised exactly
raises TableError."""
import itertools, types
import numpy as np
from . import env
from .tables import table, TableError
from .tables_gates import coq_entry

B = lambda b: 'true' if b else 'false'
QS = list(range(-9, 18))          # q = 4 * exponent


def zl(n):
    n = int(n)
    return f'({n})' if n < 0 else str(n)


def loc1s(rows):
    return '[' + '; '.join(f'({B(x)}, {B(z)}, {B(r)})' for x, z, r in rows) + ']'


def loc2s(rows):
    return '[' + '; '.join('(' + ', '.join(B(b) for b in row) + ')' for row in rows) + ']'


ALL8 = list(itertools.product([False, True], repeat=3))
ALL32 = list(itertools.product([False, True], repeat=5))
ALL16 = list(itertools.product([False, True], repeat=4))


def _filled(cirq, n, rng):
    """A (not necessarily valid) tableau with pseudo-random content in every column."""
    t = cirq.CliffordTableau(n)
    t.xs = rng.randint(0, 2, size=(2 * n, n)).astype(bool)
    t.zs = rng.randint(0, 2, size=(2 * n, n)).astype(bool)
    t.rs = rng.randint(0, 2, size=2 * n).astype(bool)
    return t


def eval_rule1(cirq, call, what):
    """call(tableau, axis) applies the rule; returns the 8 outputs in ALL8 order, or None when ValueError."""
    results = []
    for n, axis, perm_seed in [(4, 0, 1), (4, 3, 2), (5, 2, 3), (8, 5, 4)]:
        rng = np.random.RandomState(perm_seed)
        t = _filled(cirq, n, rng)
        order = list(rng.permutation(2 * n))          # which row carries which pattern
        pat = [ALL8[i % 8] for i in range(2 * n)]
        for row, p in zip(order, pat):
            t.xs[row, axis], t.zs[row, axis], t.rs[row] = p
        before = t.copy()
        try:
            call(t, axis)
        except ValueError:
            results.append(None)
            continue
        keep = [j for j in range(n) if j != axis]
        if not (np.array_equal(t.xs[:, keep], before.xs[:, keep]) and np.array_equal(t.zs[:, keep], before.zs[:, keep])):
            raise TableError(f'{what}: the rule touches columns other than its axis')
        out = {}
        for row, p in zip(order, pat):
            o = (bool(t.xs[row, axis]), bool(t.zs[row, axis]), bool(t.rs[row]))
            if out.setdefault(p, o) != o:
                raise TableError(f'{what}: the rule is not a function of the local (x, z, r) pattern')
        results.append([out[p] for p in ALL8])
    if any(r != results[0] for r in results):
        raise TableError(f'{what}: the rule depends on the axis position or the tableau size')
    return results[0]


def eval_rule2(cirq, call, what):
    results = []
    for n, c, x, perm_seed in [(16, 0, 1, 1), (16, 1, 0, 2), (16, 3, 11, 3), (17, 15, 2, 4)]:
        rng = np.random.RandomState(perm_seed)
        t = _filled(cirq, n, rng)
        order = list(rng.permutation(2 * n))
        pat = [ALL32[i % 32] for i in range(2 * n)]
        for row, p in zip(order, pat):
            t.xs[row, c], t.zs[row, c], t.xs[row, x], t.zs[row, x], t.rs[row] = p
        before = t.copy()
        try:
            call(t, c, x)
        except ValueError:
            results.append(None)
            continue
        keep = [j for j in range(n) if j not in (c, x)]
        if not (np.array_equal(t.xs[:, keep], before.xs[:, keep]) and np.array_equal(t.zs[:, keep], before.zs[:, keep])):
            raise TableError(f'{what}: the rule touches columns other than its axes')
        out = {}
        for row, p in zip(order, pat):
            o = (bool(t.xs[row, c]), bool(t.zs[row, c]), bool(t.xs[row, x]), bool(t.zs[row, x]), bool(t.rs[row]))
            if out.setdefault(p, o) != o:
                raise TableError(f'{what}: the rule is not a function of the local pattern')
        results.append([out[p] for p in ALL32])
    if any(r != results[0] for r in results):
        raise TableError(f'{what}: the rule depends on the axis positions or the tableau size')
    return results[0]


def _swap_call(cirq, q):
    def call(t, c, x):
        st = cirq.CliffordTableauSimulationState(tableau=t, qubits=cirq.LineQubit.range(t.n), prng=np.random.RandomState(0))
        st._swap(c, x, q / 4.0, 0.25)
        if st.tableau is not t:
            raise TableError('_swap replaced the tableau object')
    return call


def rowsum_g(cirq):
    """The nested function g of CliffordTableau._rowsum, rebuilt from its code object."""
    code = cirq.CliffordTableau._rowsum.__code__
    inner = [c for c in code.co_consts if isinstance(c, types.CodeType)]
    if len(inner) != 1 or inner[0].co_argcount != 4 or inner[0].co_freevars:
        raise TableError('_rowsum no longer contains exactly one closed 4-argument helper')
    g = types.FunctionType(inner[0], {'int': int, 'bool': bool, '__builtins__': __builtins__})
    vals = []
    for a in ALL16:
        v = g(*[np.bool_(b) for b in a])
        if v != g(*a) or int(v) != v:
            raise TableError('g differs between bool and numpy.bool_ arguments')
        vals.append(int(v))
    return vals


def rowsum_table(cirq, n):
    """_rowsum(0, 1) on every pair of n-qubit rows: ((bits1, r1, bits2, r2) -> (bits, r))."""
    rows = []
    pb = list(itertools.product([False, True], repeat=2))
    for b1 in itertools.product(pb, repeat=n):
        for r1 in (False, True):
            for b2 in itertools.product(pb, repeat=n):
                for r2 in (False, True):
                    t = cirq.CliffordTableau(n)
                    for j in range(n):
                        t._xs[0, j], t._zs[0, j] = b1[j]
                        t._xs[1, j], t._zs[1, j] = b2[j]
                    t._rs[0], t._rs[1] = r1, r2
                    snap = (t._xs[1:].copy(), t._zs[1:].copy(), t._rs[1:].copy())
                    t._rowsum(0, 1)
                    if not (np.array_equal(t._xs[1:], snap[0]) and np.array_equal(t._zs[1:], snap[1]) and np.array_equal(t._rs[1:], snap[2])):
                        raise TableError('_rowsum(0, 1) changed a row other than row 0')
                    rows.append((b1, r1, b2, r2, tuple((bool(t._xs[0, j]), bool(t._zs[0, j])) for j in range(n)), bool(t._rs[0])))
    return rows


def prow(bits, r):
    return 'mkRow [' + '; '.join(f'({B(x)}, {B(z)})' for x, z in bits) + f'] {B(r)}'


FAM = {'XPowGate': 'X', 'YPowGate': 'Y', 'ZPowGate': 'Z', 'HPowGate': 'H'}


def clifford24(cirq):
    gs = list(cirq.SingleQubitCliffordGate.all_single_qubit_cliffords)
    if len(gs) != 24 or len(set(gs)) != 24:
        raise TableError('all_single_qubit_cliffords is not a list of 24 distinct gates')
    index = {g: i for i, g in enumerate(gs)}
    bits = []
    for g in gs:
        t = g.clifford_tableau
        bits.append((bool(t.xs[0, 0]), bool(t.zs[0, 0]), bool(t.rs[0]), bool(t.xs[1, 0]), bool(t.zs[1, 0]), bool(t.rs[1])))
    merged = [[index[a.merged_with(b)] for b in gs] for a in gs]
    inv = [index[g ** -1] for g in gs]
    words = []
    for g in gs:
        w = []
        for h in g.decompose_gate():
            fam = next((f for cls, f in FAM.items() if isinstance(h, getattr(cirq, cls))), None)
            q = 4 * float(h.exponent)
            if fam is None or q != int(q) or getattr(h, 'global_shift', 0) != 0:
                raise TableError(f'decompose_gate produced {h!r}, outside X/Y/Z/H powers with quarter exponents and no shift')
            w.append((fam, int(q)))
        words.append(w)
    named = {}
    for name in ['I', 'X', 'Y', 'Z', 'H', 'S', 'X_sqrt', 'X_nsqrt', 'Y_sqrt', 'Y_nsqrt', 'Z_sqrt', 'Z_nsqrt']:
        named[name] = index[getattr(cirq.SingleQubitCliffordGate, name)]
    return bits, merged, inv, words, named


@table('TableauRules')
def tableau_rules():
    cirq = env.import_cirq()
    out = ['(* GENERATED by vf/tables_c13.py from the working tree.  Do not edit.',
           '   tbl_<gate> : for q = 4*exponent in -9..17, None when the call raises ValueError, else the outputs of',
           '   CliffordTableau.apply_<gate>(axis, exponent=q/4) on rows carrying every local pattern, in the order of',
           '   Tableau.all8 / all32.  tbl_g : the helper g of _rowsum over all16.  tbl_rowsum1/2 : _rowsum on all pairs',
           '   of 1- and 2-qubit rows.  Section CH: _H_decompose and _phase.  c24_* : the 24 SingleQubitCliffordGates. *)',
           'From Coq Require Import List ZArith Bool.', 'From VF Require Import Base.RingOps Base.Mat Cliff.Tableau.',
           'Import ListNotations.', 'Local Open Scope Z_scope.']
    one = {'x': lambda q: (lambda t, a: t.apply_x(a, q / 4.0, 0.5)),
           'y': lambda q: (lambda t, a: t.apply_y(a, q / 4.0, -0.25)),
           'z': lambda q: (lambda t, a: t.apply_z(a, q / 4.0, 0.0)),
           'h': lambda q: (lambda t, a: t.apply_h(a, q / 4.0, 1.0))}
    for name, mk in one.items():
        rows = []
        for q in QS:
            r = eval_rule1(cirq, mk(q), f'apply_{name}(exponent={q / 4.0})')
            rows.append(f'  ({zl(q)}, {"None" if r is None else "Some " + loc1s(r)})')
        out.append(f'Definition tbl_{name} : list (Z * option (list loc1)) := [\n' + ';\n'.join(rows) + '].')
    two = {'cz': lambda q: (lambda t, c, x: t.apply_cz(c, x, q / 4.0, 0.5)),
           'cx': lambda q: (lambda t, c, x: t.apply_cx(c, x, q / 4.0, 0.0)),
           'swap': lambda q: _swap_call(cirq, q)}
    for name, mk in two.items():
        rows = []
        for q in QS:
            r = eval_rule2(cirq, mk(q), f'{name}(exponent={q / 4.0})')
            rows.append(f'  ({zl(q)}, {"None" if r is None else "Some " + loc2s(r)})')
        out.append(f'Definition tbl_{name} : list (Z * option (list loc2)) := [\n' + ';\n'.join(rows) + '].')
    # apply_global_phase leaves the tableau alone
    t = _filled(cirq, 3, np.random.RandomState(5))
    b = t.copy()
    t.apply_global_phase(1j)
    if t != b:
        raise TableError('apply_global_phase changes the tableau')
    out.append('Definition tbl_g : list Z := [' + '; '.join(zl(v) for v in rowsum_g(cirq)) + '].')
    for n in (1, 2):
        rows = rowsum_table(cirq, n)
        out.append(f'Definition tbl_rowsum{n} : list (prow * prow * prow) := [\n' + ';\n'.join(
            f'  ({prow(b1, r1)}, {prow(b2, r2)}, {prow(bo, ro)})' for b1, r1, b2, r2, bo, ro in rows) + '].')
    # ---- the 24 single-qubit Cliffords ----
    bits, merged, inv, words, named = clifford24(cirq)
    out.append('(* (x, z, r) of the image of X, then of Z *)')
    out.append('Definition c24_bits : list (loc1 * loc1) := [\n' + ';\n'.join(
        f'  (({B(b[0])}, {B(b[1])}, {B(b[2])}), ({B(b[3])}, {B(b[4])}, {B(b[5])}))' for b in bits) + '].')
    out.append('Definition c24_merged : list (list nat) := [\n' + ';\n'.join(
        '  [' + '; '.join(str(j) for j in row) + ']%nat' for row in merged) + '].')
    out.append('Definition c24_inv : list nat := [' + '; '.join(str(j) for j in inv) + ']%nat.')
    out.append('(* decompose_gate(): (family 0=X 1=Y 2=Z 3=H, q = 4*exponent), applied in order *)')
    fam_no = {'X': 0, 'Y': 1, 'Z': 2, 'H': 3}
    out.append('Definition c24_words : list (list (nat * Z)) := [\n' + ';\n'.join(
        '  [' + '; '.join(f'({fam_no[f]}%nat, {zl(q)})' for f, q in w) + ']' for w in words) + '].')
    for k, v in named.items():
        out.append(f'Definition c24_{k} : nat := {v}%nat.')
    # ---- CH form ----
    ch = cirq.StabilizerStateChForm(1)
    out += ['Section CH.', '  Context {K : Type} (O : Ops K).',
            '  (* _H_decompose(v, y, z, delta) for delta in 0..3: None when it raises, else (omega, a, b, c) *)']
    rows = []
    for v, y, z in itertools.product([False, True], repeat=3):
        for delta in range(4):
            try:
                om, a, b, c = ch._H_decompose(np.bool_(v), np.bool_(y), np.bool_(z), delta)
                om2, a2, b2, c2 = ch._H_decompose(v, y, z, delta)
                if not (abs(complex(om) - complex(om2)) < 1e-12 and (bool(a), bool(b), bool(c)) == (bool(a2), bool(b2), bool(c2))):
                    raise TableError('_H_decompose differs between bool and numpy.bool_ arguments')
                rows.append(f'    (({B(v)}, {B(y)}, {B(z)}, {delta}), Some ({coq_entry(om)}, {B(a)}, {B(b)}, {B(c)}))')
            except ValueError:
                rows.append(f'    (({B(v)}, {B(y)}, {B(z)}, {delta}), None)')
    out.append('  Definition tbl_hdec : list ((bool * bool * bool * Z) * option (K * bool * bool * bool)) := [\n' + ';\n'.join(rows) + '].')
    from cirq.sim.clifford import stabilizer_state_ch_form as chmod
    rows = []
    for e8 in range(-8, 17):          # exponent * global_shift = e8 / 4: the phases a ring with i and 1/sqrt2 contains
        ph = chmod._phase(e8 / 4.0, 1.0)
        ph2 = chmod._phase(1.0, e8 / 4.0)
        if abs(ph - ph2) > 1e-12:
            raise TableError('_phase is not a function of exponent * global_shift')
        rows.append(f'    ({zl(e8)}, {coq_entry(ph)})')
    out.append('  (* _phase(exponent, shift) with exponent * shift = k / 4 *)')
    out.append('  Definition tbl_phase : list (Z * K) := [\n' + ';\n'.join(rows) + '].')
    out.append('End CH.')
    return '\n'.join(out) + '\n'
