"""Generator of small circuits with measurements, classical control, channels and resets (Cirq objects)."""
import math
import numpy as np
from . import gates

CLIFF_1Q = [('X', [0.5, 1.0, -0.5, 1.5, 2.0]), ('Y', [0.5, 1.0, -0.5]), ('Z', [0.5, 1.0, -0.5, 1.5]), ('H', [1.0])]


def stochastic(rng, n):
    rows = []
    for _ in range(n):
        r = [rng.choice([0.0, 0.1, 0.3, 0.6, 1.0]) + 1e-3 for _ in range(n)]
        s = sum(r)
        rows.append([x / s for x in r])
    return np.array(rows)


def random_channel2(cirq, rng, keyed):
    """Two-qubit channels with genuinely complex Kraus operators, optionally recording the chosen operator under a key."""
    p = rng.choice([0.25, 0.5, 0.4])
    S = np.diag([1, 1j])
    Y = np.array([[0, -1j], [1j, 0]])
    sq = cirq.unitary(cirq.SQRT_ISWAP)
    rz = np.kron(cirq.unitary(cirq.rz(0.7)), cirq.unitary(cirq.H))
    key = rng.choice(['k', 'j']) if keyed else None
    return rng.choice([
        cirq.MixedUnitaryChannel([(1 - p, np.eye(4)), (p, np.kron(Y, S))], key=key),
        cirq.KrausChannel([math.sqrt(1 - p) * np.eye(4), math.sqrt(p) * sq], key=key),
        cirq.MixedUnitaryChannel([(p, rz), (1 - p, sq)], key=key),
    ] + ([cirq.depolarize(p, n_qubits=2)] if not keyed else []))


def random_channel(cirq, rng):
    p = rng.choice([0.1, 0.25, 0.5, 0.3])
    g = rng.choice([0.2, 0.36, 0.5])
    return rng.choice([
        cirq.bit_flip(p), cirq.phase_flip(p), cirq.depolarize(p), cirq.amplitude_damp(g), cirq.phase_damp(g),
        cirq.generalized_amplitude_damp(p, g), cirq.asymmetric_depolarize(0.1, 0.2, 0.05),
        cirq.MixedUnitaryChannel([(0.25, np.eye(2)), (0.75, np.array([[0, 1], [1, 0]], dtype=complex))]),
        cirq.KrausChannel([np.array([[1, 0], [0, math.sqrt(1 - g)]]), np.array([[0, math.sqrt(g)], [0, 0]])]),
        cirq.RandomGateChannel(sub_gate=cirq.H, probability=p),
    ])


def random_mcircuit(cirq, rng, wires=None, qudits=False, mid=True, cc=True, channels=False, clifford=False,
                    max_ops=9, max_digits=4, confusion=True, resets=True):
    n = wires or rng.randint(1, 3)
    dims = [2 if (not qudits or rng.random() < 0.75) else 3 for _ in range(n)]
    qs = [cirq.LineQubit(i) if d == 2 else cirq.LineQid(i, dimension=d) for i, d in enumerate(dims)]
    c = cirq.Circuit()
    keys = ['a', 'b', 'c']
    measured = []          # (key, dims of the measured qubits)
    digits = 0
    nops = rng.randint(2, max_ops)
    for i in range(nops):
        r = rng.random()
        last = i >= nops - 2
        want_measure = (r < (0.4 if clifford else 0.3) or (last and not measured) or (not mid and last))
        if want_measure and digits < max_digits and (mid or i >= nops - 2):
            k = rng.randint(1, min(2, n, max_digits - digits))
            ws = rng.sample(range(n), k)
            key = rng.choice(keys)
            # Cirq requires equal shapes for repeated keys
            prev = [m for m in measured if m[0] == key]
            if prev and prev[0][1] != [dims[w] for w in ws]:
                key = next((kk for kk in keys if not any(m[0] == kk for m in measured)), None)
                if key is None:
                    continue
            inv = tuple(rng.random() < 0.4 for _ in ws) if rng.random() < 0.5 else ()
            cm = {}
            if confusion and not clifford and rng.random() < 0.35:
                pos = tuple(sorted(rng.sample(range(k), rng.randint(1, k))))
                size = int(np.prod([dims[ws[p]] for p in pos]))
                cm = {pos: stochastic(rng, size)}
            op = cirq.MeasurementGate(k, key=key, invert_mask=inv, qid_shape=tuple(dims[w] for w in ws), confusion_map=cm).on(*[qs[w] for w in ws])
            c.append(op, strategy=cirq.InsertStrategy.NEW if rng.random() < 0.3 else cirq.InsertStrategy.EARLIEST)
            measured.append((key, [dims[w] for w in ws]))
            digits += k
            continue
        if channels and r > 0.8:
            ws2 = [w for w in range(n) if dims[w] == 2]
            if len(ws2) >= 2 and rng.random() < 0.4:
                a, b = rng.sample(ws2, 2)
                c.append(random_channel2(cirq, rng, keyed=rng.random() < 0.4).on(qs[a], qs[b]))
                continue
            w = rng.choice(ws2 or [None])
            if w is not None:
                if rng.random() < 0.25:
                    g = rng.choice([0.2, 0.36])
                    c.append(cirq.KrausChannel([np.array([[1, 0], [0, math.sqrt(1 - g)]]), np.array([[0, math.sqrt(g)], [0, 0]])], key='k').on(qs[w]))
                else:
                    c.append(random_channel(cirq, rng).on(qs[w]))
                continue
        if resets and not clifford and r > 0.93:
            w = rng.randrange(n)
            c.append(cirq.ResetChannel(dims[w]).on(qs[w]))
            continue
        # a gate, possibly classically controlled
        if clifford:
            if n >= 2 and rng.random() < 0.4:
                a, b = rng.sample(range(n), 2)
                op = rng.choice([cirq.CZ, cirq.CNOT, cirq.SWAP])(qs[a], qs[b])
            else:
                nm, es = rng.choice(CLIFF_1Q)
                op = (getattr(cirq, nm) ** rng.choice(es)).on(qs[rng.randrange(n)])
        else:
            k = 1 if (n == 1 or rng.random() < 0.6) else 2
            ws = rng.sample(range(n), k)
            wd = tuple(dims[w] for w in ws)
            if all(d == 2 for d in wd):
                fams = [f for f in gates.FAST + ['PhasedX', 'Rx', 'Ry', 'ISwapPow', 'FSim'] if len(gates.EIG_SHAPE.get(f, (2, 2)) if f in gates.EIG else
                        {'PhasedX': (2,), 'Rx': (2,), 'Ry': (2,), 'FSim': (2, 2)}[f]) == k]
                g = gates.draw(rng, rng.choice(fams))
            else:
                g = gates.G('Matrix', dict(m=gates.random_unitary(rng, int(np.prod(wd)))), wd)
            op = g.cirq_gate(cirq).on(*[qs[w] for w in ws])
        if cc and measured and rng.random() < 0.45:
            key, kd = rng.choice(measured)
            if len(kd) < 2 and rng.random() < 0.5:      # prefer keys with several digits (values beyond 0/1)
                key, kd = max(measured, key=lambda m: len(m[1]))
            r2 = rng.random()
            ninst = sum(1 for m in measured if m[0] == key)
            idx = rng.choice([-1] + list(range(-ninst, ninst)))
            maxv = int(np.prod(kd))
            if clifford or r2 < 0.4:
                cond = cirq.KeyCondition(cirq.MeasurementKey(key), index=idx)
            elif r2 < 0.75:
                cond = cirq.BitMaskKeyCondition(key, bitmask=rng.choice([None, 1, 2, 3]), target_value=rng.randrange(0, min(maxv, 4)),
                                                equal_target=rng.random() < 0.5, index=idx)
            else:
                import sympy
                sym = sympy.Symbol(key)
                cond = rng.choice([sym, sympy.Eq(sym, rng.randrange(maxv)), sympy.Ne(sym, rng.randrange(maxv))])
            op = op.with_classical_controls(cond)
        c.append(op, strategy=cirq.InsertStrategy.NEW if rng.random() < 0.2 else cirq.InsertStrategy.EARLIEST)
    if not measured:
        w = rng.randrange(n)
        c.append(cirq.measure(qs[w], key='a'))
    return c, qs


def pauli_measure_circuit(cirq, rng):
    """Entangling prefix, a measurement of a Pauli observable (weight 1-3, sign +-), then something that looks at the measured qubits:
    an ordinary measurement, a second Pauli measurement, or a gate controlled by the recorded bit."""
    n = rng.randint(2, 3)
    qs = cirq.LineQubit.range(n)
    c = cirq.Circuit()
    for _ in range(rng.randint(1, 4)):
        r = rng.random()
        if r < 0.45:
            a, b = rng.sample(range(n), 2)
            c.append(rng.choice([cirq.CNOT, cirq.CZ, cirq.ISWAP ** 0.5])(qs[a], qs[b]))
        else:
            g = rng.choice([cirq.H, cirq.X ** 0.5, cirq.Y ** 0.25, cirq.S, cirq.rx(0.7), cirq.T])
            c.append(g(qs[rng.randrange(n)]))

    def pm(key):
        k = rng.randint(1, n)
        ws = rng.sample(range(n), k)
        paulis = [rng.choice([cirq.X, cirq.Y, cirq.Z]) for _ in ws]
        obs = cirq.DensePauliString(paulis, coefficient=rng.choice([1, 1, -1]))
        return cirq.PauliMeasurementGate(obs, key=key).on(*[qs[w] for w in ws])
    c.append(pm('p'), strategy=cirq.InsertStrategy.NEW)
    r = rng.random()
    if r < 0.4:
        ws = rng.sample(range(n), rng.randint(1, n))
        c.append(cirq.measure(*[qs[w] for w in ws], key='m'))
    elif r < 0.7:
        c.append(pm('r'), strategy=cirq.InsertStrategy.NEW)
    else:
        c.append(rng.choice([cirq.X, cirq.H, cirq.Z ** 0.5])(qs[rng.randrange(n)]).with_classical_controls('p'))
        c.append(cirq.measure(*qs, key='m'))
    return c, qs


def clifford_deep(cirq, rng):
    """Clifford gates interleaved with many single-qubit measurements (distinct keys): later outcomes depend on how earlier
    measurements updated the stabilizer AND destabilizer rows of the tableau / the CH form."""
    n = rng.randint(2, 4)
    qs = cirq.LineQubit.range(n)
    c = cirq.Circuit()
    nmeas = 0
    for i in range(rng.randint(8, 20)):
        r = rng.random()
        if r < 0.35 and nmeas < 7:
            c.append(cirq.measure(qs[rng.randrange(n)], key=f'm{nmeas}'))
            nmeas += 1
        elif r < 0.65:
            a, b = rng.sample(range(n), 2)
            c.append(rng.choice([cirq.CNOT, cirq.CNOT, cirq.CZ, cirq.SWAP])(qs[a], qs[b]))
        else:
            nm, es = rng.choice(CLIFF_1Q + [('H', [1.0])])
            c.append((getattr(cirq, nm) ** rng.choice(es)).on(qs[rng.randrange(n)]))
    while nmeas < 3:
        c.append(cirq.measure(qs[rng.randrange(n)], key=f'm{nmeas}'))
        nmeas += 1
    return c, qs
