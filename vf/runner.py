"""Shared check context: counting, violations, known findings, evidence (DESIGN 2.3, 2.4)."""
import collections, hashlib, json, os, random, sys, time
from . import env

KNOWN_DIR = os.path.join(env.VERIF, 'known_findings')


def canon(x):
    return json.dumps(x, sort_keys=True, default=str)


class Ctx:
    def __init__(self, prop, tier, seed, level):
        self.prop, self.tier, self.seed, self.level = prop, tier, seed, level
        self.rng = random.Random(seed)
        self.t0 = time.time()
        self.evaluations = 0
        self.distinct = set()
        self.streams = collections.Counter()
        self.nontrivial_by_stream = collections.Counter()
        self.samples = []
        self.rule = ''
        self.cov = {}
        self.assumptions = []
        self.violations = []      # dicts: signature, what, replay(path), found_input
        self.known_hits = []
        self.broken = []          # (name, detail) obligations/correspondences that no longer check
        self.stale_supporting = []
        try:
            self.known = [k for k in json.load(open(os.path.join(KNOWN_DIR, prop + '.json')))['findings']
                          if k['property'] == prop and k.get('status') == 'open']
        except FileNotFoundError:
            self.known = []

    # ---- coverage ----
    def count(self, stream, key, nontrivial=True, sample=None):
        """One evaluated case. key: canonical form used for deduplication."""
        self.evaluations += 1
        self.streams[stream] += 1
        if nontrivial:
            h = hashlib.sha1((stream + '|' + (key if isinstance(key, str) else canon(key))).encode()).digest()[:8]
            if h not in self.distinct:
                self.distinct.add(h)
                self.nontrivial_by_stream[stream] += 1
        if sample is not None and sum(1 for s in self.samples if s.get('stream') == stream) < 2:
            self.samples.append({'stream': stream, 'case': sample})

    def set_obligations(self, res, supporting=()):
        """res: result of coq.compile_props."""
        n = len(res['theorems'])
        self.cov['obligations'] = self.cov.get('obligations', 0) + n
        self.cov['discharged'] = self.cov.get('discharged', 0) + (res['discharged'] if res['ok'] else 0)
        self.cov['checker_cmd'] = res['cmd']
        self.cov.setdefault('theorems', []).extend(res['theorems'])
        axioms = sorted({a for v in res['assumptions'].values() for a in v})
        tb = self.cov.setdefault('trusted_base', [])
        for a in ['Coq 8.16.1 kernel (coqc, vm_compute; no native_compute)'] + ['axiom: ' + a for a in axioms]:
            if a not in tb:
                tb.append(a)
        self.cov['assumptions_per_theorem'] = dict(self.cov.get('assumptions_per_theorem', {}), **res['assumptions'])
        if not res['ok']:
            self.broken.append(('proof:' + res['cmd'], res['log'][-2500:]))

    def mark_broken(self, name, detail=''):
        self.broken.append((name, detail))

    # ---- violations ----
    def violation(self, signature, what, replay, found_input=True):
        """A failing input (or, with found_input=False, an obligation that no longer checks)."""
        for k in self.known:
            if k['signature'] == signature:
                if k not in self.known_hits:
                    self.known_hits.append(k)
                return 'known'
        if any(v['signature'] == signature for v in self.violations):
            return
        os.makedirs(os.path.join(env.VERIF, 'replay'), exist_ok=True)
        h = hashlib.sha1((signature + canon(replay)).encode()).hexdigest()[:10]
        path = os.path.join(env.VERIF, 'replay', f'{self.prop}-{h}.json')
        doc = dict(property=self.prop, signature=signature, what=what, found_input=found_input, seed=self.seed, tier=self.tier,
                   replay_cmd=f'./check {self.prop} --replay {path}')
        for k, v in replay.items():
            doc[k if k not in doc else 'case_' + k] = v
        json.dump(doc, open(path, 'w'), indent=1, default=str)
        self.violations.append(dict(signature=signature, what=what, path=path, found_input=found_input))

    def disagree(self, name, detail, signature, what, replay):
        """A correspondence disagreement for which the check has established a failing input on the real code:
        a recorded finding is reported as such; anything else breaks the correspondence and is a violation."""
        if self.violation(signature, what, replay) != 'known':
            self.mark_broken(name, detail)

    def finish(self):
        # a broken obligation/correspondence for which no failing input was found is still a violation
        if self.broken and not any(v['found_input'] for v in self.violations):
            names = [b[0] for b in self.broken]
            self.violation('broken:' + ';'.join(names), 'obligation or correspondence no longer checks; no failing input found',
                           dict(kind='broken', broken=[{'name': n, 'detail': d} for n, d in self.broken]), found_input=False)
        cov = dict(self.cov)
        cov.update(evaluations=self.evaluations, distinct_nontrivial=len(self.distinct), rule=self.rule,
                   samples=self.samples[:12] or [{'note': 'no correspondence cases in this run'}],
                   streams=dict(self.streams), nontrivial_by_stream=dict(self.nontrivial_by_stream),
                   stale_supporting=self.stale_supporting, broken=[b[0] for b in self.broken],
                   known_findings_hit=[k['signature'] for k in self.known_hits])
        if self.level == 'translation_validation':
            cov.setdefault('programs', self.evaluations)
            cov.setdefault('disagreements_checked', len(self.violations) + len(self.known_hits))
        if self.level == 'other':
            cov.setdefault('explanation', self.rule)
        ev = dict(property_id=self.prop, tier=self.tier, seed=self.seed, level=self.level, coverage=cov,
                  assumptions=self.assumptions, wall_s=round(time.time() - self.t0, 2),
                  violations=len(self.violations))
        # evidence/ only ever holds runs against /repo itself; runs against a scratch tree (VERIF_REPO) go elsewhere
        evdir = os.environ.get('VERIF_EVIDENCE_DIR') or (
            os.path.join(env.VERIF, 'evidence') if os.path.realpath(env.REPO) == '/repo'
            else os.path.join(env.VERIF, 'build', 'evidence-scratch'))
        os.makedirs(evdir, exist_ok=True)
        json.dump(ev, open(os.path.join(evdir, f'{self.prop}.json'), 'w'), indent=1, default=str)
        for k in self.known_hits:
            print(f'KNOWN-FINDING: property={self.prop} {k["what"]}', flush=True)
        for v in self.violations:
            tail = '' if v['found_input'] else ' no-failing-input-found'
            print(f'VIOLATION property={self.prop} replay={v["path"]}{tail}', flush=True)
            print(f'  what: {v["what"]}', flush=True)
        print(f'[{self.prop}] tier={self.tier} seed={self.seed} evaluations={self.evaluations} '
              f'distinct_nontrivial={len(self.distinct)} obligations={cov.get("obligations", 0)}/'
              f'{cov.get("discharged", 0)} violations={len(self.violations)} known={len(self.known_hits)} '
              f'wall={ev["wall_s"]}s', flush=True)
        return 1 if self.violations else 0


def replay_by_rerun(mod, ctx, data):
    """Generic replay: regenerate the stream that produced the case (same seed, same tier) and report whether the
    violation with the recorded signature occurs again on the tree under test."""
    import random
    ctx.seed = int(data.get('seed', 0))
    ctx.rng = random.Random(ctx.seed)
    ctx.tier = data.get('tier', ctx.tier)
    mod.run(ctx)
    again = [v for v in ctx.violations if v['signature'] == data['signature']]
    known = [k for k in ctx.known_hits if k['signature'] == data['signature']]
    for v in again:
        print('reproduced:', v['what'][:400])
    for k in known:
        print('reproduced (recorded finding):', k['what'][:400])
    return not again and not known
