"""Regenerated data (DESIGN 2.1): every table a proof depends on is re-evaluated from the working tree.

Each generator is registered with @table('Name'); `python -m vf.tables all` rewrites coq/Generated/*.v.
Generation is fail-closed: a generator raises TableError when an entry cannot be recognised exactly."""
import os, sys
from . import env, coq

GEN = os.path.join(coq.COQ, 'Generated')
REGISTRY = {}


class TableError(Exception):
    pass


def table(name):
    def deco(f):
        REGISTRY[name] = f
        return f
    return deco




def load_generators():
    import glob
    for path in sorted(glob.glob(os.path.join(os.path.dirname(os.path.abspath(__file__)), 'tables_*.py'))):
        __import__('vf.' + os.path.basename(path)[:-3])


def regenerate(names):
    """Returns dict name -> None | error string."""
    load_generators()
    res = {}
    for n in names:
        try:
            text = REGISTRY[n]()
            with coq.lock():
                coq.write_if_changed(os.path.join(GEN, n + '.v'), text)
            res[n] = None
        except TableError as e:
            res[n] = str(e)
    return res


def main(argv):
    load_generators()
    names = sorted(REGISTRY) if argv in ([], ['all']) else argv
    r = regenerate(names)
    bad = {k: v for k, v in r.items() if v}
    print('tables regenerated:', ', '.join(names) or '(none)')
    if bad:
        print('TABLE ERRORS', bad)
        sys.exit(1)


if __name__ == '__main__':
    from vf import tables as _t
    _t.main(sys.argv[1:])
