import argparse, importlib, json, os, sys, traceback
from . import env, runner


def main():
    ap = argparse.ArgumentParser()
    ap.add_argument('prop')
    ap.add_argument('--tier', default=None)
    ap.add_argument('--replay', default=None)
    a = ap.parse_args()
    tier = os.environ.get('VERIF_TIER') or a.tier or 'quick'
    if tier not in ('quick', 'thorough'):
        tier = 'quick'
    seed = int(os.environ.get('VERIF_SEED', '0') or 0)
    mod = importlib.import_module('vf.checks.' + a.prop.lower())
    ctx = runner.Ctx(a.prop, tier, seed, mod.LEVEL)
    os.makedirs(env.BUILD, exist_ok=True)
    if a.replay:
        data = json.load(open(a.replay))
        ok = mod.replay(ctx, data)
        print('REPLAY', 'property holds on this case' if ok else 'property FAILS on this case')
        sys.exit(0 if ok else 1)
    try:
        mod.run(ctx)
    except SystemExit:
        raise
    except Exception:
        tb = traceback.format_exc()
        print(tb)
        ctx.mark_broken('harness-exception', tb[-2000:])
    sys.exit(ctx.finish())


if __name__ == '__main__':
    main()
