"""The gate vocabulary shared by the numeric checks: for each family a parameter generator, the Cirq
constructor, and the Gallina term of Gates/Families.v (units computed from the same parameter record)."""
import cmath, math
import numpy as np

SPECIAL_EXP = [0.0, 0.25, -0.25, 0.5, -0.5, 1.0, -1.0, 2.0, 3.0, 1.5, 2.5, 0.75, 4.0, -1.5, -2.0, -2.5, 3.5]
SPECIAL_SHIFT = [0.0, -0.5, 0.25, 1.0, 0.5]


def fl(x):
    x = float(x)
    if x != x or x in (float('inf'), float('-inf')):
        raise ValueError('non-finite float')
    h = x.hex()
    return f'({h})' if h.startswith('-') else h


def fc(z):
    z = complex(z)
    return f'({fl(z.real)}, {fl(z.imag)})'


def unit(theta):
    return complex(math.cos(theta), math.sin(theta))


def fmat(m):
    m = np.asarray(m)
    return '[' + '; '.join('[' + '; '.join(fc(x) for x in row) + ']' for row in m) + ']'


def fvec(v):
    return '[' + '; '.join(fc(x) for x in np.asarray(v).reshape(-1)) + ']'


def nlist(xs):
    return '[' + '; '.join(str(int(x)) for x in xs) + ']%nat'


def draw_exp(rng):
    r = rng.random()
    if r < 0.5:
        return rng.choice(SPECIAL_EXP)
    if r < 0.9:
        return round(rng.uniform(-2, 2), 4)
    return round(rng.uniform(-9, 9), 3)


def draw_shift(rng):
    return rng.choice(SPECIAL_SHIFT) if rng.random() < 0.8 else round(rng.uniform(-1, 1), 3)


def draw_angle(rng):
    r = rng.random()
    if r < 0.4:
        return rng.choice([0.0, math.pi / 2, math.pi, -math.pi / 2, math.pi / 4, math.pi / 6, 2 * math.pi, -math.pi])
    return round(rng.uniform(-7, 7), 4)


def eig_units(e, s):
    r = unit(math.pi * e / 2)
    return f'{fc(r)} {fc(r.conjugate())} {fc(unit(math.pi * e * s))}'


def uu(theta):
    u = unit(theta)
    return f'{fc(u)} {fc(u.conjugate())}'


EIG = {
    'XPow': ('EXPow', lambda c: c.XPowGate), 'YPow': ('EYPow', lambda c: c.YPowGate), 'ZPow': ('EZPow', lambda c: c.ZPowGate),
    'HPow': ('EHPow', lambda c: c.HPowGate), 'CZPow': ('ECZPow', lambda c: c.CZPowGate), 'CXPow': ('ECXPow', lambda c: c.CXPowGate),
    'CYPow': ('ECYPow', lambda c: c.CYPowGate), 'SwapPow': ('ESwapPow', lambda c: c.SwapPowGate),
    'ISwapPow': ('EISwapPow', lambda c: c.ISwapPowGate), 'XXPow': ('EXXPow', lambda c: c.XXPowGate),
    'YYPow': ('EYYPow', lambda c: c.YYPowGate), 'ZZPow': ('EZZPow', lambda c: c.ZZPowGate),
    'CCZPow': ('ECCZPow', lambda c: c.CCZPowGate), 'CCXPow': ('ECCXPow', lambda c: c.CCXPowGate),
    'CCYPow': ('ECCYPow', lambda c: c.CCYPowGate),
}
EIG_SHAPE = {'XPow': (2,), 'YPow': (2,), 'ZPow': (2,), 'HPow': (2,), 'CCZPow': (2, 2, 2), 'CCXPow': (2, 2, 2), 'CCYPow': (2, 2, 2)}


class G:
    """A concrete gate instance: family name, parameter record, qid shape."""

    def __init__(self, fam, p, shape):
        self.fam, self.p, self.shape = fam, p, tuple(shape)

    def key(self):
        def j(v):
            if isinstance(v, np.ndarray):
                return [[str(complex(x)) for x in r] for r in v]
            if isinstance(v, G):
                return v.key()
            return v
        return [self.fam, {k: j(v) for k, v in self.p.items()}]

    def ctrl_expanded(self):
        import itertools
        kind, vals = self.p['cv']
        if kind == 'pos':
            return [list(t) for t in itertools.product(*[sorted(set(int(x) for x in v)) for v in vals])]
        return [[int(x) for x in t] for t in vals]

    # ---- Cirq object ----
    def cirq_gate(self, cirq, mods=None):
        f, p = self.fam, self.p
        if f in EIG:
            return EIG[f][1](cirq)(exponent=p['e'], global_shift=p['s'])
        if f == 'X4Pow':
            return cirq.XPowGate(exponent=p['e'], global_shift=p['s'], dimension=4)
        if f == 'Z4Pow':
            return cirq.ZPowGate(exponent=p['e'], global_shift=p['s'], dimension=4)
        if f == 'PI':
            P = [cirq.X, cirq.Y, cirq.Z]
            return cirq.PauliInteractionGate(P[p['p0']], bool(p['i0']), P[p['p1']], bool(p['i1']), exponent=p['e'])
        if f == 'Rx':
            return cirq.rx(p['rads'])
        if f == 'Ry':
            return cirq.ry(p['rads'])
        if f == 'Rz':
            return cirq.rz(p['rads'])
        if f == 'MS':
            return cirq.ms(p['rads'])
        if f == 'FSim':
            return cirq.FSimGate(theta=p['theta'], phi=p['phi'])
        if f == 'Sycamore':
            return mods['cirq_google'].SYC
        if f == 'PhasedFSim':
            return cirq.PhasedFSimGate(theta=p['theta'], zeta=p['zeta'], chi=p['chi'], gamma=p['gamma'], phi=p['phi'])
        if f == 'PhasedX':
            return cirq.PhasedXPowGate(phase_exponent=p['p'], exponent=p['e'], global_shift=p['s'])
        if f == 'PhasedXZ':
            return cirq.PhasedXZGate(x_exponent=p['x'], z_exponent=p['z'], axis_phase_exponent=p['a'])
        if f == 'PhasedISwap':
            return cirq.PhasedISwapPowGate(phase_exponent=p['p'], exponent=p['e'])
        if f == 'Givens':
            return cirq.givens(p['rads'])
        if f == 'CSwap':
            return cirq.CSwapGate()
        if f == 'GlobalPhase':
            return cirq.GlobalPhaseGate(unit(p['rads']))
        if f == 'Diagonal':
            return {1: None, 2: cirq.TwoQubitDiagonalGate, 3: cirq.ThreeQubitDiagonalGate}.get(len(self.shape), None)(p['angles']) \
                if p.get('fixed') else cirq.DiagonalGate(p['angles'])
        if f == 'QFT':
            return cirq.QuantumFourierTransformGate(len(self.shape))
        if f == 'PhaseGrad':
            return cirq.PhaseGradientGate(num_qubits=len(self.shape), exponent=p['e'])
        if f == 'Matrix':
            return cirq.MatrixGate(p['m'], qid_shape=self.shape)
        if f == 'Identity':
            return cirq.IdentityGate(qid_shape=self.shape)
        if f == 'Perm':
            return cirq.QubitPermutationGate(p['perm'])
        if f == 'GPI':
            return mods['cirq_ionq'].GPIGate(phi=p['phi'])
        if f == 'GPI2':
            return mods['cirq_ionq'].GPI2Gate(phi=p['phi'])
        if f == 'IonqMS':
            return mods['cirq_ionq'].MSGate(phi0=p['phi0'], phi1=p['phi1'], theta=p['theta'])
        if f == 'IonqZZ':
            return mods['cirq_ionq'].ZZGate(theta=p['theta'])
        if f == 'Ctrl':
            kind, vals = p['cv']
            if kind == 'pos':
                cv = [v[0] if (len(v) == 1 and not p.get('as_sets')) else tuple(v) for v in vals]
                if p.get('bools'):
                    cv = [bool(v) if isinstance(v, int) else v for v in cv]
            else:
                cv = cirq.SumOfProducts([tuple(t) for t in vals])
            return cirq.ControlledGate(p['sub'].cirq_gate(cirq, mods), num_controls=len(p['cdims']), control_values=cv,
                                       control_qid_shape=tuple(p['cdims']))
        raise KeyError(f)

    # ---- Gallina term (float instance) ----
    def coq(self):
        f, p = self.fam, self.p
        if f in EIG:
            return f'(GEig {EIG[f][0]} {eig_units(p["e"], p["s"])})'
        if f == 'X4Pow':
            return f'(GEig EX4Pow {eig_units(p["e"], p["s"])})'
        if f == 'Z4Pow':
            return f'(GEig EZ4Pow {eig_units(p["e"], p["s"])})'
        if f == 'PI':
            b = lambda x: 'true' if x else 'false'
            return f'(GEig (EPI {p["p0"]} {b(p["i0"])} {p["p1"]} {b(p["i1"])}) {eig_units(p["e"], 0.0)})'
        if f in ('Rx', 'Ry', 'Rz'):   # documented: exp(-i P rads/2) = P^(rads/pi) with global shift -1/2
            r = unit(p['rads'] / 2)
            fam = {'Rx': 'EXPow', 'Ry': 'EYPow', 'Rz': 'EZPow'}[f]
            return f'(GEig {fam} {fc(r)} {fc(r.conjugate())} {fc(unit(-p["rads"] / 2))})'
        if f == 'MS':                # documented: exp(-i rads XX) = XX^(2 rads/pi), shift -1/2
            r = unit(p['rads'])
            return f'(GEig EXXPow {fc(r)} {fc(r.conjugate())} {fc(unit(-p["rads"]))})'
        if f == 'FSim':
            return f'(GFSim {uu(p["theta"])} {uu(p["phi"])})'
        if f == 'Sycamore':
            return f'(GFSim {uu(math.pi / 2)} {uu(math.pi / 6)})'
        if f == 'PhasedFSim':
            return '(GPhasedFSim ' + ' '.join(uu(p[k]) for k in ('theta', 'zeta', 'chi', 'gamma', 'phi')) + ')'
        if f == 'PhasedX':
            return f'(GPhasedX {uu(math.pi * p["p"])} {eig_units(p["e"], p["s"])})'
        if f == 'PhasedXZ':
            r = unit(math.pi * p['x'] / 2)
            return f'(GPhasedXZ {uu(math.pi * p["a"])} {uu(math.pi * p["z"])} {fc(r)} {fc(r.conjugate())})'
        if f == 'PhasedISwap':
            return f'(GPhasedISwap {uu(2 * math.pi * p["p"])} {eig_units(p["e"], 0.0)})'
        if f == 'Givens':            # documented: exp(-i rads (YX - XY)/2) = PhasedISwap(0.25) ** (2 rads / pi)
            return f'(GPhasedISwap {uu(2 * math.pi * 0.25)} {eig_units(2 * p["rads"] / math.pi, 0.0)})'
        if f == 'CSwap':
            return 'GCSwap'
        if f == 'GlobalPhase':
            return f'(GGlobalPhase {fc(unit(p["rads"]))})'
        if f == 'Diagonal':
            return '(GDiag [' + '; '.join(fc(unit(a)) for a in p['angles']) + '])'
        if f == 'QFT':
            n = len(self.shape)
            return f'(GQFT {n} {fc(unit(2 * math.pi / 2 ** n))})'
        if f == 'PhaseGrad':
            n = len(self.shape)
            return f'(GPhaseGrad {n} {fc(unit(2 * math.pi * p["e"] / 2 ** n))})'
        if f == 'Matrix':
            return f'(GMat {nlist(self.shape)} {fmat(p["m"])})'
        if f == 'Identity':
            return f'(GIdentity {nlist(self.shape)})'
        if f == 'Perm':
            return f'(GPerm {nlist(p["perm"])})'
        if f == 'GPI':
            return f'(GGPI {uu(2 * math.pi * p["phi"])})'
        if f == 'GPI2':
            return f'(GGPI2 {uu(2 * math.pi * p["phi"])})'
        if f == 'IonqMS':
            return (f'(GIonqMS {uu(2 * math.pi * (p["phi0"] + p["phi1"]))} {uu(2 * math.pi * (p["phi0"] - p["phi1"]))} '
                    f'{uu(math.pi * p["theta"])})')
        if f == 'IonqZZ':
            return f'(GIonqZZ {uu(math.pi * p["theta"])})'
        if f == 'Ctrl':
            cvals = '[' + '; '.join(nlist(t) for t in self.ctrl_expanded()) + ']'
            return f'(GCtrl {nlist(p["cdims"])} {cvals} {p["sub"].coq()})'
        raise KeyError(f)


def random_unitary(rng, n):
    """Haar-ish unitary from the seeded python rng (QR of a Gaussian matrix)."""
    a = np.array([[complex(rng.gauss(0, 1), rng.gauss(0, 1)) for _ in range(n)] for _ in range(n)])
    q, r = np.linalg.qr(a)
    d = np.diag(r)
    return q * (d / np.abs(d))


CORE_FAMILIES = ['XPow', 'YPow', 'ZPow', 'HPow', 'CZPow', 'CXPow', 'CYPow', 'SwapPow', 'ISwapPow', 'XXPow', 'YYPow', 'ZZPow',
                 'CCZPow', 'CCXPow', 'CCYPow', 'PI', 'Rx', 'Ry', 'Rz', 'MS', 'FSim', 'PhasedFSim', 'PhasedX', 'PhasedXZ',
                 'PhasedISwap', 'Givens', 'CSwap', 'GlobalPhase', 'Diagonal', 'QFT', 'PhaseGrad', 'Matrix', 'Identity', 'Perm',
                 'Ctrl', 'Ctrl']
FAST = ['XPow', 'YPow', 'ZPow', 'HPow', 'CZPow', 'CXPow', 'SwapPow']
QUDIT_FAMILIES = ['X4Pow', 'Z4Pow']
VENDOR_FAMILIES = ['Sycamore', 'GPI', 'GPI2', 'IonqMS', 'IonqZZ']


def draw(rng, fam, depth=0):
    """A parameter record for the family, weighted towards the special values that select fast paths."""
    if fam in EIG or fam in ('X4Pow', 'Z4Pow'):
        shape = EIG_SHAPE.get(fam, (2, 2)) if fam in EIG else (4,)
        return G(fam, dict(e=draw_exp(rng), s=draw_shift(rng)), shape)
    if fam == 'PI':
        return G(fam, dict(p0=rng.randrange(3), i0=rng.randrange(2), p1=rng.randrange(3), i1=rng.randrange(2), e=draw_exp(rng)), (2, 2))
    if fam in ('Rx', 'Ry', 'Rz'):
        return G(fam, dict(rads=draw_angle(rng)), (2,))
    if fam == 'MS':
        return G(fam, dict(rads=draw_angle(rng)), (2, 2))
    if fam == 'FSim':
        return G(fam, dict(theta=draw_angle(rng), phi=draw_angle(rng)), (2, 2))
    if fam == 'Sycamore':
        return G(fam, {}, (2, 2))
    if fam == 'PhasedFSim':
        return G(fam, {k: draw_angle(rng) for k in ('theta', 'zeta', 'chi', 'gamma', 'phi')}, (2, 2))
    if fam == 'PhasedX':
        return G(fam, dict(p=draw_exp(rng), e=draw_exp(rng), s=draw_shift(rng)), (2,))
    if fam == 'PhasedXZ':
        return G(fam, dict(x=draw_exp(rng), z=draw_exp(rng), a=draw_exp(rng)), (2,))
    if fam == 'PhasedISwap':
        return G(fam, dict(p=draw_exp(rng), e=draw_exp(rng)), (2, 2))
    if fam == 'Givens':
        return G(fam, dict(rads=draw_angle(rng)), (2, 2))
    if fam == 'CSwap':
        return G(fam, {}, (2, 2, 2))
    if fam == 'GlobalPhase':
        return G(fam, dict(rads=draw_angle(rng)), ())
    if fam == 'Diagonal':
        n = rng.choice([1, 2, 2, 3, 3])
        fixed = n in (2, 3) and rng.random() < 0.6
        return G(fam, dict(angles=[draw_angle(rng) for _ in range(2 ** n)], fixed=fixed), (2,) * n)
    if fam == 'QFT':
        return G(fam, {}, (2,) * rng.choice([1, 2, 3]))
    if fam == 'PhaseGrad':
        return G(fam, dict(e=draw_exp(rng)), (2,) * rng.choice([1, 2, 3]))
    if fam == 'Matrix':
        shape = rng.choice([(2,), (2,), (2, 2), (2, 2), (3,), (2, 3), (2, 2, 2)])
        return G(fam, dict(m=random_unitary(rng, int(np.prod(shape)))), shape)
    if fam == 'Identity':
        return G(fam, {}, rng.choice([(2,), (2, 2), (3,), (2, 3), (2, 2, 2)]))
    if fam == 'Perm':
        n = rng.choice([2, 3, 3])
        perm = list(range(n))
        rng.shuffle(perm)
        return G(fam, dict(perm=perm), (2,) * n)
    if fam in ('GPI', 'GPI2'):
        return G(fam, dict(phi=rng.choice([0.0, 0.25, 0.5, -0.25, round(rng.uniform(-1, 1), 4)])), (2,))
    if fam == 'IonqMS':
        return G(fam, dict(phi0=round(rng.uniform(-1, 1), 3), phi1=round(rng.uniform(-1, 1), 3),
                           theta=rng.choice([0.25, 0.25, 0.1, 0.0, 0.125])), (2, 2))
    if fam == 'IonqZZ':
        return G(fam, dict(theta=rng.choice([0.25, 0.1, 0.0, -0.125, round(rng.uniform(-1, 1), 3)])), (2, 2))
    if fam == 'Ctrl':
        subfam = rng.choice(['XPow', 'YPow', 'ZPow', 'HPow', 'CZPow', 'CXPow', 'SwapPow', 'ISwapPow', 'PhasedX', 'Matrix', 'FSim',
                             'GlobalPhase', 'Rx', 'Rz', 'ZZPow', 'Z4Pow', 'X4Pow', 'Ctrl'] if depth < 2 else ['XPow', 'ZPow', 'HPow'])
        sub = draw(rng, subfam, depth + 1) if subfam == 'Ctrl' else draw(rng, subfam)
        while len(sub.shape) > 2:
            sub = draw(rng, 'XPow')
        nc = rng.choice([1, 1, 2]) if len(sub.shape) <= 1 else 1
        cdims = [rng.choice([2, 2, 2, 3]) for _ in range(nc)]
        r = rng.random()
        if r < 0.25 and nc >= 2:
            import itertools
            allv = list(itertools.product(*[range(d) for d in cdims]))
            vals = rng.sample(allv, rng.randint(1, min(3, len(allv))))
            cv = ('sop', [list(t) for t in vals])
            p = dict(sub=sub, cdims=cdims, cv=cv)
        else:
            vals = []
            for d in cdims:
                k = rng.random()
                if k < 0.55:
                    vals.append([rng.choice([1, 1, 0] if d == 2 else [1, 2, 0])])
                else:
                    vals.append(sorted(rng.sample(range(d), rng.randint(1, d))))
            p = dict(sub=sub, cdims=cdims, cv=('pos', vals), bools=(rng.random() < 0.3 and all(d == 2 for d in cdims)),
                     as_sets=rng.random() < 0.3)
        return G(fam, p, tuple(cdims) + tuple(sub.shape))
    raise KeyError(fam)


COQ_HEADER = ('From Coq Require Import PrimFloat List ZArith Bool.\n'
              'From VF Require Import Base.RingOps Base.Mat Base.Tensor Base.FloatInst Base.Harness Gates.Families.\n'
              'Import ListNotations.\nOpen Scope float_scope.\n')


EXP_LIKE = ('e', 'x', 'z', 'a', 'p', 's')
ANGLE_LIKE = ('rads', 'theta', 'phi', 'zeta', 'chi', 'gamma')
SPECIAL_ANGLES = [0.0, math.pi / 2, math.pi, -math.pi / 2, -math.pi, math.pi / 4, 2 * math.pi, 3 * math.pi, -3 * math.pi / 2]


def special_grid(rng, fam):
    """For each exponent-like / angle-like parameter of the family: one instance per special value of that parameter
    (the other parameters drawn as usual) — so every fast path keyed on a special value is visited in every run."""
    out = []
    base = draw(rng, fam)
    for name in list(base.p):
        vals = SPECIAL_EXP if name in EXP_LIKE else SPECIAL_ANGLES if name in ANGLE_LIKE else None
        if vals is None or not isinstance(base.p[name], float):
            continue
        for v in vals:
            g = draw(rng, fam)
            if g.shape != base.shape or name not in g.p:
                continue
            g.p[name] = v
            out.append(g)
    return out


PAIR_EXP = [0.0, 1.0, -1.0, 0.5, -0.5, 2.0]
PAIR_ANGLES = [0.0, math.pi, -math.pi, math.pi / 2]


def pair_grid(rng, fam):
    """Instances where TWO parameters sit on special values at once (fast paths guarded by a conjunction)."""
    import itertools
    out = []
    base = draw(rng, fam)
    names = [n for n in base.p if isinstance(base.p[n], float) and (n in EXP_LIKE or n in ANGLE_LIKE)]
    for n1, n2 in itertools.combinations(names, 2):
        v1s = PAIR_EXP if n1 in EXP_LIKE else PAIR_ANGLES
        v2s = PAIR_EXP if n2 in EXP_LIKE else PAIR_ANGLES
        for v1 in v1s:
            for v2 in v2s:
                g = draw(rng, fam)
                if g.shape != base.shape:
                    continue
                g.p[n1], g.p[n2] = v1, v2
                out.append(g)
    return out
