"""Scripted seed object (DESIGN A.3): every random draw Cirq makes goes through it, so a DFS over branch
scripts enumerates ALL outcome branches of a run together with the exact probability Cirq assigned to each."""
import numpy as np


class NeedBranch(Exception):
    def __init__(self, probs):
        self.probs = list(probs)


class InvalidBranch(Exception):
    pass


class BranchExplosion(Exception):
    """The run has more random branches than the enumeration budget: a limit of the harness, never a finding."""


class SymbolicP:
    """Stands for the uniform draw p in `apply_channel`'s loop `p -= weight; if p < 0: break`.
    In probe mode (target None) it never goes negative, so the loop visits every Kraus operator and the
    weights are collected; `p >= 0` after the loop then asks for the branches."""

    def __init__(self, owner, target):
        self.owner, self.target, self.weights = owner, target, []

    def __isub__(self, w):
        self.weights.append(float(w))
        return self

    def __sub__(self, w):
        return self.__isub__(w)

    def __lt__(self, other):          # p < 0
        hit = self.target is not None and len(self.weights) - 1 == self.target
        if hit:
            self.owner.prob *= self.weights[self.target]
        return hit

    def __ge__(self, other):          # p >= 0 (after the loop)
        if self.target is None:
            raise NeedBranch(self.weights)
        if len(self.weights) - 1 == self.target:
            return False
        raise InvalidBranch()


class ScriptedSeed:
    def __init__(self, script):
        self.script, self.pos, self.prob, self.trace = list(script), 0, 1.0, []

    def _next(self, probs):
        probs = [float(p) for p in probs]
        if self.pos >= len(self.script):
            raise NeedBranch(probs)
        k = self.script[self.pos]
        self.pos += 1
        self.prob *= probs[k]
        self.trace.append((k, probs[k]))
        return k

    def choice(self, a, size=None, p=None, replace=True):
        n = a if isinstance(a, (int, np.integer)) else len(a)
        probs = [1.0 / n] * n if p is None else list(p)
        if size is None:
            k = self._next(probs)
            return k if isinstance(a, (int, np.integer)) else a[k]
        size = int(np.prod(size))
        out = [self._next(probs) for _ in range(size)]
        return np.array(out if isinstance(a, (int, np.integer)) else [a[k] for k in out])

    def randint(self, low, high=None, size=None):
        lo, hi = (0, low) if high is None else (low, high)
        n = hi - lo
        if size is None:
            return lo + self._next([1.0 / n] * n)
        return np.array([lo + self._next([1.0 / n] * n) for _ in range(int(np.prod(size)))])

    def random(self, size=None):
        if self.pos >= len(self.script):
            return SymbolicP(self, None)
        k = self.script[self.pos]
        self.pos += 1
        self.trace.append((k, None))
        return SymbolicP(self, k)

    random_sample = random

    def rand(self, *a):
        raise RuntimeError('ScriptedSeed: unexpected draw rand')

    def __getattr__(self, name):
        raise RuntimeError(f'ScriptedSeed: unexpected draw {name}')


def enumerate_runs(fn, max_branches=4096, eps=1e-12):
    """fn(seed) -> result.  Returns [(probability, result, script)] over all branches with probability > eps."""
    results, stack, runs = [], [[]], 0
    while stack:
        script = stack.pop()
        runs += 1
        if runs > 40 * max_branches:
            raise BranchExplosion('branch explosion')
        seed = ScriptedSeed(script)
        try:
            res = fn(seed)
        except NeedBranch as nb:
            for k in reversed(range(len(nb.probs))):
                if nb.probs[k] > eps:
                    stack.append(script + [k])
            continue
        except InvalidBranch:
            continue
        if seed.pos != len(seed.script):
            raise RuntimeError('script longer than the run')
        results.append((seed.prob, res, script))
        if len(results) > max_branches:
            raise BranchExplosion('too many branches')
    return results
