"""Driving Coq: project build, property files, and evaluation of the model on generated cases."""
import fcntl, os, re, subprocess, time, hashlib
from . import env

COQ = os.path.join(env.VERIF, 'coq')
LOCK = os.path.join(env.BUILD, '.lock')


class _Lock:
    def __enter__(self):
        os.makedirs(env.BUILD, exist_ok=True)
        self.f = open(LOCK, 'w')
        fcntl.flock(self.f, fcntl.LOCK_EX)

    def __exit__(self, *a):
        fcntl.flock(self.f, fcntl.LOCK_UN)
        self.f.close()


def lock():
    return _Lock()


def write_if_changed(path, text):
    """Compare-and-swap so unchanged generated files keep their mtime (make does nothing)."""
    try:
        if open(path).read() == text:
            return False
    except FileNotFoundError:
        pass
    os.makedirs(os.path.dirname(path), exist_ok=True)
    tmp = path + '.tmp%d' % os.getpid()
    open(tmp, 'w').write(text)
    os.replace(tmp, path)
    return True


def ensure_project():
    """(Re)generate _CoqProject and Makefile from the files on disk."""
    files = []
    for d, _, fs in os.walk(COQ):
        for f in fs:
            if f.endswith('.v'):
                files.append(os.path.relpath(os.path.join(d, f), COQ))
    files.sort()
    text = '-Q . VF\n-arg -w -arg -all\n' + '\n'.join(files) + '\n'
    changed = write_if_changed(os.path.join(COQ, '_CoqProject'), text)
    if changed or not os.path.exists(os.path.join(COQ, 'Makefile')):
        subprocess.run(['coq_makefile', '-f', '_CoqProject', '-o', 'Makefile'], cwd=COQ, check=True,
                       stdout=subprocess.DEVNULL, stderr=subprocess.DEVNULL)


def make(targets, timeout=1500, jobs=8):
    """Full .vo build of the given targets (and what they depend on). Returns (ok, log)."""
    if os.path.exists(os.path.join(COQ, 'Makefile')) and os.path.exists(os.path.join(COQ, '.Makefile.d')):
        # nothing to do?  (read-only question, asked without the lock so concurrent checks do not queue behind a build)
        q = subprocess.run(['make', '-q'] + list(targets), cwd=COQ, stdout=subprocess.DEVNULL, stderr=subprocess.DEVNULL)
        if q.returncode == 0:
            return True, 'up to date'
    with lock():
        ensure_project()
        p = subprocess.run(['timeout', str(timeout), 'make', '-j%d' % jobs] + list(targets), cwd=COQ,
                           stdout=subprocess.PIPE, stderr=subprocess.STDOUT, text=True)
    return p.returncode == 0, p.stdout


def compile_props(prop_id, timeout=600):
    """Build what Props/<id>.v depends on, then compile it and parse theorem names / Print Assumptions.

    Returns dict(ok, theorems=[...], assumptions={thm: [axioms]}, log, cmd)."""
    target = f'Props/{prop_id}.vo'
    src = os.path.join(COQ, 'Props', f'{prop_id}.v')
    text = open(src).read()
    theorems = re.findall(r'^\s*(?:Theorem|Lemma|Corollary)\s+([A-Za-z0-9_\']+)', text, re.M)
    ok, log = make([target], timeout=timeout)
    cmd = f'cd coq && make {target} && coqc -Q . VF Props/{prop_id}.v'
    res = dict(ok=ok, theorems=theorems, assumptions={}, log=log, cmd=cmd, discharged=0)
    if not ok:
        return res
    outdir = os.path.join(env.BUILD, 'props', str(os.getpid()))
    os.makedirs(outdir, exist_ok=True)
    # compiled again (output outside the project, no lock needed) to capture what Print Assumptions reports
    p = subprocess.run(['timeout', str(timeout), 'coqc', '-Q', '.', 'VF', '-w', '-all', '-o', os.path.join(outdir, f'{prop_id}.vo'),
                        f'Props/{prop_id}.v'], cwd=COQ, stdout=subprocess.PIPE, stderr=subprocess.STDOUT, text=True)
    for ext in ('.vo', '.vok', '.vos', '.glob'):
        try:
            os.remove(os.path.join(outdir, f'{prop_id}{ext}'))
        except OSError:
            pass
    res['log'] = log + p.stdout
    if p.returncode != 0:
        res['ok'] = False
        return res
    # Print Assumptions output blocks, in order of the Print Assumptions commands
    printed = re.findall(r'^\s*Print Assumptions\s+([A-Za-z0-9_\']+)\s*\.', text, re.M)
    blocks = re.split(r'(?=^Closed under the global context|^Axioms:)', p.stdout, flags=re.M)
    blocks = [b for b in blocks if b.startswith('Closed under') or b.startswith('Axioms:')]
    for name, b in zip(printed, blocks):
        if b.startswith('Closed'):
            res['assumptions'][name] = []
        else:
            res['assumptions'][name] = sorted(set(re.findall(r'^([A-Za-z0-9_.\']+)\s*:', b[len('Axioms:'):], re.M)))
    res['discharged'] = len([t for t in theorems if t in res['assumptions']])
    if len(blocks) != len(printed):
        res['ok'] = False
        res['log'] += '\nPrint Assumptions count mismatch'
    return res


def coq_eval(name, text, timeout=900):
    """Compile a generated cases file under build/cases and return coqc's stdout (raises on failure)."""
    d = os.path.join(env.BUILD, 'cases')
    os.makedirs(d, exist_ok=True)
    name = f'{name}_p{os.getpid()}'          # concurrent checks never share a cases file
    path = os.path.join(d, name + '.v')
    open(path, 'w').write(text)
    deps = set()
    for line in re.findall(r'From VF Require (?:Import|Export) ([^.]*(?:\.[A-Za-z0-9_]+)*[^.]*)\.\s', text):
        pass
    for m in re.finditer(r'From VF Require (?:Import|Export)\s+([A-Za-z0-9_. \n]+?)\.\s*\n', text):
        for mod in m.group(1).split():
            deps.add(mod.replace('.', '/') + '.vo')
    if deps:
        ok, log = make(sorted(deps))
        if not ok:
            raise RuntimeError('model does not build:\n' + log[-3000:])
    p = subprocess.run(['timeout', str(timeout), 'coqc', '-Q', COQ, 'VF', '-w', '-all', path],
                       stdout=subprocess.PIPE, stderr=subprocess.STDOUT, text=True, cwd=d)
    for ext in ('.vo', '.vok', '.vos', '.glob'):
        try:
            os.remove(os.path.join(d, name + ext))
        except OSError:
            pass
    if p.returncode != 0:
        raise RuntimeError(f'coqc failed on {path}:\n{p.stdout[-3000:]}')
    return p.stdout


def parse_evals(out):
    """Split coqc stdout into the values printed by successive `Eval ... in` commands (as raw strings)."""
    vals = []
    for m in re.finditer(r'^\s*= (.*?)\n\s*: [^\n]*(?:\n(?=\s*=)|\n?\Z|\n)', out, re.S | re.M):
        vals.append(' '.join(m.group(1).split()))
    return vals


def parse_nat_list(s):
    return [int(x) for x in re.findall(r'-?\d+', s)]


# ---- emitting Gallina literals ----
def zlit(n):
    n = int(n)
    return f'({n})' if n < 0 else str(n)


def zlist(xs):
    return '[' + '; '.join(zlit(x) for x in xs) + ']'


def blist(xs):
    return '[' + '; '.join('true' if x else 'false' for x in xs) + ']'


def opt(x, f=str):
    return 'None' if x is None else f'(Some {f(x)})'


def coq_eval_many(items, workers=8, timeout=900):
    """items: list of (name, text). Evaluates them in parallel; returns list of stdout strings (same order)."""
    from concurrent.futures import ThreadPoolExecutor
    if not items:
        return []
    # build the dependencies once (sequentially, under the lock), then evaluate shards in parallel
    first = items[0]
    outs = [None] * len(items)
    outs[0] = coq_eval(first[0], first[1], timeout=timeout)
    with ThreadPoolExecutor(max_workers=workers) as ex:
        futs = {i: ex.submit(coq_eval, n, t, timeout) for i, (n, t) in enumerate(items) if i > 0}
        for i, f in futs.items():
            outs[i] = f.result()
    return outs
