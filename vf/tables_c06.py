"""Regenerated gauge tables (C06): every constant gauge of the gauge-compiling transformers and every built-in
dynamical-decoupling base sequence, evaluated from the working tree.

An entry is the six matrices (G, PRE0, PRE1, Geff', POST0, POST1) of one replacement
    pre_q0/pre_q1 -> two_qubit_gate (on (q1, q0) when swap_qubits) -> post_q0/post_q1
of a two-qubit gate G; coq/Xform/Gauges.v decides (POST0 (x) POST1) . Geff' . (PRE0 (x) PRE1) = c . G, |c| = 1.
Entries whose numbers all lie in Q(zeta_8) are written exactly (kcx); the others as binary64 literals."""
import ast, inspect, itertools, math, textwrap
import numpy as np
from . import env
from .tables import table, TableError
from .tables_gates import coq_matrix
from .gates import fmat

# ---- frozen classification (completeness is checked against these, fail-closed) ----------------------------
# exported GaugeTransformer instances -> qualified names of the Gauge classes their selector may contain
KNOWN_TRANSFORMERS = {
    'CZGaugeTransformer': {'gauge_compiling.ConstantGauge'},
    'SqrtCZGaugeTransformer': {'sqrt_cz_gauge.SqrtCZGauge'},
    'SpinInversionGaugeTransformer': {'gauge_compiling.SameGateGauge'},
    'ISWAPGaugeTransformer': {'iswap_gauge.RZRotation', 'iswap_gauge.XYRotation'},
    'SqrtISWAPGaugeTransformer': {'sqrt_iswap_gauge.RZRotation', 'sqrt_iswap_gauge.XYRotation'},
    'CPhaseGaugeTransformer': {'cphase_gauge.CPhasePauliGauge'},
}
KNOWN_GOOGLE_TRANSFORMERS = {'SYCGaugeTransformer': {'gauge_compiling.ConstantGauge'}}
# exported classes of the package: the abstractions, and the multi-moment transformers that have no constant table
KNOWN_CLASSES = {'ConstantGauge', 'Gauge', 'GaugeSelector', 'GaugeTransformer', 'TwoQubitGateSymbolizer'}
KNOWN_EXCLUDED = {
    'IdleMomentsGauge': 'idle_moments_gauge: multi-moment transformer on idle qubits, no constant gauge table',
    'MultiMomentGaugeTransformer': 'multi_moment_gauge_compiling: abstract multi-moment base class',
    'CPhaseGaugeTransformerMM': 'multi_moment_cphase_gauge: multi-moment Pauli gauge, sampled per moment, no constant table',
}
EXACT_CPHASE_EXPONENTS = [1, 0.5, -0.5, 0.25, -0.25, 1.5]
FLOAT_CPHASE_EXPONENTS = [0.37, -1.21]
EXACT_ZZ_EXPONENTS = [1, 0.5, -0.5, 0.25]
FLOAT_ZZ_EXPONENTS = [0.37, -1.21]
N_RANDOM = 6


def _qual(cls):
    return cls.__module__.rsplit('.', 1)[-1] + '.' + cls.__name__


class ScriptedPrng:
    """A prng whose `choice` follows a script of indices (0 beyond the script); anything else is refused."""

    def __init__(self, script):
        self.script, self.used, self.arity = list(script), [], []

    def choice(self, seq, *args, **kw):
        if args or kw:
            raise TableError(f'scripted prng: choice called with extra arguments {args} {kw}')
        seq = list(seq)
        p = len(self.used)
        i = self.script[p] if p < len(self.script) else 0
        if not 0 <= i < len(seq):
            raise TableError('scripted prng: script index out of range')
        self.used.append(i)
        self.arity.append(len(seq))
        return seq[i]

    def __getattr__(self, name):
        raise TableError(f'scripted prng: the sampled gauge uses prng.{name}, which the enumeration does not script')


def enumerate_branches(fn, limit=64):
    """All outcomes of fn(prng) over every sequence of prng.choice results: list of (script, outcome)."""
    out, stack = [], [[]]
    while stack:
        script = stack.pop()
        prng = ScriptedPrng(script)
        res = fn(prng)
        out.append((tuple(prng.used), res))
        if len(out) > limit:
            raise TableError('scripted prng: too many branches')
        for p in range(len(script), len(prng.used)):
            for alt in range(1, prng.arity[p]):
                stack.append(prng.used[:p] + [alt])
    return sorted(out, key=lambda t: t[0])


class Collector:
    def __init__(self, cirq):
        self.cirq = cirq
        self.q0, self.q1 = cirq.LineQubit.range(2)
        self.swap = cirq.unitary(cirq.SWAP)
        self.exact, self.floats = [], []       # (name, [6 matrices])

    def prod(self, gates, who):
        r = np.eye(2, dtype=complex)
        for g in gates:                        # applied in tuple order: later gate on the left
            u = self.cirq.unitary(g, None)
            if u is None or u.shape != (2, 2):
                raise TableError(f'{who}: {g!r} is not a single-qubit unitary gate')
            r = u @ r
        return r

    def matrices(self, name, target, gauge):
        cirq = self.cirq
        if type(gauge).__name__ != 'ConstantGauge':
            raise TableError(f'{name}: sample() returned {type(gauge).__name__}, not a ConstantGauge')
        G = cirq.unitary(target, None)
        Gp = cirq.unitary(gauge.two_qubit_gate, None)
        if G is None or Gp is None or G.shape != (4, 4) or Gp.shape != (4, 4):
            raise TableError(f'{name}: the two-qubit gates have no 4x4 unitary')
        eff = cirq.Circuit(gauge.on(self.q0, self.q1)).unitary(qubit_order=[self.q0, self.q1])
        ref = self.swap @ Gp @ self.swap if gauge.swap_qubits else Gp
        if not np.allclose(eff, ref, atol=1e-12, rtol=0):
            raise TableError(f'{name}: ConstantGauge.on disagrees with swap_qubits={gauge.swap_qubits}')
        (pre0, pre1), (post0, post1) = gauge.pre, gauge.post
        return [G, self.prod(pre0, name), self.prod(pre1, name), eff, self.prod(post0, name), self.prod(post1, name)]

    def add(self, name, target, gauge, exact=True, also_float=False):
        """exact=True: exact list when every number is recognisable, float list otherwise."""
        ms = self.matrices(name, target, gauge)
        if exact:
            try:
                self.exact.append((name, [coq_matrix(m) for m in ms]))
            except TableError:
                also_float = True
        if also_float or not exact:
            self.floats.append((name, [fmat(m) for m in ms]))


def _gname(g):
    """A comment-safe name of a gate."""
    s = str(g).replace('\u03c0', 'pi').replace('**', '^').replace('*', '.').replace('"', "'")
    s = ''.join(c if 32 <= ord(c) < 127 else '?' for c in s)
    return s.replace('(', '<').replace(')', '>')


def _gauge_desc(g):
    f = lambda t: '.'.join(_gname(x) for x in t) or '-'
    return (f'pre=({f(g.pre_q0)},{f(g.pre_q1)}) two={_gname(g.two_qubit_gate)}{" swapped" if g.swap_qubits else ""} '
            f'post=({f(g.post_q0)},{f(g.post_q1)})')


def _selector_of(name, tr, allowed, cirq):
    from cirq.transformers.gauge_compiling import gauge_compiling as gc
    if not isinstance(tr, gc.GaugeTransformer):
        raise TableError(f'{name} is not a GaugeTransformer instance')
    sel = tr.gauge_selector
    if not isinstance(sel, gc.GaugeSelector):
        raise TableError(f'{name}: gauge_selector is a {type(sel).__name__}, not a GaugeSelector (cannot be enumerated)')
    for g in sel.gauges:
        if _qual(type(g)) not in allowed:
            raise TableError(f'{name}: selector contains a gauge of class {_qual(type(g))} that the table does not enumerate')
    return sel


def _by_class(sel, clsname, who):
    l = [g for g in sel.gauges if type(g).__name__ == clsname]
    if len(l) != 1:
        raise TableError(f'{who}: expected exactly one {clsname} in the selector, found {len(l)}')
    return l[0]


def _need(cond, msg):
    if not cond:
        raise TableError(msg)


def check_exports(cirq, cg):
    """Every exported GaugeTransformer must be one we enumerate; every exported class must be classified."""
    import cirq.transformers.gauge_compiling as pkg
    from cirq.transformers.gauge_compiling import gauge_compiling as gc
    seen = set()
    for n in dir(pkg):
        o = getattr(pkg, n)
        if n.startswith('_') or inspect.ismodule(o):
            continue
        if isinstance(o, gc.GaugeTransformer):
            _need(n in KNOWN_TRANSFORMERS, f'gauge_compiling exports the GaugeTransformer {n}, whose gauges the table does not enumerate')
            seen.add(n)
        elif isinstance(o, type):
            _need(n in KNOWN_CLASSES or n in KNOWN_EXCLUDED, f'gauge_compiling exports the class {n}, which the table generator does not classify')
        else:
            raise TableError(f'gauge_compiling exports {n} ({type(o).__name__}), which the table generator does not classify')
    _need(seen == set(KNOWN_TRANSFORMERS), f'gauge_compiling no longer exports {sorted(set(KNOWN_TRANSFORMERS) - seen)}')
    for n in dir(cirq.transformers):          # re-exports of the package at cirq.transformers level
        o = getattr(cirq.transformers, n)
        if isinstance(o, gc.GaugeTransformer):
            _need(n in KNOWN_TRANSFORMERS, f'cirq.transformers exports the GaugeTransformer {n}, not enumerated')
    import cirq_google.transformers as cgt
    gseen = set()
    for modname, mod in (('cirq_google.transformers', cgt), ('cirq_google', cg)):
        for n in dir(mod):
            o = getattr(mod, n)
            if isinstance(o, gc.GaugeTransformer):
                _need(n in KNOWN_GOOGLE_TRANSFORMERS, f'{modname} exports the GaugeTransformer {n}, not enumerated')
                gseen.add(n)
    _need(gseen == set(KNOWN_GOOGLE_TRANSFORMERS), f'cirq_google no longer exports {sorted(set(KNOWN_GOOGLE_TRANSFORMERS) - gseen)}')


def collect(cirq, cg):
    import cirq.transformers.gauge_compiling as pkg
    from cirq.transformers.gauge_compiling import cz_gauge, spin_inversion_gauge
    from cirq_google.transformers import sycamore_gauge
    check_exports(cirq, cg)
    C = Collector(cirq)
    fam_id = itertools.count()

    def rngs():
        base = 100 * next(fam_id)             # a fresh, fixed stream per family: numpy.random.default_rng(base + k)
        return [(k, np.random.default_rng(base + k)) for k in range(N_RANDOM)]

    # -- CZ: 16 constant gauges
    sel = _selector_of('CZGaugeTransformer', pkg.CZGaugeTransformer, KNOWN_TRANSFORMERS['CZGaugeTransformer'], cirq)
    _need(sel is cz_gauge.CZGaugeSelector, 'CZGaugeTransformer does not use CZGaugeSelector')
    _need(cirq.CZ(C.q0, C.q1) in pkg.CZGaugeTransformer.target, 'CZGaugeTransformer no longer targets CZ')
    for i, g in enumerate(sel.gauges):
        C.add(f'CZ[{i}] {_gauge_desc(g)}', cirq.CZ, g.sample(cirq.CZ, None))

    # -- SYC: constant gauges; the gate has an entry exp(-i pi/6), so these are float entries unless recognisable
    syc = cg.SYC
    tr = sycamore_gauge.SYCGaugeTransformer
    sel = _selector_of('SYCGaugeTransformer', tr, KNOWN_GOOGLE_TRANSFORMERS['SYCGaugeTransformer'], cirq)
    _need(sel is sycamore_gauge.SYCGaugeSelector, 'SYCGaugeTransformer does not use SYCGaugeSelector')
    _need(syc(C.q0, C.q1) in tr.target, 'SYCGaugeTransformer no longer targets SYC')
    for i, g in enumerate(sel.gauges):
        C.add(f'SYC[{i}] {_gauge_desc(g)}', syc, g.sample(syc, None), exact=True, also_float=True)

    # -- sqrt CZ: every branch of the prng
    tr = pkg.SqrtCZGaugeTransformer
    sel = _selector_of('SqrtCZGaugeTransformer', tr, KNOWN_TRANSFORMERS['SqrtCZGaugeTransformer'], cirq)
    sq = _by_class(sel, 'SqrtCZGauge', 'SqrtCZGaugeTransformer')
    for gate, gn in ((cirq.CZ ** 0.5, 'CZ^0.5'), (cirq.CZ ** -0.5, 'CZ^-0.5')):
        _need(gate(C.q0, C.q1) in tr.target, f'SqrtCZGaugeTransformer no longer targets {gn}')
        for script, g in enumerate_branches(lambda prng: sq.sample(gate, prng)):
            C.add(f'SqrtCZ {gn} choices={list(script)} {_gauge_desc(g)}', gate, g)
        for k, r in rngs():
            g = sq.sample(gate, r)
            C.add(f'SqrtCZ {gn} rng{k} {_gauge_desc(g)}', gate, g, exact=False)
    _need(not ((cirq.CZ ** 0.25)(C.q0, C.q1) in tr.target), 'SqrtCZGaugeTransformer accepts other exponents than +-0.5')

    # -- cphase: 16 Pauli pairs
    tr = pkg.CPhaseGaugeTransformer
    sel = _selector_of('CPhaseGaugeTransformer', tr, KNOWN_TRANSFORMERS['CPhaseGaugeTransformer'], cirq)
    cp = _by_class(sel, 'CPhasePauliGauge', 'CPhaseGaugeTransformer')
    paulis = [('I', cirq.I), ('X', cirq.X), ('Y', cirq.Y), ('Z', cirq.Z)]
    for t, ex in [(t, True) for t in EXACT_CPHASE_EXPONENTS] + [(t, False) for t in FLOAT_CPHASE_EXPONENTS]:
        gate = cirq.CZ ** t
        _need(gate(C.q0, C.q1) in tr.target, f'CPhaseGaugeTransformer no longer targets CZ^{t}')
        for (n0, p0), (n1, p1) in itertools.product(paulis, repeat=2):
            g = cp._get_constant_gauge(gate, p0, p1)
            C.add(f'CPhase CZ^{t} {n0}{n1} {_gauge_desc(g)}', gate, g, exact=ex)
    for t in FLOAT_CPHASE_EXPONENTS:
        gate = cirq.CZ ** t
        for k, r in rngs():
            g = cp.sample(gate, r)
            C.add(f'CPhase CZ^{t} rng{k} {_gauge_desc(g)}', gate, g, exact=False)

    # -- spin inversion (ZZ^t)
    tr = pkg.SpinInversionGaugeTransformer
    sel = _selector_of('SpinInversionGaugeTransformer', tr, KNOWN_TRANSFORMERS['SpinInversionGaugeTransformer'], cirq)
    _need(sel is spin_inversion_gauge.SpinInversionGaugeSelector, 'SpinInversionGaugeTransformer does not use SpinInversionGaugeSelector')
    for t, ex in [(t, True) for t in EXACT_ZZ_EXPONENTS] + [(t, False) for t in FLOAT_ZZ_EXPONENTS]:
        gate = cirq.ZZ ** t
        _need(gate(C.q0, C.q1) in tr.target, f'SpinInversionGaugeTransformer no longer targets ZZ^{t}')
        for i, sg in enumerate(sel.gauges):
            g = sg.sample(gate, np.random.default_rng(0))
            C.add(f'SpinInversion[{i}] ZZ^{t} {_gauge_desc(g)}', gate, g, exact=ex)

    # -- ISWAP
    tr = pkg.ISWAPGaugeTransformer
    sel = _selector_of('ISWAPGaugeTransformer', tr, KNOWN_TRANSFORMERS['ISWAPGaugeTransformer'], cirq)
    _need(cirq.ISWAP(C.q0, C.q1) in tr.target, 'ISWAPGaugeTransformer no longer targets ISWAP')
    rz, xy = _by_class(sel, 'RZRotation', 'ISWAPGaugeTransformer'), _by_class(sel, 'XYRotation', 'ISWAPGaugeTransformer')
    for k in range(4):
        for sgn in (-1, 1):
            C.add(f'ISWAP rz theta={k}pi/2 sgn={sgn}', cirq.ISWAP, rz._rz(k * math.pi / 2, sgn))
    for a in range(8):
        for b in range(8):
            C.add(f'ISWAP xy a={a}pi/4 b={b}pi/4', cirq.ISWAP, xy._xy_gauge(a * math.pi / 4, b * math.pi / 4))
    for fam, gg in (('rz', rz), ('xy', xy)):
        for k, r in rngs():
            g = gg.sample(cirq.ISWAP, r)
            C.add(f'ISWAP {fam} rng{k} {_gauge_desc(g)}', cirq.ISWAP, g, exact=False)

    # -- SQRT_ISWAP
    tr = pkg.SqrtISWAPGaugeTransformer
    sel = _selector_of('SqrtISWAPGaugeTransformer', tr, KNOWN_TRANSFORMERS['SqrtISWAPGaugeTransformer'], cirq)
    _need(cirq.SQRT_ISWAP(C.q0, C.q1) in tr.target, 'SqrtISWAPGaugeTransformer no longer targets SQRT_ISWAP')
    rz, xy = _by_class(sel, 'RZRotation', 'SqrtISWAPGaugeTransformer'), _by_class(sel, 'XYRotation', 'SqrtISWAPGaugeTransformer')
    for k in range(4):
        C.add(f'SQRT_ISWAP rz theta={k}pi/2', cirq.SQRT_ISWAP, rz._rz(k * math.pi / 2))
    for a in range(8):
        C.add(f'SQRT_ISWAP xy theta={a}pi/4', cirq.SQRT_ISWAP, xy._xy_gauge(a * math.pi / 4))
    for fam, gg in (('rz', rz), ('xy', xy)):
        for k, r in rngs():
            g = gg.sample(cirq.SQRT_ISWAP, r)
            C.add(f'SQRT_ISWAP {fam} rng{k} {_gauge_desc(g)}', cirq.SQRT_ISWAP, g, exact=False)
    return C


def dd_schema_names(fn):
    """The schema names accepted by _get_dd_sequence_from_schema_name, read from its `match` statement."""
    tree = ast.parse(textwrap.dedent(inspect.getsource(fn)))
    matches = [n for n in ast.walk(tree) if isinstance(n, ast.Match)]
    if len(matches) != 1 or not isinstance(matches[0].subject, ast.Name):
        raise TableError('_get_dd_sequence_from_schema_name is no longer a single match statement on the schema name')
    names = []

    def pat(p):
        if isinstance(p, ast.MatchValue) and isinstance(p.value, ast.Constant) and isinstance(p.value.value, str):
            names.append(p.value.value)
        elif isinstance(p, ast.MatchOr):
            for q in p.patterns:
                pat(q)
        elif isinstance(p, ast.MatchAs) and p.pattern is None:
            return 'wild'
        else:
            raise TableError('_get_dd_sequence_from_schema_name: a case pattern is not a string literal')
    for c in matches[0].cases:
        if c.guard is not None:
            raise TableError('_get_dd_sequence_from_schema_name: guarded case')
        if pat(c.pattern) == 'wild':
            if not (len(c.body) == 1 and isinstance(c.body[0], ast.Raise)):
                raise TableError('_get_dd_sequence_from_schema_name: the wildcard case does not raise; accepted names unknown')
    if 'DEFAULT' not in names or len(set(names)) != len(names):
        raise TableError(f'_get_dd_sequence_from_schema_name: unexpected schema names {names}')
    return names


def collect_dd(cirq):
    from cirq.transformers import dynamical_decoupling as dd
    fn = dd._get_dd_sequence_from_schema_name
    rows = []
    for n in dd_schema_names(fn):
        seq = fn(n)
        if not isinstance(seq, tuple) or len(seq) < 2:
            raise TableError(f'dd schema {n}: not a tuple of at least two gates')
        mats = []
        for g in seq:
            u = cirq.unitary(g, None)
            if u is None or u.shape != (2, 2):
                raise TableError(f'dd schema {n}: {g!r} is not a single-qubit unitary')
            mats.append(coq_matrix(u))
        rows.append((f'{n} = ' + ', '.join(_gname(g) for g in seq), mats))
    try:
        fn('__no_such_schema__')
        raise TableError('_get_dd_sequence_from_schema_name accepts an arbitrary schema name')
    except ValueError:
        pass
    return rows


def _indent(s, pad):
    return s.replace('\n', '\n' + pad)


def _entry(ms, pad='     '):
    fields = ['g_target', 'g_pre0', 'g_pre1', 'g_eff', 'g_post0', 'g_post1']
    return '    {| ' + (';\n' + pad + ' ').join(f'{f} := {_indent(m, " " * 6)}' for f, m in zip(fields, ms)) + ' |}'


def _names(name, rows):
    return (f'Definition {name} : list string := [\n' + ';\n'.join(f'  "{n}"' for n, _ in rows) + '\n]%string.')


def render(C, dd_rows):
    for n, _ in C.exact + C.floats + dd_rows:
        if '"' in n or '*' in n or '\n' in n:
            raise TableError(f'entry name {n!r} is not comment-safe')
    out = ['(* GENERATED by vf/tables_c06.py from the working tree: the constant gauges of every gauge-compiling transformer',
           '   (cirq.transformers.gauge_compiling: CZ, sqrt CZ, cphase, spin inversion, ISWAP, sqrt ISWAP; cirq_google: SYC) and',
           '   the built-in dynamical-decoupling base sequences.  An entry holds the matrices',
           '     g_target = G, g_pre0/g_pre1 = products of pre_q0/pre_q1 (later gate on the left), g_eff = the new two-qubit',
           '     gate as placed by ConstantGauge.on (qubit swap already applied), g_post0/g_post1 likewise.',
           '   kcx O A B C D e = ((A + B/sqrt2) + i (C + D/sqrt2)) / 2^e;  float entries are binary64 pairs (re, im).',
           '   Known and excluded (multi-moment transformers without a constant gauge table):']
    out += [f'     {k}: {v}' for k, v in sorted(KNOWN_EXCLUDED.items())]
    out += ['*)',
            'From Coq Require Import List ZArith String PrimFloat.',
            'From VF Require Import Base.RingOps Base.Mat Base.FloatInst.',
            'Import ListNotations.',
            'Local Close Scope float_scope.',
            '',
            'Record gauge_entry {K : Type} := mkGauge {',
            '  g_target : list (list K);   (* 4x4: the gate being replaced *)',
            '  g_pre0 : list (list K); g_pre1 : list (list K);       (* 2x2 *)',
            '  g_eff : list (list K);      (* 4x4: replacement two-qubit gate in (q0,q1) order *)',
            '  g_post0 : list (list K); g_post1 : list (list K) }.   (* 2x2 *)',
            '',
            'Section GaugeTables.',
            '  Context {K : Type} (O : Ops K).',
            '  Definition gauge_exact : list (gauge_entry (K:=K)) := [']
    body = []
    for i, (n, ms) in enumerate(C.exact):
        body.append(f'    (* {i}: {n} *)\n' + _entry(ms))
    out.append(';\n'.join(body) + '].')
    out.append('  Definition dd_sequences : list (list (matrix (K:=K))) := [')
    body = []
    for i, (n, mats) in enumerate(dd_rows):
        body.append(f'    (* {i}: {n} *)\n    [' + ';\n     '.join(_indent(m, ' ' * 0) for m in mats) + ']')
    out.append(';\n'.join(body) + '].')
    out.append('End GaugeTables.')
    out.append('')
    out.append(_names('gauge_exact_names', C.exact))
    out.append(_names('dd_sequence_names', dd_rows))
    out.append('')
    out.append('Local Open Scope float_scope.')
    out.append('Definition gauge_float : list (gauge_entry (K:=FC)) := [')
    body = []
    for i, (n, ms) in enumerate(C.floats):
        body.append(f'    (* {i}: {n} *)\n' + _entry(ms))
    out.append(';\n'.join(body) + '].')
    out.append('Local Close Scope float_scope.')
    out.append(_names('gauge_float_names', C.floats))
    return '\n'.join(out) + '\n'


@table('GaugeTables')
def gauge_tables():
    mods = env.import_cirq(('cirq_google',))
    cirq, cg = mods['cirq'], mods['cirq_google']
    try:
        C = collect(cirq, cg)
        dd_rows = collect_dd(cirq)
    except TableError:
        raise
    except Exception as e:                      # an API change of the gauge classes: fail closed, named
        raise TableError(f'gauge table generation failed: {type(e).__name__}: {e}')
    return render(C, dd_rows)
