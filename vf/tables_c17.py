"""Regenerated IonQ dispatch table (C17): what cirq_ionq's serializer emits, evaluated on the working tree.

For each gate family the serializer dispatches on, at each special exponent (0, +-1/4, +-1/2, +-1, one period away, ...),
at exponents just inside / outside the atol window around every special-cased value, and at generic exponents:
the mnemonic, the `rotation` field as a multiple of pi (exact decimal, units of 1e-10) and where the qubit indices go.
For the native gates: the emitted fields.  Fail-closed: anything unexpected raises TableError."""
import math
from . import env
from .tables import table, TableError

E10 = 10 ** 10
# exponents as integers in units of 1e-10
SPECIAL = [0, E10 // 4, -E10 // 4, E10 // 2, -E10 // 2, E10, -E10, 2 * E10, 3 * E10, 3 * E10 // 2, 5 * E10 // 2, 3 * E10 // 4,
           9 * E10 // 4, -7 * E10 // 4, 7 * E10 // 2, -5 * E10 // 2, 5 * E10, -3 * E10, 4 * E10]
CENTRES = [E10, E10 // 2, -E10 // 2, E10 // 4, -E10 // 4, 3 * E10, -3 * E10 // 2, 9 * E10 // 4]
OFFSETS = [30, -30, 90, -90, 110, -110, 200, -200, 10000, -10000]       # atol = 100 units
GENERIC = [3217000000, -12345678000, 8765432100, 19999000000, 1]
FAMILIES = [('FX', 'XPowGate', 1), ('FY', 'YPowGate', 1), ('FZ', 'ZPowGate', 1), ('FXX', 'XXPowGate', 2), ('FYY', 'YYPowGate', 2),
            ('FZZ', 'ZZPowGate', 2), ('FCNOT', 'CNotPowGate', 2), ('FH', 'HPowGate', 1), ('FSWAP', 'SwapPowGate', 2)]
KNOWN_DISPATCH = {'XPowGate', 'YPowGate', 'ZPowGate', 'XXPowGate', 'YYPowGate', 'ZZPowGate', 'CXPowGate', 'HPowGate', 'SwapPowGate',
                  'MeasurementGate', 'PauliStringPhasorGate', 'GPIGate', 'GPI2Gate', 'MSGate', 'ZZGate'}


def zl(n):
    return f'({n})' if n < 0 else str(n)


def units(x, what):
    y = x * E10
    n = round(y)
    if not math.isfinite(y) or abs(y - n) > 1e-3:
        raise TableError(f'{what} = {x!r} is not a multiple of 1e-10')
    return n


def layout_of(op, qubits, what):
    idx = [q.x for q in qubits]
    keys = set(op) - {'gate', 'rotation', 'phase', 'phases', 'angle'}
    if keys == {'targets'} and list(op['targets']) == idx:
        return 'LTargets'
    if keys == {'control', 'target'} and [op['control'], op['target']] == idx:
        return 'LControlTarget'
    if keys == {'target'} and [op['target']] == idx:
        return 'LTarget'
    raise TableError(f'{what}: unknown wire layout {op} for qubits {idx}')


def emitted(cirq, ser, gate, qubits, what):
    try:
        prog = ser.serialize_single_circuit(cirq.Circuit(gate.on(*qubits)))
    except ValueError:
        return None
    ops = prog.input['circuit']
    if len(ops) != 1 or not isinstance(ops[0].get('gate'), str):
        raise TableError(f'{what}: expected one op, got {ops}')
    return ops[0]


@table('IonqDispatch')
def ionq_dispatch():
    mods = env.import_cirq(('cirq_ionq',))
    cirq, ci = mods['cirq'], mods['cirq_ionq']
    ser = ci.Serializer()
    disp = {t.__name__ for t in ser._dispatch}
    if disp != KNOWN_DISPATCH:
        raise TableError(f'serializer dispatch table changed: {sorted(disp ^ KNOWN_DISPATCH)}')
    q = [cirq.LineQubit(3), cirq.LineQubit(1)]
    rows = []
    for fam, cls, nq in FAMILIES:
        exps = sorted(set(SPECIAL + [c + o for c in CENTRES for o in OFFSETS] + GENERIC))
        for n in exps:
            e = n / E10
            op = emitted(cirq, ser, getattr(cirq, cls)(exponent=e), q[:nq], f'{cls}**{e}')
            if op is None:
                rows.append(f'  ({fam}, {zl(n)}, None)')
                continue
            extra = set(op) - {'gate', 'targets', 'target', 'control', 'rotation'}
            if extra or any(c in op['gate'] for c in '"\\') or not op['gate'].isascii():
                raise TableError(f'{cls}**{e}: unexpected fields {op}')
            rot = 'None'
            if 'rotation' in op:
                rot = f'(Some {zl(units(float(op["rotation"]) / math.pi, f"{cls}**{e}: rotation/pi"))})'
            rows.append(f'  ({fam}, {zl(n)}, Some ("{op["gate"]}", {rot}, {layout_of(op, q[:nq], cls)}))')
    nrows = []
    natives = [('NGPI', lambda p: ci.GPIGate(phi=p[0]), 1, [[0], [1250000000], [-3333000000], [E10]]),
               ('NGPI2', lambda p: ci.GPI2Gate(phi=p[0]), 1, [[0], [2500000000], [-1111000000]]),
               ('NMS', lambda p: ci.MSGate(phi0=p[0], phi1=p[1], theta=p[2]), 2,
                [[0, 0, 2500000000], [1000000000, -2000000000, 1250000000], [7000000000, 3000000000, 500000000]]),
               ('NZZ', lambda p: ci.ZZGate(theta=p[0]), 2, [[0], [2500000000], [-1250000000], [3000000000]])]
    for fam, mk, nq, plist in natives:
        for ps in plist:
            op = emitted(cirq, ser, mk([x / E10 for x in ps]), q[:nq], f'{fam}{ps}')
            if op is None:
                raise TableError(f'{fam}{ps}: native gate rejected')
            fields = []
            for k, v in op.items():
                if k in ('gate', 'targets', 'target', 'control'):
                    continue
                if isinstance(v, (list, tuple)):
                    fields += [(f'{k}.{i}', units(float(x), f'{fam}.{k}')) for i, x in enumerate(v)]
                else:
                    fields.append((k, units(float(v), f'{fam}.{k}')))
            ftxt = '; '.join(f'("{k}", {zl(v)})' for k, v in fields)
            nrows.append(f'  ({fam}, [{"; ".join(zl(x) for x in ps)}], ("{op["gate"]}", {layout_of(op, q[:nq], fam)}, [{ftxt}]))')
    out = ['(* GENERATED by vf/tables_c17.py from the working tree: what cirq_ionq.Serializer emits.',
           '   dispatch row: (family, exponent in units of 1e-10, None = ValueError | Some (mnemonic, rotation/pi in 1e-10 units, layout)). *)',
           'From Coq Require Import String List ZArith.', 'From VF Require Import Vendor.IonQ.', 'Import ListNotations.',
           'Local Open Scope string_scope.', 'Local Open Scope Z_scope.',
           f'Definition ionq_serializer_atol : Z := {zl(units(float(ser.atol), "Serializer().atol"))}.',
           'Definition ionq_dispatch_rows : list dispatch_row := [\n' + ';\n'.join(rows) + '].',
           'Definition ionq_native_rows : list native_row := [\n' + ';\n'.join(nrows) + '].']
    return '\n'.join(out) + '\n'
