"""Environment contract (DESIGN A.1): the working tree under VERIF_REPO must be what `import cirq` gives."""
import os, sys

VERIF = os.path.dirname(os.path.dirname(os.path.abspath(__file__)))
REPO = os.environ.get('VERIF_REPO', '/repo')
BUILD = os.path.join(VERIF, 'build')
PKGS = ['cirq-core', 'cirq-google', 'cirq-ionq', 'cirq-aqt', 'cirq-pasqal']


def harness_error(msg):
    print(f'HARNESS-ERROR: {msg}', flush=True)
    sys.exit(2)


def import_cirq(vendors=()):
    """Import cirq (and the named vendor packages) from the working tree, fail closed."""
    import importlib
    for p in reversed(PKGS):
        d = os.path.join(REPO, p)
        if d not in sys.path:
            sys.path.insert(0, d)
    mods = {}
    for name in ('cirq',) + tuple(vendors):
        m = importlib.import_module(name)
        f = os.path.realpath(m.__file__)
        if not f.startswith(os.path.realpath(REPO) + os.sep):
            harness_error(f'{name} imported from {f}, not from {REPO}')
        mods[name] = m
    return mods['cirq'] if not vendors else mods
