"""Regenerated table for C19: what every `_qasm_` rule emits on the working tree (coq/Generated/QasmMnemonics.v).

For each key of Vendor/QasmEmit.v `all_keys` (version, gate family, global-shift class, exponent class) the gate is built,
`cirq.qasm(gate, args=..., qubits=...)` is called and the emitted statements are read: mnemonic, qubit argument positions
and every angle as an affine form  pi*(sum_i c_i p_i + b/4)  of the family's parameters (integer c_i by finite differences
over several generic parameter points, checked on a further point; b in quarter turns).  Fail closed: anything that is
not `name(angle, ...) q[i], ...;` with angles `pi*<number>` or `0`, a non-integer coefficient, or a rule that emits
different mnemonics at two generic points aborts the generation."""
import math, re
import numpy as np
from . import env
from .tables import table, TableError

SPEC1 = [4, 2, -2, 1, -1, 0, -4, 8, 6, 12]
SPEC2 = [4, -4, 12, 2, 8, 0]
SPEC3 = [4, -4, 2]
SHIFT = {'S0': 0.0, 'SMhalf': -0.5, 'SOther': 0.25}
MNEM = {'x': 'Mx', 'y': 'My', 'z': 'Mz', 'h': 'Mh', 's': 'Ms', 'sdg': 'Msdg', 't': 'Mt', 'tdg': 'Mtdg', 'sx': 'Msx', 'sxdg': 'Msxdg',
        'rx': 'Mrx', 'ry': 'Mry', 'rz': 'Mrz', 'id': 'Mid', 'cx': 'Mcx', 'cy': 'Mcy', 'cz': 'Mcz', 'ch': 'Mch', 'swap': 'Mswap',
        'ccx': 'Mccx', 'cswap': 'Mcswap', 'u3': 'Mu3', 'u2': 'Mu2'}
STMT = re.compile(r'\s*([a-z][a-z0-9]*)\s*(?:\(([^()]*)\))?\s+(q\[\d+\](?:\s*,\s*q\[\d+\])*)\s*;\s*\Z')
ANGLE = re.compile(r'\s*(?:pi\*(-?\d+(?:\.\d*)?(?:[eE][+-]?\d+)?)|(0))\s*\Z')


def keys(v3):
    out = []
    for f in ['FX', 'FY', 'FZ', 'FH']:
        for s in ['S0', 'SMhalf', 'SOther']:
            out += [(v3, f, s, e) for e in SPEC1 + ['EGen']]
    for f in ['FRx', 'FRy', 'FRz']:
        out += [(v3, f, 'SMhalf', e) for e in [4, 0, 'EGen']]
    for f in ['FCZ', 'FCX', 'FCY', 'FSwap']:
        for s in ['S0', 'SOther']:
            out += [(v3, f, s, e) for e in SPEC2 + ['EGen']]
    for f in ['FCCZ', 'FCCX', 'FCCY']:
        for s in ['S0', 'SOther']:
            out += [(v3, f, s, e) for e in SPEC3 + ['EGen']]
    out += [(v3, 'FCSwap', 'S0', 4), (v3, 'FId1', 'S0', 4), (v3, 'FId2', 'S0', 4)]
    out += [(v3, 'FPhasedX', 'S0', e) for e in [2, -2, 4, 0, 'EGen']]
    out += [(v3, 'FPhasedXZ', 'S0', 'EGen'), (v3, 'FQasmU', 'S0', 'EGen')]
    for f in ['FCtrlX', 'FCtrlY', 'FCtrlZ', 'FCtrlH']:
        out += [(v3, f, 'S0', 4), (v3, f, 'S0', 2), (v3, f, 'SOther', 4), (v3, f, 'S0', 'EGen')]
    return out


# generic parameter points: a base point and one displaced point per parameter, plus a check point.  The ranges avoid the
# wrap-around of QasmUGate's `% 2` and of canonicalize_half_turns, so that the emitted angle is affine on them.
GENERIC = {
    1: ([0.3125], [[0.4375]], [0.859375]),
    2: ([0.3125, 0.21875], [[0.4375, 0.21875], [0.3125, 0.34375]], [-0.640625, 0.109375]),
    3: ([0.3125, 0.71875, 0.09375], [[0.4375, 0.71875, 0.09375], [0.3125, 0.84375, 0.09375], [0.3125, 0.71875, 0.21875]], [1.15625, 0.921875, 0.140625]),
}
NPARAMS = {'FPhasedX': 2, 'FPhasedXZ': 3, 'FQasmU': 3}


def build(cirq, fam, shift, params):
    """(object to hand to cirq.qasm, its qubits)"""
    from cirq.circuits.qasm_output import QasmUGate
    q = cirq.LineQubit.range(3)
    e = params[0]
    eig = {'FX': cirq.XPowGate, 'FY': cirq.YPowGate, 'FZ': cirq.ZPowGate, 'FH': cirq.HPowGate, 'FCZ': cirq.CZPowGate, 'FCX': cirq.CXPowGate,
           'FCY': cirq.CYPowGate, 'FSwap': cirq.SwapPowGate, 'FCCZ': cirq.CCZPowGate, 'FCCX': cirq.CCXPowGate, 'FCCY': cirq.CCYPowGate}
    if fam in eig:
        g = eig[fam](exponent=e, global_shift=shift)
        return g, q[:cirq.num_qubits(g)]
    if fam in ('FRx', 'FRy', 'FRz'):
        g = {'FRx': cirq.rx, 'FRy': cirq.ry, 'FRz': cirq.rz}[fam](math.pi * e)
        return g, q[:1]
    if fam == 'FCSwap':
        return cirq.CSwapGate(), q[:3]
    if fam == 'FId1':
        return cirq.IdentityGate(1), q[:1]
    if fam == 'FId2':
        return cirq.IdentityGate(2), q[:2]
    if fam == 'FPhasedX':
        return cirq.PhasedXPowGate(exponent=e, phase_exponent=params[1]), q[:1]
    if fam == 'FPhasedXZ':
        return cirq.PhasedXZGate(x_exponent=params[0], z_exponent=params[1], axis_phase_exponent=params[2]), q[:1]
    if fam == 'FQasmU':
        return QasmUGate(params[0], params[1], params[2]), q[:1]
    if fam.startswith('FCtrl'):
        sub = {'X': cirq.XPowGate, 'Y': cirq.YPowGate, 'Z': cirq.ZPowGate, 'H': cirq.HPowGate}[fam[-1]](exponent=e, global_shift=shift)
        return sub.on(q[1]).controlled_by(q[0]), q[:2]
    raise TableError(f'unknown family {fam}')


def emitted(cirq, v3, fam, shift, params):
    """None (no QASM form) or a list of (mnemonic, [angles in units of pi], [argument positions])."""
    obj, qs = build(cirq, fam, shift, params)
    args = cirq.QasmArgs(precision=12, version='3.0' if v3 else '2.0', qubit_id_map={q: f'q[{i}]' for i, q in enumerate(qs)})
    if isinstance(obj, cirq.Operation):
        text = cirq.qasm(obj, args=args, default=None)
    else:
        text = cirq.qasm(obj, args=args, qubits=tuple(qs), default=None)
    if text is None:
        return None
    rows = []
    for line in text.split('\n'):
        line = line.split('//')[0]
        if not line.strip():
            continue
        m = STMT.match(line)
        if not m:
            raise TableError(f'{fam} {params}: cannot read emitted statement {line!r}')
        name, par, qargs = m.groups()
        if name not in MNEM:
            raise TableError(f'{fam} {params}: unknown mnemonic {name!r}')
        angles = []
        for a in (par.split(',') if par is not None and par.strip() else []):
            am = ANGLE.match(a)
            if not am:
                raise TableError(f'{fam} {params}: cannot read angle {a!r} in {line!r}')
            angles.append(float(am.group(1)) if am.group(1) is not None else 0.0)
        rows.append((MNEM[name], angles, [int(x) for x in re.findall(r'q\[(\d+)\]', qargs)]))
    return rows


def near_int(x, what):
    r = round(x)
    if abs(x - r) > 1e-9:
        raise TableError(f'{what}: {x!r} is not an integer')
    return int(r)


def affine_rows(cirq, v3, fam, shift, e):
    """Rows with angles as (coefficients, quarter-turn constant)."""
    npar = NPARAMS.get(fam, 1)
    if e != 'EGen':
        # the exponent is fixed; the remaining parameters (if any) are generic
        if npar == 1:
            pts = [[e / 4.0]]
            free = []
        else:
            base, disp, chk = GENERIC[npar]
            free = list(range(1, npar))
            pts = [[e / 4.0] + base[1:]] + [[e / 4.0] + d[1:] for d in disp[1:]] + [[e / 4.0] + chk[1:]]
    else:
        base, disp, chk = GENERIC[npar]
        free = list(range(npar))
        pts = [base] + disp + [chk]
    outs = [emitted(cirq, v3, fam, shift, p) for p in pts]
    if any((o is None) != (outs[0] is None) for o in outs):
        raise TableError(f'{fam} {shift} {e}: has a QASM form at some generic points only')
    if outs[0] is None:
        return None
    shape = [(m, len(a), q) for m, a, q in outs[0]]
    if any([(m, len(a), q) for m, a, q in o] != shape for o in outs):
        raise TableError(f'{fam} {shift} {e}: the emitted mnemonics depend on the generic point')
    rows = []
    for ri, (m, angles, qargs) in enumerate(outs[0]):
        forms = []
        for ai, x0 in enumerate(angles):
            coeffs = [0] * npar
            for k, fi in enumerate(free):
                x1 = outs[1 + k][ri][1][ai]
                dp = pts[1 + k][fi] - pts[0][fi]
                coeffs[fi] = near_int((x1 - x0) / dp, f'{fam} {m} angle {ai} coefficient of parameter {fi}')
            const = x0 - sum(c * p for c, p in zip(coeffs, pts[0]))
            b = near_int(const * 4, f'{fam} {m} angle {ai} constant (quarter turns)')
            # check point
            xc = outs[-1][ri][1][ai]
            pred = sum(c * p for c, p in zip(coeffs, pts[-1])) + b / 4.0
            if abs(xc - pred) > 1e-9 and len(pts) > 1:
                raise TableError(f'{fam} {m} angle {ai}: not affine in the parameters ({xc} vs {pred})')
            forms.append((coeffs if any(coeffs) else [], b))      # a constant angle has the empty coefficient list
        rows.append((m, forms, qargs))
    return rows


def zl(n):
    return f'({n})' if n < 0 else str(n)


def coq_rows(rows):
    if rows is None:
        return 'None'
    items = []
    for m, forms, qargs in rows:
        fs = '; '.join('af [' + '; '.join(zl(c) for c in cs) + ']%Z ' + zl(b) for cs, b in forms)
        items.append(f'({m}, [{fs}], [' + '; '.join(str(q) for q in qargs) + '])')
    return 'Some [' + '; '.join(items) + ']'


@table('QasmMnemonics')
def qasm_mnemonics():
    cirq = env.import_cirq()
    lines = []
    for v3 in (False, True):
        for (v, fam, s, e) in keys(v3):
            rows = affine_rows(cirq, v3, fam, SHIFT[s], e)
            ek = 'EGen' if e == 'EGen' else f'ESpec {zl(e)}'
            lines.append(f'  (({"true" if v3 else "false"}, {fam}, {s}, {ek}), {coq_rows(rows)})')
    return ('(* GENERATED by vf/tables_c19.py from the working tree: what each `_qasm_` rule emits. Do not edit. *)\n'
            'From Coq Require Import List ZArith.\nFrom VF Require Import Vendor.QasmEmit.\nImport ListNotations.\n\n'
            'Definition qasm_table : list (tkey * option (list srow)) := [\n' + ';\n'.join(lines) + '\n].\n')
