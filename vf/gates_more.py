"""Gate vocabulary of the second batch of C03 families (used by vf/checks/c03.py only; vf/gates.py is shared and unchanged).

Every generator returns *rows*: dict(stream, key, nontrivial, sample, what, checks=[(tag, gallina_bool_expr)], ...).
A boolean expression evaluates the MODEL of coq/Gates/MoreSpecs.v with the float instance on the same parameters that
were handed to Cirq and compares it with the literal matrix / Kraus list / mixture Cirq reported."""
import itertools, math
import numpy as np
from . import gates
from .gates import fl, fc, fmat, fvec, unit, nlist

TOL = '0x1p-30'    # ~ 9.3e-10

HEADER = (gates.COQ_HEADER + 'From VF Require Import Gates.GateSpecs Gates.Channels Gates.MoreSpecs.\n' + '''
Definition R (x : float) : FC := (x, 0).
Fixpoint fclll_close (tol : float) (a b : list (list (list FC))) : bool :=
  match a, b with
  | [], [] => true
  | x :: a', y :: b' => fcll_close tol x y && fclll_close tol a' b'
  | _, _ => false
  end.
Fixpoint mix_close (tol : float) (a b : list (FC * list (list FC))) : bool :=
  match a, b with
  | [], [] => true
  | x :: a', y :: b' => fc_close tol (fst x) (fst y) && fcll_close tol (snd x) (snd y) && mix_close tol a' b'
  | _, _ => false
  end.
Definition opt_close (tol : float) (m : option (list (list FC))) (lit : list (list FC)) : bool :=
  match m with Some x => fcll_close tol x lit | None => false end.
Definition is_none {A} (m : option A) : bool := match m with None => true | Some _ => false end.
Definition img_eqb (a b : nat * bool) : bool := Nat.eqb (fst a) (fst b) && Bool.eqb (snd a) (snd b).
''')

SPECIAL_ANGLES = [0.0, math.pi, math.pi / 2, -math.pi / 2, -math.pi, math.pi / 4, 2 * math.pi, 3 * math.pi, 7.5, -9.25, 1e-3]


def nat(n):
    return f'{int(n)}%nat'


def zl(n):
    return f'({int(n)})%Z'


def klist(ms):
    return '[' + '; '.join(fmat(m) for m in ms) + ']'


def draw_angle(rng):
    return rng.choice(SPECIAL_ANGLES) if rng.random() < 0.5 else round(rng.uniform(-7, 7), 4)


def row(stream, key, u, checks, what, sample=None, nontrivial=None, **extra):
    if nontrivial is None:
        u = np.asarray(u)
        nontrivial = not (u.ndim == 2 and u.shape[0] == u.shape[1] and np.allclose(u, np.eye(len(u))))
    d = dict(stream=stream, key=key, nontrivial=bool(nontrivial), checks=checks, what=what,
             sample=sample if sample is not None else dict(family=stream, params=key))
    d.update(extra)
    return d


# ------------------------------------------------------------------------------------------------ diagonal gates
def diagonal_rows(cirq, rng, per):
    rows = []
    cases = []
    # fixed-size classes with every special angle on every position, then generic draws; DiagonalGate of every length 1..16
    for cls, n in (('TwoQubitDiagonalGate', 2), ('ThreeQubitDiagonalGate', 3)):
        for a in SPECIAL_ANGLES:
            ang = [draw_angle(rng) for _ in range(2 ** n)]
            ang[rng.randrange(2 ** n)] = a
            cases.append((cls, n, ang))
        cases.append((cls, n, [0.0] * 2 ** n))
        cases.append((cls, n, [a for a, _ in zip(itertools.cycle(SPECIAL_ANGLES), range(2 ** n))]))
        for _ in range(per):
            cases.append((cls, n, [draw_angle(rng) for _ in range(2 ** n)]))
    for n in (0, 1, 2, 3, 4):
        for _ in range(max(2, per // 3)):
            cases.append(('DiagonalGate', n, [draw_angle(rng) for _ in range(2 ** n)]))
    for cls, n, ang in cases:
        g = getattr(cirq, cls)(ang)
        u = np.asarray(cirq.unitary(g))
        shape = tuple(cirq.qid_shape(g))
        model = '(spec_Diagonal FOps [' + '; '.join(fc(unit(a)) for a in ang) + '])'
        checks = [('matrix', f'fcll_close {TOL} {model} {fmat(u)}'),
                  ('shape', 'true' if shape == (2,) * n else 'false')]
        rows.append(row('more:' + cls, [cls, ang], u, checks, f'cirq.unitary({cls}({ang})) is not diag(e^(i x_k))'))
    return rows


# ------------------------------------------------------------------------------------------------ BooleanHamiltonianGate
def draw_bexp(rng, n, depth):
    if depth == 0 or rng.random() < 0.25:
        return ('v', rng.randrange(n))
    k = rng.choice(['~', '&', '|', '^', '&', '^'])
    if k == '~':
        return ('~', draw_bexp(rng, n, depth - 1))
    return (k, draw_bexp(rng, n, depth - 1), draw_bexp(rng, n, depth - 1))


def bexp_str(e, names):
    if e[0] == 'v':
        return names[e[1]]
    if e[0] == '~':
        return '~(' + bexp_str(e[1], names) + ')'
    return '(' + bexp_str(e[1], names) + ' ' + e[0] + ' ' + bexp_str(e[2], names) + ')'


def bexp_eval(e, bits):
    if e[0] == 'v':
        return bool(bits[e[1]])
    if e[0] == '~':
        return not bexp_eval(e[1], bits)
    a, b = bexp_eval(e[1], bits), bexp_eval(e[2], bits)
    return (a and b) if e[0] == '&' else (a or b) if e[0] == '|' else (a != b)


def bexp_constant(e, n):
    return len({bexp_eval(e, bits) for bits in itertools.product([0, 1], repeat=n)}) == 1


def bexp_coq(e):
    if e[0] == 'v':
        return f'(BVar {nat(e[1])})'
    if e[0] == '~':
        return f'(BNot {bexp_coq(e[1])})'
    return '(' + {'&': 'BAnd', '|': 'BOr', '^': 'BXor'}[e[0]] + f' {bexp_coq(e[1])} {bexp_coq(e[2])})'


def boolham_rows(cirq, rng, per):
    rows = []
    thetas = list(SPECIAL_ANGLES) + [draw_angle(rng) for _ in range(per)]
    for t in thetas:
        n = rng.choice([1, 2, 2, 3, 3, 4])
        names = [f'x{i}' for i in range(n)]
        if rng.random() < 0.4:     # names whose sorted order differs from the qubit order
            names = rng.sample(['q', 'a', 'm', 'zz', 'b1', 'b0', 'k'], n)
        es = [draw_bexp(rng, n, rng.choice([0, 1, 2, 2, 3])) for _ in range(rng.choice([1, 1, 2, 3]))]
        strs = [bexp_str(e, names) for e in es]
        g = cirq.BooleanHamiltonianGate(names, strs, t)
        try:
            u = np.asarray(cirq.unitary(g))
        except ValueError as ex:
            # PauliSum.from_boolean_expression refuses expressions that sympy folds to a constant (x ^ x, x & ~x): an explicit
            # refusal, not a wrong matrix; anything else propagates
            if 'Unsupported type' in str(ex) and any(bexp_constant(e, n) for e in es):
                continue
            raise
        coq_es = '[' + '; '.join(bexp_coq(e) for e in es) + ']'
        # both docstrings (after the repair of /repo): sum_x e^{-i t/2 sum_k f_k(x)} |x><x| up to a global phase
        conv = f'(spec_BoolHam FOps {nat(n)} {coq_es} {fc(unit(-t / 2))})'
        checks = [('conv', f'fcll_close_phase {TOL} {fmat(u)} {conv}'),
                  ('shape', 'true' if tuple(cirq.qid_shape(g)) == (2,) * n else 'false')]
        rows.append(row('more:BooleanHamiltonian', [names, strs, t], u, checks,
                        f'cirq.unitary(BooleanHamiltonianGate({names}, {strs}, {t}))', kind='boolham'))
    return rows


# ------------------------------------------------------------------------------------------------ ParallelGate, WaitGate
PAR_SUB = ['XPow', 'YPow', 'ZPow', 'HPow', 'PhasedX', 'PhasedXZ', 'Rx', 'Ry', 'Rz', 'Matrix1', 'Matrix3', 'Z4Pow', 'X4Pow', 'GPI2']


def parallel_rows(cirq, mods, rng, per):
    rows = []
    for i in range(len(PAR_SUB) + per):
        fam = PAR_SUB[i] if i < len(PAR_SUB) else rng.choice(PAR_SUB)
        if fam == 'Matrix1':
            sub = gates.G('Matrix', dict(m=gates.random_unitary(rng, 2)), (2,))
        elif fam == 'Matrix3':
            sub = gates.G('Matrix', dict(m=gates.random_unitary(rng, 3)), (3,))
        else:
            sub = gates.draw(rng, fam)
        d = sub.shape[0]
        n = rng.choice([1, 2, 2, 3] if d == 2 else [1, 2] if d == 3 else [1, 2])
        g = cirq.ParallelGate(sub.cirq_gate(cirq, mods), n)
        u = np.asarray(cirq.unitary(g))
        model = f'(spec_Parallel FOps {nat(n)} (gate_spec FOps {sub.coq()}))'
        checks = [('matrix', f'fcll_close {TOL} {model} {fmat(u)}'),
                  ('shape', 'true' if tuple(cirq.qid_shape(g)) == (d,) * n else 'false')]
        rows.append(row('more:ParallelGate', ['Parallel', n] + sub.key(), u, checks,
                        f'cirq.unitary(ParallelGate({sub.fam} {sub.key()[1]}, {n})) is not the {n}-fold tensor power of the sub gate',
                        kind='parallel', dim=d, got_shape=tuple(cirq.qid_shape(g))))
    return rows


def wait_rows(cirq, mods, rng, per):
    rows = []
    cg = mods['cirq_google']
    shapes = [(2,), (2, 2), (3,), (2, 3), (2, 2, 2), (4, 2)]
    for i in range(len(shapes) + max(2, per // 4)):
        shape = shapes[i] if i < len(shapes) else rng.choice(shapes)
        which = rng.choice(['core', 'core', 'google'])
        if which == 'core':
            g = cirq.WaitGate(cirq.Duration(nanos=rng.choice([0, 1, 25, 1000])), qid_shape=shape)
        else:
            import tunits
            g = cg.WaitGateWithUnit(rng.choice([0.0, 5.0, 12.5]) * tunits.ns, qid_shape=shape)
        u = np.asarray(cirq.unitary(g))
        checks = [('matrix', f'fcll_close {TOL} (spec_Wait FOps {nlist(shape)}) {fmat(u)}'),
                  ('shape', 'true' if tuple(cirq.qid_shape(g)) == tuple(shape) else 'false')]
        rows.append(row('more:WaitGate', ['Wait', which, list(shape)], u, checks, f'cirq.unitary({which} WaitGate on {shape}) is not the identity',
                        nontrivial=True))
    return rows


# ------------------------------------------------------------------------------------------------ ArithmeticGate
def arith_classes(cirq):
    class Base(cirq.ArithmeticGate):
        def __init__(self, *regs, **kw):
            self._regs = tuple(r if isinstance(r, int) else tuple(r) for r in regs)
            self._kw = kw

        def registers(self):
            return self._regs

        def with_registers(self, *new):
            return type(self)(*new, **self._kw)

    class Add(Base):
        def apply(self, *v):
            return v[0] + v[1]

    class Sub(Base):
        def apply(self, *v):
            return v[0] - v[1]

    class AddFull(Base):
        def apply(self, *v):
            return v[0] + v[1], v[1]

    class Swap(Base):
        def apply(self, *v):
            return v[1], v[0]

    class Not(Base):
        def apply(self, *v):
            return -v[0] - 1

    class MulMod(Base):
        def apply(self, *v):
            k, n = self._kw['k'], self._kw['n']
            return (v[0] * k) % n if v[0] < n else v[0]

    class Mac(Base):
        def apply(self, *v):
            return v[0] + v[1] * v[2], v[1]

    class BumpSecond(Base):
        def apply(self, *v):
            return v[0], v[1] + 1

    return dict(OpAdd=Add, OpSub=Sub, OpAddFull=AddFull, OpSwap=Swap, OpNot=Not, OpMulMod=MulMod, OpMac=Mac, OpBumpSecond=BumpSecond)


QREGS = [[2], [2, 2], [3], [2, 3], [4], [3, 2], [2, 2, 2], [5], [2, 2, 2, 2]]


def reg_size(r):
    return int(np.prod(r)) if not isinstance(r, int) else 1


def draw_arith(rng, op):
    q = lambda small=False: list(rng.choice(QREGS[:4] if small else QREGS))
    c = lambda: rng.choice([0, 1, 1, 2, 3, 5, 7, -1, -3, 8])
    kw = {}
    if op in ('OpAdd', 'OpSub', 'OpAddFull'):
        regs = [q(), c() if rng.random() < 0.5 else q(small=True)]
        if op != 'OpAddFull' and rng.random() < 0.3:
            regs.append(c() if rng.random() < 0.5 else [2])         # an untouched trailing register (padding)
    elif op == 'OpSwap':
        a = q(small=True)
        b = rng.choice([r for r in QREGS if reg_size(r) == reg_size(a)])
        regs = [a, list(b)]
    elif op == 'OpNot':
        regs = [q()] + ([c()] if rng.random() < 0.3 else [])
    elif op == 'OpMulMod':
        t = q()
        n = rng.randint(2, reg_size(t))
        k = rng.choice([x for x in range(1, 3 * n) if math.gcd(x, n) == 1])
        kw = dict(k=k, n=n)
        regs = [t] + ([c()] if rng.random() < 0.3 else [])
    elif op == 'OpMac':
        regs = [q(small=True), c() if rng.random() < 0.6 else [2], c() if rng.random() < 0.6 else [2]]
    else:   # OpBumpSecond
        regs = [q(small=True), c() if rng.random() < 0.6 else q(small=True)]
    return regs, kw


def arith_rows(cirq, rng, per):
    cls = arith_classes(cirq)
    rows = []
    plan = [('OpAdd', [[2, 2], 1], {})]                 # the docstring example comes first
    for op in cls:
        for _ in range(max(3, per // 3)):
            regs, kw = draw_arith(rng, op)
            if np.prod([reg_size(r) for r in regs]) <= 64:
                plan.append((op, regs, kw))
    for op, regs, kw in plan:
        g = cls[op](*regs, **kw)
        coq_regs = '[' + '; '.join(f'(RConst {zl(r)})' if isinstance(r, int) else f'(RQu {nlist(r)})' for r in regs) + ']'
        coq_op = f'(OpMulMod {zl(kw["k"])} {zl(kw["n"])})' if op == 'OpMulMod' else op
        model = f'(spec_Arith FOps {coq_regs} (aop_apply {coq_op}))'
        shape = tuple(d for r in regs if not isinstance(r, int) for d in r)
        try:
            u = np.asarray(cirq.unitary(g))
            checks = [('matrix', f'opt_close {TOL} {model} {fmat(u)}'),
                      ('shape', 'true' if tuple(cirq.qid_shape(g)) == shape else 'false')]
            got = 'matrix'
        except ValueError:
            u = np.zeros((1, 1))
            checks = [('error', f'is_none {model}')]
            got = 'ValueError'
        rows.append(row('more:ArithmeticGate', [op, regs, kw], u, checks,
                        f'ArithmeticGate subclass {op}{kw or ""} on registers {regs}: cirq.unitary ({got}) is not the permutation x -> apply(x)',
                        nontrivial=True))
    return rows


# ------------------------------------------------------------------------------------------------ Cliffords
CLIFF_NAMED = dict(I=0, X=1, Y=2, Z=3, H=10, S=6, X_sqrt=4, X_nsqrt=7, Y_sqrt=5, Y_nsqrt=8, Z_sqrt=6, Z_nsqrt=9)
CLIFF_EIG = dict(I=('XPow', 0.0), X=('XPow', 1.0), Y=('YPow', 1.0), Z=('ZPow', 1.0), H=('HPow', 1.0), S=('ZPow', 0.5),
                 X_sqrt=('XPow', 0.5), X_nsqrt=('XPow', -0.5), Y_sqrt=('YPow', 0.5), Y_nsqrt=('YPow', -0.5),
                 Z_sqrt=('ZPow', 0.5), Z_nsqrt=('ZPow', -0.5))


def clifford_rows(cirq, rng):
    rows = []
    allc = cirq.SingleQubitCliffordGate.all_single_qubit_cliffords
    ax = {cirq.X: 0, cirq.Y: 1, cirq.Z: 2}
    img = lambda t: f'({nat(ax[t[0]])}, {"true" if t[1] else "false"})'
    dflt = '((0%nat, false), (0%nat, false))'
    checks = [('count', 'true' if len(allc) == 24 else 'false')]
    rows.append(row('more:Clifford', ['count'], np.eye(1), checks, f'all_single_qubit_cliffords has {len(allc)} entries, documented 24', nontrivial=True))
    for k, c in enumerate(allc[:24]):
        u = np.asarray(cirq.unitary(c))
        x_to, z_to = c.pauli_tuple(cirq.X), c.pauli_tuple(cirq.Z)
        lit = fmat(u)
        checks = [('images', f'img_eqb {img(x_to)} (fst (nth {nat(k)} cliff_images {dflt})) && img_eqb {img(z_to)} (snd (nth {nat(k)} cliff_images {dflt}))'),
                  ('unitary', f'fcll_close_phase {TOL} {lit} (cliff_unitary FOps {nat(k)})'),
                  ('conj_x', f'fcll_close {TOL} (conj_by FOps {lit} (pauli_mat FOps 0%nat)) (signed_pauli FOps (fst (nth {nat(k)} cliff_images {dflt})))'),
                  ('conj_z', f'fcll_close {TOL} (conj_by FOps {lit} (pauli_mat FOps 2%nat)) (signed_pauli FOps (snd (nth {nat(k)} cliff_images {dflt})))')]
        # the same gate built through the public constructor
        c2 = cirq.SingleQubitCliffordGate.from_xz_map(x_to, z_to)
        checks.append(('from_xz_map', f'fcll_close {TOL} {fmat(np.asarray(cirq.unitary(c2)))} {lit}'))
        rows.append(row('more:Clifford', ['clifford', k], u, checks,
                        f'all_single_qubit_cliffords[{k}] (X->{x_to}, Z->{z_to}): unitary does not conjugate X, Z to the stated images'))
    for name, k in CLIFF_NAMED.items():
        c = getattr(cirq.CliffordGate, name)
        fam, e = CLIFF_EIG[name]
        u = np.asarray(cirq.unitary(c))
        g = gates.G(fam, dict(e=e, s=0.0), (2,))
        checks = [('index', 'true' if c == allc[k] else 'false'),
                  ('matrix', f'fcll_close_phase {TOL} {fmat(u)} (gate_spec FOps {g.coq()})')]
        rows.append(row('more:named', ['CliffordGate.' + name], u, checks,
                        f'CliffordGate.{name} is not all_single_qubit_cliffords[{k}] / not {fam}**{e} up to global phase', nontrivial=True))
    for name, fam in (('CNOT', 'CXPow'), ('CZ', 'CZPow'), ('SWAP', 'SwapPow')):
        u = np.asarray(cirq.unitary(getattr(cirq.CliffordGate, name)))
        g = gates.G(fam, dict(e=1.0, s=0.0), (2, 2))
        rows.append(row('more:named', ['CliffordGate.' + name], u, [('matrix', f'fcll_close_phase {TOL} {fmat(u)} (gate_spec FOps {g.coq()})')],
                        f'CliffordGate.{name} is not {fam} up to global phase'))
    return rows


# ------------------------------------------------------------------------------------------------ DensePauliString
def dense_rows(cirq, rng, per):
    rows = []
    coefs = [1, -1, 1j, -1j]
    for i in range(8 + per):
        n = [0, 1, 1, 2, 3, 4, 2, 3][i] if i < 8 else rng.choice([1, 2, 3, 4])
        mask = [rng.randrange(4) for _ in range(n)]
        c = coefs[i % 4] if i < 8 else (rng.choice(coefs) if rng.random() < 0.5 else unit(draw_angle(rng)))
        mutable = rng.random() < 0.4
        g = (cirq.MutableDensePauliString if mutable else cirq.DensePauliString)(mask, coefficient=c)
        u = np.asarray(cirq.unitary(g))
        model = f'(spec_DensePauli FOps {fc(c)} {nlist(mask)})'
        checks = [('matrix', f'fcll_close {TOL} {model} {fmat(u)}'),
                  ('shape', 'true' if tuple(cirq.qid_shape(g)) == (2,) * n else 'false')]
        rows.append(row('more:DensePauliString', ['DPS', mask, str(complex(c)), mutable], u, checks,
                        f'cirq.unitary({"Mutable" if mutable else ""}DensePauliString({mask}, coefficient={c})) is not coefficient * tensor product', nontrivial=True))
    return rows


# ------------------------------------------------------------------------------------------------ UniformSuperpositionGate
def uniform_rows(cirq, rng, per):
    rows = []
    plan = [(1, 1), (2, 1), (1, 3), (3, 2), (4, 2), (5, 3), (6, 3), (7, 3), (8, 3), (4, 3), (2, 3), (9, 4), (15, 4), (16, 4), (11, 4), (12, 4), (3, 4)]
    for _ in range(per):
        n = rng.choice([2, 3, 4, 5])
        plan.append((rng.randint(1, 2 ** n), n))
    for M, n in plan:
        g = cirq.UniformSuperpositionGate(M, n)
        u = np.asarray(cirq.unitary(g))
        ok = np.allclose(u.conj().T @ u, np.eye(2 ** n), atol=1e-8)
        checks = [('column0', f'fcl_close {TOL} (spec_UniformSup_col FOps (R {fl(1 / math.sqrt(M))}) {nat(M)} {nat(n)}) {fvec(u[:, 0])}'),
                  ('unitary', 'true' if ok else 'false')]
        rows.append(row('more:UniformSuperposition', ['Uniform', M, n], u, checks,
                        f'UniformSuperpositionGate({M}, {n}) does not map |0..0> to the uniform superposition of the first {M} states',
                        nontrivial=M > 1))
    return rows


# ------------------------------------------------------------------------------------------------ channels
def channel_rows(cirq, rng, per):
    rows = []
    # StatePreparationChannel: |psi><j|
    for i in range(6 + per):
        n = [1, 1, 2, 2, 3, 2][i] if i < 6 else rng.choice([1, 2, 2, 3])
        N = 2 ** n
        if i == 0:
            v = np.array([1, 0], dtype=complex)
        elif i == 2:
            v = np.array([0, 0, 0, 2], dtype=complex)      # a basis state given unnormalised
        else:
            v = np.array([complex(rng.gauss(0, 1), rng.gauss(0, 1)) for _ in range(N)]) * rng.choice([1.0, 1.0, 3.0])
        g = cirq.StatePreparationChannel(v)
        ks = [np.asarray(k) for k in cirq.kraus(g)]
        psi = v / np.linalg.norm(v)
        checks = [('kraus', f'fclll_close {TOL} (ketbra_ops FOps {fvec(psi)}) {klist(ks)}'),
                  ('has_unitary', 'true' if not cirq.has_unitary(g) else 'false')]
        rows.append(row('more:StatePreparationChannel', ['StatePrep', [str(complex(x)) for x in v]], ks[0], checks,
                        f'cirq.kraus(StatePreparationChannel({[complex(x) for x in v]})) is not |psi><j|', nontrivial=True))
    # ResetChannel(d)
    for d in (2, 3, 4, 5):
        ks = [np.asarray(k) for k in cirq.kraus(cirq.ResetChannel(d))]
        checks = [('kraus', f'fclll_close {TOL} (spec_Reset FOps {nat(d)}) {klist(ks)}'),
                  ('shape', 'true' if tuple(cirq.qid_shape(cirq.ResetChannel(d))) == (d,) else 'false')]
        rows.append(row('more:ResetChannel', ['Reset', d], ks[0], checks, f'cirq.kraus(ResetChannel({d})) is not |0><j|', nontrivial=True))
    # MeasurementGate: projectors (the invert mask acts on the classical result only)
    for shape, inv in (((2,), ()), ((2, 2), (True, False)), ((3,), ()), ((2, 3), (False, True)), ((2, 2, 2), (True,))):
        g = cirq.MeasurementGate(len(shape), 'k', invert_mask=inv, qid_shape=shape)
        ks = [np.asarray(k) for k in cirq.kraus(g)]
        checks = [('kraus', f'fclll_close {TOL} (spec_Measure FOps {nat(int(np.prod(shape)))}) {klist(ks)}')]
        rows.append(row('more:MeasurementGate', ['Measure', list(shape), list(inv)], ks[0], checks,
                        f'cirq.kraus(MeasurementGate(qid_shape={shape}, invert_mask={inv})) is not the list of projectors |i><i|', nontrivial=True))
    # RandomGateChannel over a unitary gate and over a channel
    ps = [0.0, 1.0, 0.25, 0.5] + [round(rng.random(), 4) for _ in range(per)]
    fixed_subs = ['Z4Pow', 'XPow', 'X4Pow', 'Z4Pow']        # the four fixed probabilities always meet qudit sub gates (every seed)
    for pi, p in enumerate(ps):
        sub = gates.draw(rng, fixed_subs[pi] if pi < len(fixed_subs) else rng.choice(['XPow', 'YPow', 'HPow', 'ZPow', 'CZPow', 'Z4Pow', 'X4Pow', 'PhasedX']))
        sg = sub.cirq_gate(cirq)
        N = int(np.prod(sub.shape))
        g = cirq.RandomGateChannel(sub_gate=sg, probability=p)
        ks = [np.asarray(k) for k in cirq.kraus(g)]
        mix = [(float(q), np.asarray(m)) for q, m in cirq.mixture(g)]
        subm = f'(gate_spec FOps {sub.coq()})'
        checks = [('kraus', f'fclll_close {TOL} (spec_RandomGate_kraus FOps (R {fl(math.sqrt(p))}) (R {fl(math.sqrt(1 - p))}) {nat(N)} [{subm}]) {klist(ks)}'),
                  ('mixture', f'mix_close {TOL} (spec_RandomGate_mixture FOps (R {fl(p)}) (R {fl(1 - p)}) {nat(N)} [(R 1, {subm})]) '
                              '[' + '; '.join(f'(R {fl(q)}, {fmat(m)})' for q, m in mix) + ']')]
        rows.append(row('more:RandomGateChannel', ['RandomGate', p] + sub.key(), ks[0], checks,
                        f'RandomGateChannel({sub.fam} {sub.key()[1]}, {p}): kraus/mixture differ from sqrt(p) U, sqrt(1-p) I / (p, U), (1-p, I)', nontrivial=True))
        q = rng.choice([0.0, 0.1, 0.3, 1.0])
        g = cirq.RandomGateChannel(sub_gate=cirq.bit_flip(q), probability=p)
        ks = [np.asarray(k) for k in cirq.kraus(g)]
        mix = [(float(w), np.asarray(m)) for w, m in cirq.mixture(g)]
        subk = f'(kraus_bit_flip FOps (R {fl(math.sqrt(1 - q))}) (R {fl(math.sqrt(q))}))'
        checks = [('kraus', f'fclll_close {TOL} (spec_RandomGate_kraus FOps (R {fl(math.sqrt(p))}) (R {fl(math.sqrt(1 - p))}) 2%nat {subk}) {klist(ks)}'),
                  ('mixture', f'mix_close {TOL} (spec_RandomGate_mixture FOps (R {fl(p)}) (R {fl(1 - p)}) 2%nat [(R {fl(1 - q)}, pI FOps); (R {fl(q)}, pX FOps)]) '
                              '[' + '; '.join(f'(R {fl(w)}, {fmat(m)})' for w, m in mix) + ']')]
        rows.append(row('more:RandomGateChannel', ['RandomGate', p, 'bit_flip', q], ks[0], checks,
                        f'RandomGateChannel(bit_flip({q}), {p}): kraus/mixture differ from the documented scaling', nontrivial=True))
    # KrausChannel / MixedUnitaryChannel report what they were given (mixture -> Kraus: sqrt(p) U)
    for _ in range(max(3, per // 2)):
        d = rng.choice([2, 2, 4])
        m = rng.choice([2, 3])
        us = [gates.random_unitary(rng, d) for _ in range(m)]
        w = np.array([rng.random() + 0.05 for _ in range(m)])
        w = w / w.sum()
        ops = [math.sqrt(wi) * ui for wi, ui in zip(w, us)]
        kc = cirq.KrausChannel(ops, key=rng.choice([None, 'k']))
        ks = [np.asarray(k) for k in cirq.kraus(kc)]
        rows.append(row('more:KrausChannel', ['Kraus', d, m, [str(complex(x)) for x in ops[0][0]]], ks[0],
                        [('kraus', f'fclll_close {TOL} {klist(ops)} {klist(ks)}')], 'cirq.kraus(KrausChannel(ops)) is not ops', nontrivial=True))
        mc = cirq.MixedUnitaryChannel(list(zip(w, us)), key=rng.choice([None, 'k']))
        mix = [(float(q), np.asarray(mm)) for q, mm in cirq.mixture(mc)]
        ks = [np.asarray(k) for k in cirq.kraus(mc)]
        checks = [('mixture', 'mix_close ' + TOL + ' [' + '; '.join(f'(R {fl(q)}, {fmat(mm)})' for q, mm in zip(w, us)) + '] ['
                              + '; '.join(f'(R {fl(q)}, {fmat(mm)})' for q, mm in mix) + ']'),
                  ('kraus', f'fclll_close {TOL} [' + '; '.join(f'mscale FOps (R {fl(math.sqrt(q))}) {fmat(mm)}' for q, mm in zip(w, us)) + f'] {klist(ks)}')]
        rows.append(row('more:MixedUnitaryChannel', ['Mixed', d, m, [float(x) for x in w]], ks[0], checks,
                        'cirq.mixture / cirq.kraus of MixedUnitaryChannel(mixture) are not the mixture / sqrt(p) U', nontrivial=True))
    return rows


# ------------------------------------------------------------------------------------------------ named constants of these modules
def named_rows(cirq, mods):
    cg = mods['cirq_google']
    E = lambda fam, e, shape=(2, 2): gates.G(fam, dict(e=e, s=0.0), shape)
    consts = [('cirq_google.WILLOW', cg.WILLOW, gates.G('FSim', dict(theta=math.pi / 2, phi=math.pi / 9), (2, 2))),
              ('PauliInteractionGate.CZ', cirq.PauliInteractionGate.CZ, E('CZPow', 1.0)),
              ('PauliInteractionGate.CNOT', cirq.PauliInteractionGate.CNOT, E('CXPow', 1.0)),
              ('cirq.CCZ**0.5', cirq.CCZ ** 0.5, E('CCZPow', 0.5, (2, 2, 2))),
              ('cirq.I', cirq.I, gates.G('Identity', {}, (2,)))]
    rows = []
    for name, obj, g in consts:
        u = np.asarray(cirq.unitary(obj))
        checks = [('matrix', f'fcll_close {TOL} (gate_spec FOps {g.coq()}) {fmat(u)}'),
                  ('shape', 'true' if tuple(cirq.qid_shape(obj)) == g.shape else 'false')]
        rows.append(row('more:named', [name], u, checks, f'{name} is not {g.fam} {g.key()[1]}', nontrivial=True))
    return rows
