"""Generic conversion of a Cirq circuit into the reference model's operation list (Sim/Measure.v `mop`):
every operation enters through its own description (unitary -> GMat, measurement -> MMeasure, classical
control -> MCtrl, Kraus list -> MKraus, reset -> MReset).  Used wherever two Cirq circuits (or a circuit and
a simulator) must be compared through the reference semantics."""
import numpy as np
from . import gates


class Unsupported(Exception):
    pass


def mat_term(u, shape):
    return gates.G('Matrix', dict(m=np.asarray(u, dtype=complex)), tuple(shape)).coq()


def rmat(m):
    """real/complex matrix literal as list (list FC)"""
    return gates.fmat(np.asarray(m, dtype=complex))


def cond_terms(cirq, conds, keyid):
    import sympy
    out = []
    for c in conds:
        if isinstance(c, cirq.KeyCondition):
            idx = c.index
            it = f'(Some {idx}%nat) false' if idx >= 0 else f'(Some {-idx - 1}%nat) true'
            out.append(f'(CKey {keyid(str(c.key))}%nat {it})')
        elif isinstance(c, cirq.BitMaskKeyCondition):
            idx = c.index
            it = f'(Some {idx}%nat) false' if idx >= 0 else f'(Some {-idx - 1}%nat) true'
            m = 'None' if c.bitmask is None else f'(Some {int(c.bitmask)}%nat)'
            out.append(f'(CMask {keyid(str(c.key))}%nat {it} {m} {int(c.target_value)}%nat {"true" if c.equal_target else "false"})')
        elif isinstance(c, cirq.SympyCondition):
            e = c.expr
            if isinstance(e, sympy.Symbol):
                out.append(f'(CKey {keyid(str(e))}%nat (Some 0%nat) true)')
            elif isinstance(e, (sympy.Eq, sympy.Ne)) and isinstance(e.lhs, sympy.Symbol) and e.rhs.is_Integer:
                out.append(f'(CMask {keyid(str(e.lhs))}%nat (Some 0%nat) true None {int(e.rhs)}%nat {"true" if isinstance(e, sympy.Eq) else "false"})')
            else:
                raise Unsupported(f'sympy condition {e}')
        else:
            raise Unsupported(f'condition {c!r}')
    return '[' + '; '.join(out) + ']'


def op_to_mop(cirq, op, axis_of, keyid):
    """One Cirq operation -> Gallina `mop` term (FC instance)."""
    ax = [axis_of[q] for q in op.qubits]
    axl = gates.nlist(ax)
    shape = cirq.qid_shape(op)
    conds = None
    if isinstance(op.untagged, cirq.ClassicallyControlledOperation):
        conds = list(op.untagged.classical_controls)
        op = op.untagged.without_classical_controls()
    gate = op.gate
    if isinstance(gate, cirq.MeasurementGate):
        if conds is not None:
            raise Unsupported('controlled measurement')
        inv = list(gate.full_invert_mask())
        cms = []
        for pos, mat in gate.confusion_map.items():
            cms.append(f'({gates.nlist(pos)}, {rmat(mat)})')
        return (f'(MMeasure {keyid(str(gate.key))}%nat {axl} [{"; ".join("true" if b else "false" for b in inv)}] [{"; ".join(cms)}])')
    if isinstance(gate, cirq.ResetChannel) and conds is None:
        return f'(MReset {ax[0]}%nat)'
    if isinstance(gate, cirq.PauliMeasurementGate):
        if conds is not None:
            raise Unsupported('controlled measurement')
        # documented meaning: measures the observable c*P (c = +-1); records 0 for eigenvalue +1 and 1 for eigenvalue -1 and leaves
        # the projection (I +- cP)/2 of the state.  Built from the Pauli letters here, not from the gate's decomposition.
        obs = gate.observable()
        letters = {0: np.eye(2), 1: np.array([[0, 1], [1, 0]]), 2: np.array([[0, -1j], [1j, 0]]), 3: np.diag([1, -1])}
        P = np.array([[1.0 + 0j]])
        for m in obs.pauli_mask:
            P = np.kron(P, letters[int(m)])
        cf = complex(obs.coefficient)
        if abs(cf.imag) > 1e-12 or abs(abs(cf.real) - 1) > 1e-12:
            raise Unsupported('pauli measurement with a non-unit coefficient')
        P = cf.real * P
        I = np.eye(P.shape[0])
        return f'(MKrausKeyed {keyid(str(gate.key))}%nat [{rmat((I + P) / 2)}; {rmat((I - P) / 2)}] {gates.nlist(shape)} {axl})'
    if cirq.has_unitary(op):
        g = f'({mat_term(cirq.unitary(op), shape)}, {axl})'
        if conds is not None:
            return f'(MCtrl {cond_terms(cirq, conds, keyid)} {g})'
        return f'(MGate {g})'
    if conds is None and cirq.has_kraus(op) and not cirq.is_measurement(op):
        ks = cirq.kraus(op)
        return f'(MKraus [{"; ".join(rmat(k) for k in ks)}] {gates.nlist(shape)} {axl})'
    if conds is None and isinstance(gate, (cirq.KrausChannel, cirq.MixedUnitaryChannel)) and cirq.is_measurement(op):
        # keyed channel: the index of the selected Kraus operator / unitary is recorded under the key
        (key,) = cirq.measurement_key_names(op)
        ks = cirq.kraus(op)
        return f'(MKrausKeyed {keyid(key)}%nat [{"; ".join(rmat(k) for k in ks)}] {gates.nlist(shape)} {axl})'
    raise Unsupported(f'operation {op!r}')


class KeyIds:
    def __init__(self):
        self.ids = {}

    def __call__(self, name):
        return self.ids.setdefault(name, len(self.ids))


def circuit_to_mops(cirq, circuit, qubit_order, keyid=None):
    """Returns (Gallina list of mop, list of (key name, n digits) per measurement in circuit order, KeyIds)."""
    keyid = keyid or KeyIds()
    axis_of = {q: i for i, q in enumerate(qubit_order)}
    terms, meas = [], []
    for op in circuit.all_operations():
        if isinstance(op.untagged, cirq.CircuitOperation):
            raise Unsupported('circuit operation (unroll first)')
        terms.append(op_to_mop(cirq, op, axis_of, keyid))
        if isinstance(op.gate, cirq.MeasurementGate):
            meas.append((str(op.gate.key), len(op.qubits)))
        elif isinstance(op.gate, (cirq.KrausChannel, cirq.MixedUnitaryChannel)) and cirq.is_measurement(op):
            meas.append((next(iter(cirq.measurement_key_names(op))), 1))
        elif isinstance(op.gate, cirq.PauliMeasurementGate):
            meas.append((str(op.gate.key), 1))
    return '[' + ';\n '.join(terms) + ']', meas, keyid


def flat_record(records, meas, rep=0):
    """records: dict key -> array (repetitions, instances, qubits); meas: [(key, n)] in circuit order; the record of repetition rep."""
    seen, out = {}, []
    for key, n in meas:
        i = seen.get(key, 0)
        seen[key] = i + 1
        out.extend(int(x) for x in np.asarray(records[key])[rep][i])
    return out
