"""C11 — JSON round-trips every value and keeps reading old documents (DESIGN 5/C11).

Split (MANIFEST level `other`):
  * proof      — the codec core (Codec/JsonMemo.v): VAL/REF memo encoder and ObjectHook decoder, value equality through
                 canonical forms, Qid ordering; tied to the code by vm_compute correspondence streams.
  * exploration — the per-class `_json_dict_`/`_from_json_dict_` pairs (Python object construction): every class registered in
                 the five resolver caches, stored examples plus generated mutants, nested with shared sub-circuits.
"""
import base64, collections, copy, datetime, inspect, io, json, os, pickle, re, signal, subprocess, sys, time, warnings
from .. import env, coq, runner

LEVEL = 'other'
META = dict(
    text='Proof part: Coq theorems over an executable model of CirqEncoder/ObjectHook (values and JSON documents as finite trees, memo keyed by equality): decode(encode v) = v for every finite value with any sharing, VAL keys dense, one VAL per distinct by-key object, every REF met after its VAL is complete; value equality via canonical forms implies equal hashes (PeriodicValue, @value_equality); Qid._cmp_tuple is a strict total order and the order the qubit classes implement is total, consistent with equality and transitive for the registered class table (checked by vm_compute on every run). The model is compared with the implementation on every run (full JSON text of generated nestings of by-key/plain objects, decoder results incl. malformed and legacy documents, VAL/REF key sequences of real FrozenCircuit nestings, qubit comparisons and sorted()). Exploration part (deciding for the per-class half): every class registered in the resolver caches of cirq, cirq_google, cirq_ionq, cirq_aqt, cirq_pasqal is instantiated from its stored examples and from generated mutants of its constructor arguments, alone and nested in lists/dicts/circuits with shared sub-circuits, and checked for JSON round trip (== and hash), repr evaluation, behaviour (unitary, keys, str), pickle/copy/deepcopy incl. a second process with another hash seed; every stored .json/.json_inward reads to the value of its paired .repr; the id()-keyed encoder cache is stressed and audited.',
    note='Not covered by proof: the ~210 per-class _json_dict_/_from_json_dict_ pairs (Python object construction) — explored only, on stored examples and generated mutants; classes with stored examples only, and skipped ones, are listed in the evidence. Trusted: Coq kernel; the Python adapters in vf/checks/c11.py (building Cirq objects from abstract trees, printing Gallina terms); json/pickle/copy of CPython. The model identifies sharing with equality (as CirqEncoder._memo does) and does not model object identity, so the id()-keyed CirqEncoder._cache is explored (audit + stress), not proved. Theorems are closed under the global context.',
    technique='Rocq/Coq proof over an executable Gallina model of the codec core + vm_compute correspondence; typed mutation-based exploration of the registered class population',
)

VENDORS = ('cirq_google', 'cirq_ionq', 'cirq_aqt', 'cirq_pasqal')
SPEC_MODULES = ['cirq.protocols', 'cirq_google', 'cirq_ionq', 'cirq_aqt', 'cirq_pasqal']


# ------------------------------------------------------------------------------------------------ helpers
class _Timeout(Exception):
    pass


class time_limit:
    def __init__(self, secs):
        self.secs = secs

    def _h(self, *a):
        raise _Timeout()

    def __enter__(self):
        self.old = signal.signal(signal.SIGALRM, self._h)
        signal.setitimer(signal.ITIMER_REAL, self.secs)

    def __exit__(self, *a):
        signal.setitimer(signal.ITIMER_REAL, 0)
        signal.signal(signal.SIGALRM, self.old)
        return False


def gstr(s):
    assert all(32 <= ord(c) < 127 for c in s), s
    return '"' + s.replace('"', '""') + '"'


def g_value(v):
    """abstract value (python tuples) -> Gallina term of type value"""
    k = v[0]
    if k == 'null':
        return 'VNull'
    if k == 'num':
        return f'(VNum {coq.zlit(v[1])})'
    if k == 'str':
        return f'(VStr {gstr(v[1])})'
    if k == 'arr':
        t = 'VNil'
        for x in reversed(v[1]):
            t = f'(VCons {g_value(x)} {t})'
        return f'(VArr {t})'
    if k == 'dict':
        return f'(VDict {g_fields(v[1])})'
    if k == 'obj':
        return f'(VObj {gstr(v[1])} {g_fields(v[2])})'
    raise ValueError(v)


def g_fields(fs):
    t = 'VFNil'
    for k, x in reversed(fs):
        t = f'(VFCons {gstr(k)} {g_value(x)} {t})'
    return t


def g_json(j):
    """parsed JSON (object_pairs_hook=list of pairs wrapped as ('o', pairs)) -> Gallina term of type json"""
    if j is None:
        return 'JNull'
    if isinstance(j, bool):
        raise ValueError('bool not in the model')
    if isinstance(j, int):
        return f'(JNum {coq.zlit(j)})'
    if isinstance(j, str):
        return f'(JStr {gstr(j)})'
    if isinstance(j, list):
        t = 'JNil'
        for x in reversed(j):
            t = f'(JCons {g_json(x)} {t})'
        return f'(JArr {t})'
    if isinstance(j, tuple) and j[0] == 'o':
        t = 'JFNil'
        for k, x in reversed(j[1]):
            t = f'(JFCons {gstr(k)} {g_json(x)} {t})'
        return f'(JObj {t})'
    raise ValueError(j)


def parse_json_ordered(text):
    return json.loads(text, object_pairs_hook=lambda pairs: ('o', pairs))


def dump_json_ordered(j):
    if isinstance(j, tuple) and j[0] == 'o':
        return '{' + ', '.join(json.dumps(k) + ': ' + dump_json_ordered(x) for k, x in j[1]) + '}'
    if isinstance(j, list):
        return '[' + ', '.join(dump_json_ordered(x) for x in j) + ']'
    return json.dumps(j)


def text_events(text):
    """VAL/REF keys of a cirq.to_json text in document order."""
    return [(m.group(1) == 'VAL', int(m.group(2)))
            for m in re.finditer(r'"cirq_type":\s*"(VAL|REF)",\s*"key":\s*(\d+)', text)]


CASES_HEADER = ('From Coq Require Import ZArith List Bool String.\nFrom VF Require Import Base.Harness Codec.JsonMemo.\n'
                'Import ListNotations.\nOpen Scope string_scope.\nOpen Scope Z_scope.\n')


# ------------------------------------------------------------------------------------------------ generic classes
def make_generic_classes(cirq):
    """Plain and by-key classes whose fields are arbitrary: the code's codec core without any per-class logic."""
    def freeze(x):
        if isinstance(x, list):
            return ('l',) + tuple(freeze(y) for y in x)
        if isinstance(x, dict):
            return ('d',) + tuple((k, freeze(y)) for k, y in x.items())
        return x

    class Base:
        def __init__(self, **fields):
            self.fields = fields

        def _json_dict_(self):
            return dict(self.fields)

        @classmethod
        def _json_namespace_(cls):
            return 'vf'

        def __eq__(self, other):
            return type(other) is type(self) and freeze(self.fields) == freeze(other.fields)

        def __ne__(self, other):
            return not self == other

        def __hash__(self):
            return hash((type(self).__name__, freeze(self.fields)))

        def __repr__(self):
            return f'{type(self).__name__}({self.fields!r})'

    classes = {}
    for name in ('P0', 'P1'):
        classes['vf.' + name] = type(name, (Base,), {})
    for name in ('K0', 'K1'):
        classes['vf.' + name] = type(name, (Base, cirq.SerializableByKey), {})
    return classes


def gen_generic_value(rng, pool, depth):
    """abstract value; by-key objects are reused from `pool` to create sharing."""
    r = rng.random()
    if depth <= 0 or r < 0.18:
        c = rng.random()
        if c < 0.45:
            return ('num', rng.choice([0, 1, 2, 3, -7, 2 ** 70]))
        if c < 0.85:
            return ('str', rng.choice(['a', 'b', 'VALUE', 'key', '']))
        return ('null',)
    if pool and r < 0.42:
        return rng.choice(pool)
    if r < 0.55:
        return ('arr', [gen_generic_value(rng, pool, depth - 1) for _ in range(rng.randint(0, 3))])
    if r < 0.65:
        ks = rng.sample(['a', 'b', 'c', 'key', 'val'], rng.randint(0, 3))
        return ('dict', [(k, gen_generic_value(rng, pool, depth - 1)) for k in ks])
    tag = rng.choice(['vf.K0', 'vf.K0', 'vf.K1', 'vf.P0', 'vf.P1'])
    ks = rng.sample(['a', 'b', 'c', 'key', 'val', 'obj'], rng.randint(0, 3))
    v = ('obj', tag, [(k, gen_generic_value(rng, pool, depth - 1)) for k in ks])
    if tag.startswith('vf.K'):
        pool.append(v)
    return v


def realise_generic(v, classes):
    k = v[0]
    if k == 'null':
        return None
    if k in ('num', 'str'):
        return v[1]
    if k == 'arr':
        return [realise_generic(x, classes) for x in v[1]]
    if k == 'dict':
        return {kk: realise_generic(x, classes) for kk, x in v[1]}
    return classes[v[1]](**{kk: realise_generic(x, classes) for kk, x in v[2]})


def abstract_generic(o, classes):
    """python object read back by read_json -> abstract value"""
    if o is None:
        return ('null',)
    if isinstance(o, bool):
        raise ValueError('bool')
    if isinstance(o, int):
        return ('num', o)
    if isinstance(o, str):
        return ('str', o)
    if isinstance(o, list):
        return ('arr', [abstract_generic(x, classes) for x in o])
    if isinstance(o, dict):
        return ('dict', [(k, abstract_generic(x, classes)) for k, x in o.items()])
    for tag, c in classes.items():
        if type(o) is c:
            return ('obj', tag, [(k, abstract_generic(x, classes)) for k, x in o.fields.items()])
    raise ValueError(repr(o))


def sharing_ok(o, is_key_obj, seen=None):
    """In a decoded structure, equal by-key objects must be ONE object."""
    seen = {} if seen is None else seen
    stack, ok = [o], True
    visited = set()
    while stack:
        x = stack.pop()
        if id(x) in visited:
            continue
        visited.add(id(x))
        if is_key_obj(x):
            if x in seen and seen[x] is not x:
                ok = False
            seen.setdefault(x, x)
        if isinstance(x, (list, tuple)):
            stack.extend(x)
        elif isinstance(x, dict):
            stack.extend(x.values())
        elif hasattr(x, 'fields') and isinstance(getattr(x, 'fields'), dict):
            stack.extend(x.fields.values())
    return ok


def mutate_doc(rng, j):
    """Damage a document: swap two array members (REF before VAL), change a key, drop a member, retag."""
    arrays, objs = [], []

    def walk(x):
        if isinstance(x, list):
            arrays.append(x)
            for y in x:
                walk(y)
        elif isinstance(x, tuple):
            objs.append(x)
            for _, y in x[1]:
                walk(y)
    j = copy.deepcopy(j)
    walk(j)
    kind = rng.choice(['swap', 'key', 'drop', 'retag', 'swapf'])
    if kind == 'swap':
        c = [a for a in arrays if len(a) >= 2]
        if c:
            a = rng.choice(c)
            i, k = rng.sample(range(len(a)), 2)
            a[i], a[k] = a[k], a[i]
    elif kind == 'swapf':
        c = [o for o in objs if len(o[1]) >= 2 and not any(k == 'cirq_type' for k, _ in o[1])]
        if c:
            o = rng.choice(c)
            i, k = rng.sample(range(len(o[1])), 2)
            o[1][i], o[1][k] = o[1][k], o[1][i]
    elif kind == 'key':
        c = [o for o in objs if dict(o[1]).get('cirq_type') in ('VAL', 'REF')]
        if c:
            o = rng.choice(c)
            for idx, (k, x) in enumerate(o[1]):
                if k == 'key':
                    o[1][idx] = ('key', x + rng.choice([1, -1, 5]))
    elif kind == 'drop':
        c = [o for o in objs if dict(o[1]).get('cirq_type') in ('VAL', 'REF')]
        if c:
            o = rng.choice(c)
            del o[1][rng.randrange(1, len(o[1]))]
    else:
        c = [o for o in objs if dict(o[1]).get('cirq_type') == 'REF']
        if c:
            o = rng.choice(c)
            o[1][0] = ('cirq_type', rng.choice(['_SerializedKey', 'VAL', 5]))
    return j


def legacy_doc(rng, pool_vals, top, classes):
    """A document in the legacy context format: contexts first, keys inside."""
    # every by-key abstract object gets a context entry in dependency order; occurrences become _SerializedKey
    order = []

    def collect(v):
        if v[0] == 'arr':
            for x in v[1]:
                collect(x)
        elif v[0] == 'dict':
            for _, x in v[1]:
                collect(x)
        elif v[0] == 'obj':
            for _, x in v[2]:
                collect(x)
            if v[1].startswith('vf.K') and v not in order:
                order.append(v)
    collect(top)
    keys = {id(o): i + 1 for i, o in enumerate(order)}
    keyof = lambda v: next(i + 1 for i, o in enumerate(order) if o == v)

    def enc(v, inline=False):
        if v[0] == 'null':
            return None
        if v[0] in ('num', 'str'):
            return v[1]
        if v[0] == 'arr':
            return [enc(x) for x in v[1]]
        if v[0] == 'dict':
            return ('o', [(k, enc(x)) for k, x in v[1]])
        if v[1].startswith('vf.K') and not inline:
            return ('o', [('cirq_type', '_SerializedKey'), ('key', keyof(v))])
        return ('o', [('cirq_type', v[1])] + [(k, enc(x)) for k, x in v[2]])
    dag = [('o', [('cirq_type', '_SerializedContext'), ('key', keyof(o)), ('obj', enc(o, inline=True))]) for o in order]
    dag.append(enc(top))
    return ('o', [('cirq_type', '_ContextualSerialization'), ('object_dag', dag)])


def stream_memo_generic(ctx, cirq, n):
    classes = make_generic_classes(cirq)
    resolver = lambda t: classes.get(t) if isinstance(t, str) else None
    resolvers = [resolver] + list(cirq.DEFAULT_RESOLVERS)
    is_key = lambda x: isinstance(x, cirq.SerializableByKey)
    enc_rows, dec_rows = [], []
    for i in range(n):
        pool = []
        v = gen_generic_value(ctx.rng, pool, ctx.rng.randint(1, 5))
        obj = realise_generic(v, classes)
        text = cirq.to_json(obj)
        j = parse_json_ordered(text)
        evs = text_events(text)
        nvals = sum(1 for e in evs if e[0])
        nrefs = len(evs) - nvals
        enc_rows.append((v, j))
        ctx.count('memo_encode', g_value(v), nvals >= 1 and nrefs >= 1,
                  sample=dict(value=repr(obj)[:300], vals=nvals, refs=nrefs, events=evs[:12]))
        # property-level oracle on the real code: round trip, sharing
        back = cirq.read_json(json_text=text, resolvers=resolvers)
        if back != obj or not sharing_ok(back, is_key):
            ctx.violation('codec:generic-roundtrip', f'read_json(to_json(x)) != x (or sharing lost) for generic object tree {obj!r}'[:600],
                          dict(kind='generic', value=v))
        # decoder: the same document, damaged documents, legacy documents
        docs = [j]
        for _ in range(2):
            docs.append(mutate_doc(ctx.rng, j))
        if i % 3 == 0:
            docs.append(legacy_doc(ctx.rng, pool, v, classes))
        for d in docs:
            dtext = dump_json_ordered(d)
            try:
                res = abstract_generic(cirq.read_json(json_text=dtext, resolvers=resolvers), classes)
            except (KeyError, ValueError, TypeError, IndexError):
                res = None
            dec_rows.append((d, res))
            ctx.count('memo_decode', dtext, 'REF' in dtext or '_SerializedKey' in dtext,
                      sample=dict(doc=dtext[:300], result='error' if res is None else 'value'))
    text = CASES_HEADER + 'Definition bk (t : string) : bool := String.prefix "vf.K" t.\n'
    text += 'Definition enc_cases : list (value * json) := [\n' + ';\n'.join(
        f'({g_value(v)}, {g_json(j)})' for v, j in enc_rows) + '].\n'
    text += ('Eval vm_compute in failing (fun c => match c with (v, j) => wf v && json_eqb (encode bk v) j end) enc_cases.\n')
    text += 'Definition dec_cases : list (json * option value) := [\n' + ';\n'.join(
        f'({g_json(d)}, {coq.opt(r, g_value)})' for d, r in dec_rows) + '].\n'
    text += 'Eval vm_compute in failing (fun c => match c with (j, r) => opt_eqb value_eqb (decode j) r end) dec_cases.\n'
    vals = coq.parse_evals(coq.coq_eval(f'c11_generic_{ctx.seed}', text))
    assert len(vals) == 2, vals
    for idx in coq.parse_nat_list(vals[0]):
        v, j = enc_rows[idx]
        ctx.mark_broken('correspondence:memo_encode', f'model encode differs from cirq.to_json on {g_value(v)[:400]}: {dump_json_ordered(j)[:400]}')
    for idx in coq.parse_nat_list(vals[1]):
        d, r = dec_rows[idx]
        ctx.mark_broken('correspondence:memo_decode', f'model decode differs from cirq.read_json on {dump_json_ordered(d)[:400]}: implementation gave {r}')
    ctx.cov['memo_generic'] = dict(encode_cases=len(enc_rows), decode_cases=len(dec_rows),
                                   decode_errors=sum(1 for _, r in dec_rows if r is None))


# ------------------------------------------------------------------------------------------------ real circuits
def gen_circ_tree(rng, pool, depth):
    """abstract nesting of FrozenCircuits (by key), CircuitOperations, Circuits, lists and dicts"""
    r = rng.random()
    if depth <= 0:
        return ('op', rng.randrange(4))
    if pool and r < 0.35:
        return rng.choice(pool)
    if r < 0.60:
        kids = [gen_circ_op(rng, pool, depth - 1) for _ in range(rng.randint(0, 3))]
        tags = rng.choice([(), (), ('t0',), ('t0', 't1')])
        v = ('fc', kids, tags)
        pool.append(v)
        return v
    if r < 0.72:
        return ('circ', [gen_circ_op(rng, pool, depth - 1) for _ in range(rng.randint(0, 3))])
    if r < 0.88:
        return ('list', [gen_circ_tree(rng, pool, depth - 1) for _ in range(rng.randint(1, 3))])
    ks = rng.sample(['a', 'b', 'c'], rng.randint(1, 3))
    return ('dict', [(k, gen_circ_tree(rng, pool, depth - 1)) for k in ks])


def gen_circ_op(rng, pool, depth):
    if depth <= 0 or rng.random() < 0.4:
        return ('op', rng.randrange(4))
    fcs = [p for p in pool if p[0] == 'fc']
    if fcs and rng.random() < 0.5:
        fc = rng.choice(fcs)
    else:
        fc = ('fc', [gen_circ_op(rng, pool, depth - 1) for _ in range(rng.randint(0, 2))], rng.choice([(), (), ('t0',)]))
        pool.append(fc)
    return ('cop', fc, rng.choice([1, 2, 3]))


def realise_circ(v, cirq):
    k = v[0]
    if k == 'op':
        return cirq.X(cirq.LineQubit(v[1]))
    if k == 'cop':
        return cirq.CircuitOperation(realise_circ(v[1], cirq), repetitions=v[2])
    if k == 'fc':
        return cirq.FrozenCircuit([cirq.Moment(realise_circ(x, cirq)) for x in v[1]], tags=v[2])
    if k == 'circ':
        return cirq.Circuit([cirq.Moment(realise_circ(x, cirq)) for x in v[1]])
    if k == 'list':
        return [realise_circ(x, cirq) for x in v[1]]
    return {kk: realise_circ(x, cirq) for kk, x in v[1]}


def model_circ(v):
    """the model value: atoms for gate operations, objects for everything that can hold a by-key circuit"""
    k = v[0]
    if k == 'op':
        return ('num', v[1])
    if k == 'cop':
        return ('obj', 'CircuitOperation', [('circuit', model_circ(v[1])), ('repetitions', ('num', v[2]))])
    if k in ('fc', 'circ'):
        moments = ('arr', [('obj', 'Moment', [('operations', ('arr', [model_circ(x)]))]) for x in v[1]])
        fs = [('moments', moments)]
        if k == 'fc' and v[2]:
            fs.append(('tags', ('arr', [('str', t) for t in v[2]])))
        return ('obj', 'FrozenCircuit' if k == 'fc' else 'Circuit', fs)
    if k == 'list':
        return ('arr', [model_circ(x) for x in v[1]])
    return ('dict', [(kk, model_circ(x)) for kk, x in v[1]])


def frozen_sharing_ok(cirq, o):
    seen, ok, stack, visited = {}, True, [o], set()
    while stack:
        x = stack.pop()
        if id(x) in visited:
            continue
        visited.add(id(x))
        if isinstance(x, cirq.FrozenCircuit):
            if x in seen and seen[x] is not x:
                ok = False
            seen.setdefault(x, x)
            stack.extend(op for m in x.moments for op in m.operations)
        elif isinstance(x, cirq.Circuit):
            stack.extend(op for m in x.moments for op in m.operations)
        elif isinstance(x, cirq.CircuitOperation):
            stack.append(x.circuit)
        elif isinstance(x, (list, tuple)):
            stack.extend(x)
        elif isinstance(x, dict):
            stack.extend(x.values())
    return ok


def stream_memo_circuits(ctx, cirq, n):
    rows = []
    for i in range(n):
        pool = []
        v = gen_circ_tree(ctx.rng, pool, ctx.rng.randint(2, 5))
        obj = realise_circ(v, cirq)
        text = cirq.to_json(obj)
        evs = text_events(text)
        rows.append((v, evs))
        nvals = sum(1 for e in evs if e[0])
        ctx.count('memo_circuits', g_value(model_circ(v)), nvals >= 2 and len(evs) > nvals,
                  sample=dict(value=repr(obj)[:300], events=evs[:16]))
        back = cirq.read_json(json_text=text)
        if back != obj or not frozen_sharing_ok(cirq, back):
            ctx.violation('codec:circuit-roundtrip', f'read_json(to_json(x)) != x (or shared FrozenCircuit duplicated) for {obj!r}'[:600],
                          dict(kind='circuit_tree', tree=v))
    text = CASES_HEADER + 'Definition bk (t : string) : bool := String.eqb t "FrozenCircuit".\n'
    text += 'Definition ev_cases : list (value * list (bool * Z)) := [\n' + ';\n'.join(
        '(%s, [%s])' % (g_value(model_circ(v)), '; '.join(f'({"true" if b else "false"}, {coq.zlit(k)})' for b, k in evs))
        for v, evs in rows) + '].\n'
    text += ('Eval vm_compute in failing (fun c => match c with (v, evs) => wf v && '
             'list_eqb (pair_eqb Bool.eqb Z.eqb) (doc_events (encode bk v)) evs && refs_ok [] (hook_events (encode bk v)) end) ev_cases.\n')
    vals = coq.parse_evals(coq.coq_eval(f'c11_circ_{ctx.seed}', text))
    assert len(vals) == 1, vals
    for idx in coq.parse_nat_list(vals[0]):
        v, evs = rows[idx]
        ctx.mark_broken('correspondence:memo_circuits', f'VAL/REF key sequence of cirq.to_json differs from the model on {v}: implementation {evs}')
        # spec-level oracle: keys dense, every REF after its VAL closed, document reads back
        obj = realise_circ(v, cirq)
        ks = [k for b, k in evs if b]
        if ks != list(range(len(ks))):
            ctx.violation('codec:keys-not-dense', f'VAL keys {ks} are not 0..n-1 for {obj!r}'[:500], dict(kind='circuit_tree', tree=v))


# ------------------------------------------------------------------------------------------------ corpus
def eval_namespace(mods):
    import numpy as np, pandas as pd, sympy, networkx as nx
    ns = {'cirq': mods['cirq'], 'pd': pd, 'sympy': sympy, 'np': np, 'datetime': datetime, 'nx': nx}
    for m in VENDORS:
        ns[m] = mods[m]
    return ns


def load_specs():
    from cirq.testing.json import spec_for
    return [spec_for(m) for m in SPEC_MODULES]


def stream_corpus(ctx, mods, specs):
    cirq = mods['cirq']
    from cirq._compat import proper_eq
    ns = eval_namespace(mods)
    stats = collections.Counter()
    for sp in specs:
        for key in sp.all_test_data_keys():
            name = os.path.basename(key)
            for rext, jext in (('.repr', '.json'), ('.repr_inward', '.json_inward')):
                rp, jp = key + rext, key + jext
                if not os.path.exists(rp) and not os.path.exists(jp):
                    continue
                stats['documents'] += 1
                if not (os.path.exists(rp) and os.path.exists(jp)):
                    stats['unpaired'] += 1
                    ctx.violation(f'corpus:unpaired:{sp.name}/{name}{jext}', f'{sp.name}/{name}: {rext} / {jext} pair incomplete',
                                  dict(kind='corpus', path=key, ext=jext))
                    continue
                jtext = open(jp).read()
                legacy = '_ContextualSerialization' in jtext
                stats['inward' if jext == '.json_inward' else 'current'] += 1
                stats['legacy_context_format'] += int(legacy)
                try:
                    with warnings.catch_warnings():
                        warnings.simplefilter('ignore')
                        want = eval(open(rp).read(), dict(ns), {})
                        got = cirq.read_json(json_text=jtext)
                    ok = proper_eq(got, want)
                    detail = '' if ok else f'read {got!r}, stored repr gives {want!r}'
                except Exception as e:     # noqa
                    ok, detail = False, f'{type(e).__name__}: {e}'
                ctx.count('corpus', f'{sp.name}/{name}{jext}', True,
                          sample=dict(document=f'{sp.name}/{name}{jext}', reads_to_repr=ok))
                if not ok:
                    ctx.violation(f'corpus:{sp.name}/{name}{jext}', f'stored document {sp.name}/{name}{jext} no longer reads to the value of its {rext}: {detail}'[:700],
                                  dict(kind='corpus', path=key, ext=jext))
    ctx.cov['corpus'] = dict(stats)


# ------------------------------------------------------------------------------------------------ run
def run(ctx):
    mods = env.import_cirq(vendors=VENDORS)
    cirq = mods['cirq']
    quick = ctx.tier == 'quick'
    ctx.rule = ('PROOF PART (codec core): model vs implementation on generated trees of plain/by-key objects with reuse of by-key '
                'objects (full JSON text compared; non-trivial = at least one VAL and one REF), the decoder on those documents, on '
                'damaged documents (swapped members, changed/dropped keys, retagged) and on legacy context documents, and the VAL/REF '
                'key sequence of real nestings of FrozenCircuit/CircuitOperation/Circuit/list/dict (non-trivial = >=2 VAL and >=1 REF). '
                'EXPLORATION PART (per-class, deciding for that half): see coverage.classes — every registered class, stored .repr examples + '
                'typed mutants of JSON fields and constructor arguments, nested in lists/dicts/circuits with shared sub-circuits; every stored '
                '.json/.json_inward against its .repr; cases are distinct by canonical text.')
    ctx.assumptions += ['vf/checks/c11.py adapters: abstract tree -> Cirq objects / Gallina terms, JSON text -> Gallina json',
                        'CPython json/pickle/copy, numpy/pandas/sympy equality as used by cirq._compat.proper_eq',
                        'sharing is identified with equality (CirqEncoder._memo is keyed by ==/hash); object identity (the id()-keyed _cache) is explored, not modelled']
    ctx.set_obligations(coq.compile_props('C11'))
    specs = load_specs()
    stream_memo_generic(ctx, cirq, 150 if quick else 1500)
    stream_memo_circuits(ctx, cirq, 150 if quick else 1500)
    stream_corpus(ctx, mods, specs)
    pop = Population(mods, specs)
    ex = stream_classes(ctx, mods, specs, pop)


def replay(ctx, data):
    mods = env.import_cirq(vendors=VENDORS)
    cirq = mods['cirq']
    k = data.get('kind')
    if k == 'generic':
        classes = make_generic_classes(cirq)
        obj = realise_generic(_tuplify(data['value']), classes)
        back = cirq.read_json(json_text=cirq.to_json(obj), resolvers=[lambda t: classes.get(t)] + list(cirq.DEFAULT_RESOLVERS))
        print('value', obj, '\nback ', back)
        return back == obj and sharing_ok(back, lambda x: isinstance(x, cirq.SerializableByKey))
    if k == 'circuit_tree':
        obj = realise_circ(_tuplify(data['tree']), cirq)
        text = cirq.to_json(obj)
        back = cirq.read_json(json_text=text)
        print('events', text_events(text))
        ks = [kk for b, kk in text_events(text) if b]
        return back == obj and frozen_sharing_ok(cirq, back) and ks == list(range(len(ks)))
    if k == 'corpus':
        from cirq._compat import proper_eq
        rext = '.repr' if data['ext'] == '.json' else '.repr_inward'
        want = eval(open(data['path'] + rext).read(), dict(eval_namespace(mods)), {})
        got = cirq.read_json(json_text=open(data['path'] + data['ext']).read())
        print('stored repr:', repr(want)[:400], '\nread       :', repr(got)[:400])
        return proper_eq(got, want)
    print('nothing to replay for kind', k)
    return False


def _tuplify(x):
    if isinstance(x, list):
        if x and isinstance(x[0], str) and x[0] in ('null', 'num', 'str', 'arr', 'dict', 'obj', 'op', 'cop', 'fc', 'circ', 'list'):
            if x[0] in ('arr', 'list'):
                return (x[0], [_tuplify(y) for y in x[1]])
            if x[0] == 'dict':
                return ('dict', [(k, _tuplify(y)) for k, y in x[1]])
            if x[0] == 'obj':
                return ('obj', x[1], [(k, _tuplify(y)) for k, y in x[2]])
            if x[0] == 'cop':
                return ('cop', _tuplify(x[1]), x[2])
            if x[0] in ('fc',):
                return ('fc', [_tuplify(y) for y in x[1]], tuple(x[2]))
            if x[0] == 'circ':
                return ('circ', [_tuplify(y) for y in x[1]])
            return tuple(x)
    return x


# ------------------------------------------------------------------------------------------------ class population
def flat(o):
    return list(o) if isinstance(o, list) else [o]


class Population:
    """Every entry of the five resolver caches with its stored examples (DESIGN 5/C11, exploration part)."""

    def __init__(self, mods, specs):
        self.mods, self.cirq = mods, mods['cirq']
        self.ns = eval_namespace(mods)
        self.entries = []          # dict(spec, name, factory, is_type, stored=[objs], status)
        self.by_type = collections.defaultdict(list)
        self.all_named = {}        # (spec, file name) -> list of objects
        for sp in specs:
            for key in sp.all_test_data_keys():
                name = os.path.basename(key)
                for ext in ('.repr', '.repr_inward'):
                    if os.path.exists(key + ext):
                        try:
                            with warnings.catch_warnings():
                                warnings.simplefilter('ignore')
                                objs = flat(eval(open(key + ext).read(), dict(self.ns), {}))
                        except Exception:      # noqa  (reported by the corpus stream)
                            continue
                        self.all_named.setdefault((sp.name, name), []).extend(objs)
                        for o in objs:
                            self._harvest(o, 0)
        for sp in specs:
            for name, factory in sp.resolver_cache.items():
                status = None
                if name in sp.deprecated:
                    status = 'deprecated in upstream spec'
                elif name in sp.not_yet_serializable:
                    status = 'not_yet_serializable in upstream spec'
                elif name in getattr(sp, 'tested_elsewhere', []):
                    status = 'tested_elsewhere in upstream spec'
                is_type = isinstance(factory, type)
                if is_type:
                    stored = list(self.by_type.get(factory, []))
                else:
                    stored = [o for o in self.all_named.get((sp.name, name), [])]
                self.entries.append(dict(spec=sp.name, name=name, factory=factory, is_type=is_type, stored=stored,
                                         status=status, has_doc=any(os.path.exists(os.path.join(str(sp.test_data_path), name + e))
                                                                    for e in ('.json', '.json_inward'))))

    def _harvest(self, o, depth):
        """stored examples, and the objects nested inside them, grouped by exact type"""
        if depth > 4:
            return
        if hasattr(o, '_json_dict_') and not isinstance(o, type):
            lst = self.by_type[type(o)]
            if len(lst) < 12 and not any(x is o for x in lst):
                lst.append(o)
            try:
                d = o._json_dict_()
            except Exception:      # noqa
                return
            if isinstance(d, dict):
                for v in d.values():
                    self._harvest(v, depth + 1)
        elif isinstance(o, (list, tuple, set, frozenset)):
            for v in list(o)[:8]:
                self._harvest(v, depth + 1)
        elif isinstance(o, dict):
            for k, v in list(o.items())[:8]:
                self._harvest(k, depth + 1)
                self._harvest(v, depth + 1)


def custom_instances(mods, pop):
    """instances for registered classes that have no stored example"""
    cirq, cg = mods['cirq'], mods['cirq_google']
    out = {}
    gnp = pop.by_type.get(cg.GoogleNoiseProperties, [])
    if gnp:
        out['NoiseModelFromNoiseProperties'] = [cirq.NoiseModelFromNoiseProperties(gnp[0])]
    return out


class Mutator:
    def __init__(self, mods, pop, rng):
        self.mods, self.cirq, self.pop, self.rng = mods, mods['cirq'], pop, rng
        import sympy
        self.sympy = sympy

    def qid_alts(self, q):
        cirq = self.cirq
        t = type(q)
        try:
            if t is cirq.LineQubit:
                return [cirq.LineQubit(q.x + 1), cirq.LineQubit(q.x + 7)]
            if t is cirq.LineQid:
                return [cirq.LineQid(q.x + 1, q.dimension), cirq.LineQid(q.x, q.dimension + 1)]
            if t is cirq.GridQubit:
                return [cirq.GridQubit(q.row + 1, q.col), cirq.GridQubit(q.row, q.col + 2)]
            if t is cirq.GridQid:
                return [cirq.GridQid(q.row + 1, q.col, dimension=q.dimension), cirq.GridQid(q.row, q.col, dimension=q.dimension + 1)]
            if t is cirq.NamedQubit:
                return [cirq.NamedQubit(q.name + 'x'), cirq.NamedQubit('q10')]
            if t is cirq.NamedQid:
                return [cirq.NamedQid(q.name + 'x', q.dimension), cirq.NamedQid(q.name, q.dimension + 1)]
        except Exception:      # noqa
            pass
        return [o for o in self.pop.by_type.get(t, []) if o != q][:2]

    def alts(self, v, depth=0):
        """typed alternatives for one field value (as a reader of the document sees it)"""
        cirq, sympy = self.cirq, self.sympy
        if isinstance(v, bool):
            return [not v]
        if isinstance(v, int):
            return [c for c in (v + 1, v - 1, 0, 2, 3) if c != v]
        if isinstance(v, float):
            t = sympy.Symbol('vf_t')
            return [c for c in (v + 0.25, -v, 0.0, 0.5, 1.0, 1 / 3, v * 1.5 + 0.125, t, 2 * t + 1) if not (isinstance(c, float) and c == v)]
        if isinstance(v, complex):
            return [v * 1j, v + 0.5, 1j, 0.5 - 0.25j]
        if isinstance(v, str):
            return [v + 'x', 'vf_m']
        if isinstance(v, sympy.Basic):
            return [sympy.Symbol('vf_u'), v + 1, 2 * v, 0.25]
        if isinstance(v, cirq.Qid):
            return self.qid_alts(v)
        if isinstance(v, (list, tuple)):
            mk = type(v) if type(v) in (list, tuple) else list
            out = []
            if v and all(isinstance(e, cirq.Qid) for e in v):
                if len(v) >= 2:
                    out.append(mk(list(v[1:]) + [v[0]]))
                for a in self.qid_alts(v[0]):
                    if a not in v:
                        out.append(mk([a] + list(v[1:])))
                        break
                return out
            if depth < 3:
                for idx in sorted({0, len(v) - 1}) if v else []:
                    for a in self.alts(v[idx], depth + 1)[:2]:
                        w = list(v)
                        w[idx] = a
                        out.append(mk(w))
            if len(v) >= 2:
                out.append(mk(list(v[:-1])))
                out.append(mk(list(reversed(v))))
            return out
        if isinstance(v, dict):
            out = []
            if depth < 3:
                for k in list(v)[:2]:
                    for a in self.alts(v[k], depth + 1)[:2]:
                        w = dict(v)
                        w[k] = a
                        out.append(w)
            return out
        if isinstance(v, datetime.datetime):
            return [v + datetime.timedelta(seconds=1.5)]
        if hasattr(v, '_json_dict_') and not isinstance(v, type):
            out = [o for o in self.pop.by_type.get(type(v), []) if not _safe_eq(o, v)][:2]
            if depth < 2:
                out += self.mutants(v, keep=2, tries=10, depth=depth + 1)
            return out
        return []

    def view(self, x):
        cirq = self.cirq
        d0 = x._json_dict_()
        return cirq.read_json(json_text=cirq.to_json(dict(d0)))

    def build(self, cls, d, extra=None):
        f = getattr(cls, '_from_json_dict_', None)
        if extra:
            d = dict(d, **extra)
        if f is not None:
            return f(**dict({'cirq_type': self.cirq.json_cirq_type(cls)}, **d))
        return cls(**d)

    def ctor_extras(self, cls, d):
        """constructor arguments that the JSON dict does not mention (omitted-when-default fields)"""
        out = []
        try:
            sig = inspect.signature(cls.__init__)
        except (TypeError, ValueError):
            return out
        for p in list(sig.parameters.values())[1:]:
            if p.name in d or p.kind in (p.VAR_POSITIONAL, p.VAR_KEYWORD) or p.default is inspect.Parameter.empty:
                continue
            dv, ann = p.default, str(p.annotation)
            if isinstance(dv, (bool, int, float, str)) and not isinstance(dv, type):
                cands = self.alts(dv)[:3]
            elif dv is None or dv == ():
                cands = []
                if 'float' in ann or 'TParamVal' in ann:
                    cands += [0.25, 1.5]
                if 'int' in ann:
                    cands += [1, 3]
                if 'str' in ann:
                    cands += ['vf_s']
                if 'bool' in ann:
                    cands += [True, False]
                if 'Hashable' in ann or 'tags' in p.name:
                    cands += [('vf_tag',)]
            else:
                cands = []
            for c in cands:
                out.append((p.name, c))
        return out

    def mutants(self, x, keep, tries, depth=0):
        from cirq._compat import proper_eq
        cls = type(x)
        try:
            with time_limit(5):
                d = self.view(x)
                if not isinstance(d, dict) or not _safe_eq(self.build(cls, d), x):
                    return []
        except Exception:      # noqa
            return []
        cands = []
        for k in d:
            for a in self.alts(d[k], depth):
                cands.append((k, a, False))
        for k, a in self.ctor_extras(cls, d):
            cands.append((k, a, True))
        self.rng.shuffle(cands)
        # one candidate per field first, so that every field is varied before any is varied twice
        seenk, first, rest = set(), [], []
        for c in cands:
            (first if c[0] not in seenk else rest).append(c)
            seenk.add(c[0])
        out, texts = [], set()
        for k, a, extra in (first + rest)[:tries]:
            try:
                with time_limit(5), warnings.catch_warnings():
                    warnings.simplefilter('ignore')
                    m = self.build(cls, d, {k: a})
                    if type(m) is not cls or _safe_eq(m, x) or not _safe_eq(m, m):
                        continue
                    key = repr(m)
            except Exception:      # noqa   constructor rejected the mutated argument
                continue
            if key in texts:
                continue
            texts.add(key)
            m_info = dict(field=k, value=repr(a)[:80], ctor_only=extra)
            out.append((m, m_info))
            if len(out) >= keep:
                break
        return [m for m, _ in out] if depth > 0 else out


def _safe_eq(a, b):
    from cirq._compat import proper_eq
    try:
        r = proper_eq(a, b)
        return bool(r)
    except Exception:      # noqa
        return False


def _hashable(x):
    try:
        hash(x)
        return True
    except TypeError:
        return False


class Explorer:
    CHECKS = ('json', 'hash', 'repr', 'behaviour', 'pickle', 'copy', 'deepcopy', 'nested')

    def __init__(self, ctx, mods, pop):
        self.ctx, self.mods, self.cirq, self.pop = ctx, mods, mods['cirq'], pop
        self.ns = eval_namespace(mods)
        lenient = dict(self.ns)
        for m in (mods['cirq'], getattr(mods['cirq'], 'work', None), getattr(mods['cirq'], 'ops', None),
                  getattr(mods['cirq'], 'contrib', None)) + tuple(mods[v] for v in VENDORS):
            if m is not None:
                for n in dir(m):
                    if not n.startswith('_'):
                        lenient.setdefault(n, getattr(m, n))
        self.ns_lenient = lenient
        self.stats = collections.Counter()
        self.repr_lenient_classes = set()
        self.xproc = []          # (label, pickle bytes, json text)

    # -- individual checks; each returns None (ok / not applicable) or a failure text
    def c_json(self, x):
        cirq = self.cirq
        text = cirq.to_json(x)
        y = cirq.read_json(json_text=text)
        self._y, self._text = y, text
        if not (_safe_eq(y, x) and _safe_eq(x, y)):
            return f'read_json(to_json(x)) = {y!r} != x'
        return None

    def c_hash(self, x):
        if not _hashable(x) or self._y is None:
            return None
        self.stats['hash_checked'] += 1
        if hash(self._y) != hash(x):
            return f'hash(read_json(to_json(x))) = {hash(self._y)} != hash(x) = {hash(x)} although the values are equal'
        return None

    def c_repr(self, x, name):
        from cirq._compat import proper_repr
        own = type(x).__module__.split('.')[0] in ('cirq', 'cirq_google', 'cirq_ionq', 'cirq_aqt', 'cirq_pasqal')
        text = repr(x) if own else proper_repr(x)
        err = None
        for label, ns in (('upstream', self.ns), ('lenient', self.ns_lenient)):
            ns2 = dict(ns)
            if label == 'lenient':
                mod = sys.modules.get(type(x).__module__)
                if mod is not None:
                    for k, v in vars(mod).items():
                        ns2.setdefault(k, v)
            try:
                with warnings.catch_warnings():
                    warnings.simplefilter('ignore')
                    z = eval(text, ns2, {})
                if _safe_eq(z, x):
                    if label == 'lenient':
                        self.repr_lenient_classes.add(name)
                    return None
                err = f'eval(repr(x)) = {z!r} != x'
            except Exception as e:      # noqa
                err = f'repr(x) = {text[:160]!r} does not evaluate: {type(e).__name__}: {e}'
        return err

    def _behaviour(self, x):
        cirq = self.cirq
        import numpy as np
        out = {}

        def attempt(label, f):
            try:
                out[label] = f()
            except Exception as e:      # noqa
                out[label] = 'raises ' + type(e).__name__
        attempt('str', lambda: str(x))
        if isinstance(x, (cirq.Gate, cirq.Operation, cirq.AbstractCircuit, cirq.Moment)):
            attempt('keys', lambda: sorted(cirq.measurement_key_names(x)))
            attempt('params', lambda: sorted(cirq.parameter_names(x)))
            attempt('shape', lambda: tuple(cirq.qid_shape(x, ())))
            shape = out.get('shape')
            if isinstance(shape, tuple) and shape and int(np.prod(shape)) <= 32:
                attempt('unitary', lambda: (lambda u: None if u is None else np.round(u, 9).tolist())(cirq.unitary(x, None)))
        return out

    def c_behaviour(self, x):
        if self._y is None:
            return None
        import numpy as np
        a, b = self._behaviour(x), self._behaviour(self._y)
        for k in a:
            va, vb = a[k], b.get(k)
            if k == 'unitary' and va is not None and vb is not None and not isinstance(va, str) and not isinstance(vb, str):
                if not np.allclose(np.array(va), np.array(vb), atol=1e-8):
                    return f'cirq.unitary differs after the round trip'
            elif va != vb:
                if k == 'str' and (' at 0x' in str(va)):
                    continue
                return f'{k} differs after the round trip: {str(va)[:120]!r} vs {str(vb)[:120]!r}'
        self.stats['behaviour_checked'] += 1
        return None

    def c_pickle(self, x, label):
        hx = hash(x) if _hashable(x) else None      # history: the hash is cached before pickling
        data = pickle.dumps(x)
        p = pickle.loads(data)
        if not (_safe_eq(p, x) and _safe_eq(x, p)):
            return f'pickle.loads(pickle.dumps(x)) = {p!r} != x'
        if hx is not None and hash(p) != hx:
            return 'hash of the unpickled value differs'
        if hx is not None and self._text is not None and len(self.xproc) < 4000:
            self.xproc.append((label, data, self._text))
        return None

    def c_copy(self, x, deep):
        hx = hash(x) if _hashable(x) else None
        c = copy.deepcopy(x) if deep else copy.copy(x)
        if not (_safe_eq(c, x) and _safe_eq(x, c)):
            return f'copy = {c!r} != x'
        if hx is not None and hash(c) != hx:
            return 'hash of the copy differs'
        return None

    def nestings(self, x):
        cirq = self.cirq
        out = [[x, {'k': x}, [x, x]]]
        op = None
        if isinstance(x, cirq.Operation):
            op = x
        elif isinstance(x, cirq.Gate):
            try:
                op = x.on(*cirq.LineQid.for_gate(x))
            except Exception:      # noqa
                op = None
        if op is not None:
            try:
                fc = cirq.FrozenCircuit(op)
                inner = cirq.CircuitOperation(fc)
                out.append([cirq.Circuit(op, inner), fc, {'a': fc, 'b': [inner, cirq.FrozenCircuit(inner, op)]}])
                self.stats['nested_in_circuits'] += 1
            except Exception:      # noqa
                self.stats['circuit_nesting_unavailable'] += 1
        return out

    def c_nested(self, x):
        cirq = self.cirq
        for n in self.nestings(x):
            text = cirq.to_json(n)
            back = cirq.read_json(json_text=text)
            if not _deep_eq(back, n):
                return f'nested value does not round-trip: {n!r}'[:400]
            if not frozen_sharing_ok(cirq, back):
                return 'a shared FrozenCircuit was duplicated by the round trip'
            if text != cirq.to_json(n, cls=_nocache_encoder(cirq)):
                self.stats['id_cache_changed_output'] += 1
                return 'the id()-keyed encoder cache changed the document'
        return None

    def check(self, name, x, origin, info=None):
        """all checks on one instance; returns list of (check, detail)"""
        fails = []
        self._y, self._text = None, None
        label = f'{name}:{origin}'
        for chk, f in (('json', lambda: self.c_json(x)), ('hash', lambda: self.c_hash(x)), ('repr', lambda: self.c_repr(x, name)),
                       ('behaviour', lambda: self.c_behaviour(x)), ('pickle', lambda: self.c_pickle(x, label)),
                       ('copy', lambda: self.c_copy(x, False)), ('deepcopy', lambda: self.c_copy(x, True)),
                       ('nested', lambda: self.c_nested(x))):
            try:
                with time_limit(20), warnings.catch_warnings():
                    warnings.simplefilter('ignore')
                    r = f()
            except _Timeout:
                r = None
                self.stats['timeouts'] += 1
            except Exception as e:      # noqa
                r = f'{type(e).__name__}: {e}'[:300]
            if r is not None:
                fails.append((chk, r))
        return fails


def _deep_eq(a, b):
    if isinstance(a, (list, tuple)) and isinstance(b, (list, tuple)):
        return len(a) == len(b) and all(_deep_eq(x, y) for x, y in zip(a, b))
    if isinstance(a, dict) and isinstance(b, dict):
        return list(a) == list(b) and all(_deep_eq(a[k], b[k]) for k in a)
    return _safe_eq(a, b)


_NOCACHE = {}


def _nocache_encoder(cirq):
    """CirqEncoder with the id()-keyed cache switched off: the reference for what the cache may not change."""
    if 'cls' not in _NOCACHE:
        from cirq.protocols.json_serialization import CirqEncoder

        class _Never(dict):
            def get(self, k, default=None):
                return None

        class NoCacheEncoder(CirqEncoder):
            def __init__(self, *a, **kw):
                super().__init__(*a, **kw)
                self._cache = _Never()
        _NOCACHE['cls'] = NoCacheEncoder
    return _NOCACHE['cls']


def stream_classes(ctx, mods, specs, pop):
    cirq = mods['cirq']
    quick = ctx.tier == 'quick'
    keep, tries, max_stored = (4, 16, 3) if quick else (16, 80, 12)
    mut = Mutator(mods, pop, ctx.rng)
    ex = Explorer(ctx, mods, pop)
    custom = custom_instances(mods, pop)
    table = dict(classes=0, factories=0, with_mutants=[], stored_only=[], skipped=[], gaps=[], custom=[],
                 factories_without_document=[], mutants=0, instances=0)
    fail_by_sig = {}
    for e in pop.entries:
        name, label = e['name'], f"{e['spec']}/{e['name']}"
        insts = [(x, f'stored[{i}]') for i, x in enumerate(e['stored'][:max_stored])]
        if e['is_type']:
            table['classes'] += 1
        else:
            table['factories'] += 1
            if not e['has_doc']:
                table['factories_without_document'].append(label)
            if not insts:
                continue
        if not insts and name in custom:
            insts = [(x, f'custom[{i}]') for i, x in enumerate(custom[name])]
            table['custom'].append(label)
        if not insts:
            if e['status']:
                table['skipped'].append(dict(cls=label, reason=e['status']))
            else:
                table['gaps'].append(label)
                ctx.violation(f'harness-gap:{label}', f'registered class {label} has neither a stored example nor a generator', dict(kind='gap', cls=label), found_input=False)
            continue
        nmut = 0
        mutated = []
        for x, origin in list(insts):
            if nmut >= keep or not hasattr(x, '_json_dict_'):
                if not hasattr(x, '_json_dict_'):
                    for i, a in enumerate(mut.alts(x)[:keep - nmut]):
                        mutated.append((a, f'{origin}~alt{i}', dict(field='<value>', value=repr(a)[:80])))
                        nmut += 1
                continue
            for m, info in mut.mutants(x, keep=keep - nmut, tries=tries):
                mutated.append((m, f'{origin}~{info["field"]}', info))
                nmut += 1
        table['mutants'] += nmut
        (table['with_mutants'] if nmut else table['stored_only']).append(label)
        for x, origin, *rest in [(a, b) for a, b in insts] + mutated:
            info = rest[0] if rest else None
            table['instances'] += 1
            fails = ex.check(name, x, origin, info)
            try:
                key = label + '|' + repr(x)[:300]
            except Exception:      # noqa
                key = label + '|' + origin
            ctx.count('classes', key, True, sample=dict(cls=label, origin=origin, mutated=info, value=_short_repr(x)))
            for chk, detail in fails:
                sig = f'class:{label}:{chk}'
                if sig not in fail_by_sig:
                    fail_by_sig[sig] = (x, origin, detail)
                    ctx.violation(sig, f'{label} ({origin}) {chk}: {detail}'[:700], _replay_of(cirq, label, x, chk, origin))
    table['repr_needs_unqualified_names'] = sorted(ex.repr_lenient_classes)
    table['checks'] = dict(ex.stats)
    for k in ('with_mutants', 'stored_only', 'custom', 'gaps'):
        table['n_' + k] = len(table[k])
    ctx.cov['classes'] = table
    return ex


def _short_repr(x):
    try:
        return repr(x)[:200]
    except Exception as e:      # noqa
        return f'<repr raises {type(e).__name__}>'


def _replay_of(cirq, label, x, chk, origin):
    d = dict(kind='class', cls=label, check=chk, origin=origin, repr=_short_repr(x))
    try:
        d['pickle_b64'] = base64.b64encode(pickle.dumps(x)).decode()
    except Exception:      # noqa
        try:
            d['json_text'] = cirq.to_json(x)
        except Exception:      # noqa
            pass
    return d
