"""C11 — JSON round-trips every value and keeps reading old documents (DESIGN 5/C11).

Split (MANIFEST level `other`):
  * proof      — the codec core (Codec/JsonMemo.v): VAL/REF memo encoder and ObjectHook decoder, value equality through
                 canonical forms, Qid ordering; tied to the code by vm_compute correspondence streams.
  * exploration — the per-class `_json_dict_`/`_from_json_dict_` pairs (Python object construction): every class registered in
                 the five resolver caches, stored examples plus generated mutants, nested with shared sub-circuits.
"""
import base64, collections, copy, datetime, inspect, io, json, os, pickle, re, signal, subprocess, sys, time, warnings
from .. import env, coq, runner

LEVEL = 'other'
META = dict(
    text='Proof part: Coq theorems over an executable model of CirqEncoder/ObjectHook (values and JSON documents as finite trees, memo keyed by equality): decode(encode v) = v for every finite value with any sharing, VAL keys dense, one VAL per distinct by-key object, every REF met after its VAL is complete; value equality via canonical forms implies equal hashes (PeriodicValue, @value_equality); Qid._cmp_tuple is a strict total order and the order the qubit classes implement is total, consistent with equality and transitive for the registered class table (checked by vm_compute on every run); measurement keys written into documents as their joined string (Codec/KeyPath.v): parse(str k) = k with every path entry kept apart for keys of any nesting depth, str(parse s) = s for every string, string equality = structural equality on the domain, refuted outside it (a path entry containing the separator). the memo as a Python dict (Codec/MemoHash.v: entries found by hash, then ==) writes the reference document and round-trips for EVERY hash function, however many distinct by-key objects share one hash, whereas a memo keyed by hash(o) alone is refuted (two circuits on the qubits -1/-2 of a line, CPython hash(-1) = hash(-2)); equal mappings (dict equality: ParamResolver, ProductState) have equal hashes when the hash reads the items as a set, an equality that identifies a key written as a name with the key written as a symbol next to a hash of the items as written is refuted, so is a hash that reads the items in insertion order. The model is compared with the implementation on every run (full JSON text of generated nestings of by-key/plain objects, decoder results incl. malformed and legacy documents, VAL/REF key sequences of real FrozenCircuit nestings, qubit comparisons and sorted(), MeasurementKey str/parse_serialized and the key field of MeasurementGate documents on a fixed grid of keys 0..4 scopes deep plus random ones). Exploration part (deciding for the per-class half): every class registered in the resolver caches of cirq, cirq_google, cirq_ionq, cirq_aqt, cirq_pasqal is instantiated from its stored examples and from generated mutants of its constructor arguments, alone and nested in lists/dicts/circuits with shared sub-circuits, and checked for JSON round trip (== and hash), repr evaluation, behaviour (unitary, keys, str), the key OBJECTS carried (path entries, name, order - not only the joined strings), pickle/copy/deepcopy incl. a second process with another hash seed (every value hashed before it is pickled; every qid of the pool, also qids made of string-hashed qids, alone and inside operations/moments/frozen circuits/circuit operations; operations and circuits with their qubits renamed to string-hashed ones); keys 0..4 scopes deep through every entry point that puts a key into a document (measurements, Pauli measurements, conditions, classical controls, scoped and repeated sub-circuits unrolled, data stores) must come back with the same path, order and rescoping behaviour from JSON, pickle and deepcopy; every stored .json/.json_inward reads to the value of its paired .repr; the id()-keyed encoder cache is stressed and audited. HASH COLLISIONS (every seed alike): pools of small FrozenCircuits (qubits at negative and large coordinates, repetitions of either sign) and of generic by-key objects are hashed, every pair of DISTINCT members with EQUAL hash() is put into one document in six positions (list, dict, circuit of sub-circuit operations, repeated, nested one level up) and must read back as itself (model: full text / VAL-REF sequence); every operation of the class stream is also moved onto two different qubits left of the origin and the two sub-circuits written into one document. SPELLINGS: equal values have equal hashes across different ways of writing the same value, with no assumption on which spellings are equal (== symmetric, != its negation, == True => same hash, one set element, found as dict key): a fixed grid of parameter assignments (keys as str or sympy.Symbol, items in both orders, whole numbers as int or float) through 19 entry points (ParamResolver, CircuitOperation param_resolver / with_params, Moment / FrozenCircuit / Circuit / tagged carriers, sweeps, ResultDict, QuantumExecutable), every stored example and explored instance against its respellings (alone and inside Moment / FrozenCircuit / CircuitOperation / tagged operation), all pairs of the instances of one class; JSON / pickle / deepcopy of every respelling. COUPLED FIELDS (every seed alike): every field holding a sequence of small positive integers (qid shapes, control shapes, masks) and every omitted constructor argument of that type is set to each member of a fixed grid of shapes (one to four entries; all qubits, single and mixed qudits; products that are / are not a power of two), and the companion fields the constructor ties to it (a count of qubits, sequences of the old length, matrices / vectors of the old width) are re-fitted when the lone change is rejected; Coq model Codec/OptField.v of a field the writer may omit and the reader fills in (round trip for every value <=> every omission is undone by the fill-in; shape next to a matrix width: always written / omitted when equal to the inferred shape round-trip, omitted whenever inferable is refuted by a single qudit of dimension 4; shape next to a count of qubits), tied to MatrixGate / IdentityGate / MeasurementGate / WaitGate documents by vm_compute. CANONICAL FORMS (every seed alike): every real-number field of the first stored example of every class goes through a fixed grid of numbers inside and outside the ranges a class may regard as canonical (negative, above 1, above a period, the boundaries 0 / 1 / 2 / -1), pairs of such fields through a smaller grid squared; mutants that compare EQUAL to their source (another spelling of one ==-class) are kept, and the value read back is judged by behaviour, not only by ==: matrix or Kraus operators, keys, parameters, shape and the public attributes named like the fields of the document. Coq model Codec/CanonForm.v of a class whose == is coarser than its behaviour (a writer that puts a representative of the ==-class down preserves an observation for every value <=> the representative behaves alike; PhasedXZGate._canonical transcribed over dyadic exponents: lands in its ranges, fixes them, is idempotent, so a document of the canonical exponents keeps == and is exact for exponents already canonical, and is refuted for behaviour by x_exponent = -1/2 through the phase of the determinant), tied to cirq.PhasedXZGate by vm_compute on a grid of 588 gates (which gates == identifies, det cirq.unitary, the exponents found in the document).',
    note='Not covered by proof: the ~210 per-class _json_dict_/_from_json_dict_ pairs (Python object construction) — explored only, on stored examples and generated mutants; classes with stored examples only, and skipped ones, are listed in the evidence. Trusted: Coq kernel; the Python adapters in vf/checks/c11.py (building Cirq objects from abstract trees, printing Gallina terms); json/pickle/copy of CPython. The model identifies sharing with equality (as CirqEncoder._memo does) and does not model object identity, so the id()-keyed CirqEncoder._cache is explored (audit + stress), not proved. Theorems are closed under the global context.',
    technique='Rocq/Coq proof over an executable Gallina model of the codec core + vm_compute correspondence; typed mutation-based exploration of the registered class population',
)

VENDORS = ('cirq_google', 'cirq_ionq', 'cirq_aqt', 'cirq_pasqal')
SPEC_MODULES = ['cirq.protocols', 'cirq_google', 'cirq_ionq', 'cirq_aqt', 'cirq_pasqal']


# ------------------------------------------------------------------------------------------------ helpers
class _Timeout(Exception):
    pass


class time_limit:
    def __init__(self, secs):
        self.secs = secs

    def _h(self, *a):
        raise _Timeout()

    def __enter__(self):
        self.old = signal.signal(signal.SIGALRM, self._h)
        signal.setitimer(signal.ITIMER_REAL, self.secs)

    def __exit__(self, *a):
        signal.setitimer(signal.ITIMER_REAL, 0)
        signal.signal(signal.SIGALRM, self.old)
        return False


def gstr(s):
    assert all(32 <= ord(c) < 127 for c in s), s
    return '"' + s.replace('"', '""') + '"'


def g_value(v):
    """abstract value (python tuples) -> Gallina term of type value"""
    k = v[0]
    if k == 'null':
        return 'VNull'
    if k == 'num':
        return f'(VNum {coq.zlit(v[1])})'
    if k == 'str':
        return f'(VStr {gstr(v[1])})'
    if k == 'arr':
        t = 'VNil'
        for x in reversed(v[1]):
            t = f'(VCons {g_value(x)} {t})'
        return f'(VArr {t})'
    if k == 'dict':
        return f'(VDict {g_fields(v[1])})'
    if k == 'obj':
        return f'(VObj {gstr(v[1])} {g_fields(v[2])})'
    raise ValueError(v)


def g_fields(fs):
    t = 'VFNil'
    for k, x in reversed(fs):
        t = f'(VFCons {gstr(k)} {g_value(x)} {t})'
    return t


def g_json(j):
    """parsed JSON (object_pairs_hook=list of pairs wrapped as ('o', pairs)) -> Gallina term of type json"""
    if j is None:
        return 'JNull'
    if isinstance(j, bool):
        raise ValueError('bool not in the model')
    if isinstance(j, int):
        return f'(JNum {coq.zlit(j)})'
    if isinstance(j, str):
        return f'(JStr {gstr(j)})'
    if isinstance(j, list):
        t = 'JNil'
        for x in reversed(j):
            t = f'(JCons {g_json(x)} {t})'
        return f'(JArr {t})'
    if isinstance(j, tuple) and j[0] == 'o':
        t = 'JFNil'
        for k, x in reversed(j[1]):
            t = f'(JFCons {gstr(k)} {g_json(x)} {t})'
        return f'(JObj {t})'
    raise ValueError(j)


def parse_json_ordered(text):
    return json.loads(text, object_pairs_hook=lambda pairs: ('o', pairs))


def dump_json_ordered(j):
    if isinstance(j, tuple) and j[0] == 'o':
        return '{' + ', '.join(json.dumps(k) + ': ' + dump_json_ordered(x) for k, x in j[1]) + '}'
    if isinstance(j, list):
        return '[' + ', '.join(dump_json_ordered(x) for x in j) + ']'
    return json.dumps(j)


def text_events(text):
    """VAL/REF keys of a cirq.to_json text in document order."""
    return [(m.group(1) == 'VAL', int(m.group(2)))
            for m in re.finditer(r'"cirq_type":\s*"(VAL|REF)",\s*"key":\s*(\d+)', text)]


CASES_HEADER = ('From Coq Require Import ZArith List Bool String.\nFrom VF Require Import Base.Harness Codec.JsonMemo.\n'
                'Import ListNotations.\nOpen Scope string_scope.\nOpen Scope Z_scope.\n')


# ------------------------------------------------------------------------------------------------ generic classes
def make_generic_classes(cirq):
    """Plain and by-key classes whose fields are arbitrary: the code's codec core without any per-class logic."""
    def freeze(x):
        if isinstance(x, list):
            return ('l',) + tuple(freeze(y) for y in x)
        if isinstance(x, dict):
            return ('d',) + tuple((k, freeze(y)) for k, y in x.items())
        return x

    class Base:
        def __init__(self, **fields):
            self.fields = fields

        def _json_dict_(self):
            return dict(self.fields)

        @classmethod
        def _json_namespace_(cls):
            return 'vf'

        def __eq__(self, other):
            return type(other) is type(self) and freeze(self.fields) == freeze(other.fields)

        def __ne__(self, other):
            return not self == other

        def __hash__(self):
            return hash((type(self).__name__, freeze(self.fields)))

        def __repr__(self):
            return f'{type(self).__name__}({self.fields!r})'

    classes = {}
    for name in ('P0', 'P1'):
        classes['vf.' + name] = type(name, (Base,), {})
    for name in ('K0', 'K1'):
        classes['vf.' + name] = type(name, (Base, cirq.SerializableByKey), {})
    return classes


def gen_generic_value(rng, pool, depth):
    """abstract value; by-key objects are reused from `pool` to create sharing."""
    r = rng.random()
    if depth <= 0 or r < 0.18:
        c = rng.random()
        if c < 0.45:
            return ('num', rng.choice([0, 1, 2, 3, -7, 2 ** 70, -1, -2, M61]))
        if c < 0.85:
            return ('str', rng.choice(['a', 'b', 'VALUE', 'key', '']))
        return ('null',)
    if pool and r < 0.42:
        return rng.choice(pool)
    if r < 0.55:
        return ('arr', [gen_generic_value(rng, pool, depth - 1) for _ in range(rng.randint(0, 3))])
    if r < 0.65:
        ks = rng.sample(['a', 'b', 'c', 'key', 'val'], rng.randint(0, 3))
        return ('dict', [(k, gen_generic_value(rng, pool, depth - 1)) for k in ks])
    tag = rng.choice(['vf.K0', 'vf.K0', 'vf.K1', 'vf.P0', 'vf.P1'])
    ks = rng.sample(['a', 'b', 'c', 'key', 'val', 'obj'], rng.randint(0, 3))
    v = ('obj', tag, [(k, gen_generic_value(rng, pool, depth - 1)) for k in ks])
    if tag.startswith('vf.K'):
        pool.append(v)
    return v


def realise_generic(v, classes):
    k = v[0]
    if k == 'null':
        return None
    if k in ('num', 'str'):
        return v[1]
    if k == 'arr':
        return [realise_generic(x, classes) for x in v[1]]
    if k == 'dict':
        return {kk: realise_generic(x, classes) for kk, x in v[1]}
    return classes[v[1]](**{kk: realise_generic(x, classes) for kk, x in v[2]})


def abstract_generic(o, classes):
    """python object read back by read_json -> abstract value"""
    if o is None:
        return ('null',)
    if isinstance(o, bool):
        raise ValueError('bool')
    if isinstance(o, int):
        return ('num', o)
    if isinstance(o, str):
        return ('str', o)
    if isinstance(o, list):
        return ('arr', [abstract_generic(x, classes) for x in o])
    if isinstance(o, dict):
        return ('dict', [(k, abstract_generic(x, classes)) for k, x in o.items()])
    for tag, c in classes.items():
        if type(o) is c:
            return ('obj', tag, [(k, abstract_generic(x, classes)) for k, x in o.fields.items()])
    raise ValueError(repr(o))


def sharing_ok(o, is_key_obj, seen=None):
    """In a decoded structure, equal by-key objects must be ONE object."""
    seen = {} if seen is None else seen
    stack, ok = [o], True
    visited = set()
    while stack:
        x = stack.pop()
        if id(x) in visited:
            continue
        visited.add(id(x))
        if is_key_obj(x):
            if x in seen and seen[x] is not x:
                ok = False
            seen.setdefault(x, x)
        if isinstance(x, (list, tuple)):
            stack.extend(x)
        elif isinstance(x, dict):
            stack.extend(x.values())
        elif hasattr(x, 'fields') and isinstance(getattr(x, 'fields'), dict):
            stack.extend(x.fields.values())
    return ok


def mutate_doc(rng, j):
    """Damage a document: swap two array members (REF before VAL), change a key, drop a member, retag."""
    arrays, objs = [], []

    def walk(x):
        if isinstance(x, list):
            arrays.append(x)
            for y in x:
                walk(y)
        elif isinstance(x, tuple):
            objs.append(x)
            for _, y in x[1]:
                walk(y)
    j = copy.deepcopy(j)
    walk(j)
    kind = rng.choice(['swap', 'key', 'drop', 'retag', 'swapf'])
    if kind == 'swap':
        c = [a for a in arrays if len(a) >= 2]
        if c:
            a = rng.choice(c)
            i, k = rng.sample(range(len(a)), 2)
            a[i], a[k] = a[k], a[i]
    elif kind == 'swapf':
        c = [o for o in objs if len(o[1]) >= 2 and not any(k == 'cirq_type' for k, _ in o[1])]
        if c:
            o = rng.choice(c)
            i, k = rng.sample(range(len(o[1])), 2)
            o[1][i], o[1][k] = o[1][k], o[1][i]
    elif kind == 'key':
        c = [o for o in objs if dict(o[1]).get('cirq_type') in ('VAL', 'REF')]
        if c:
            o = rng.choice(c)
            for idx, (k, x) in enumerate(o[1]):
                if k == 'key':
                    o[1][idx] = ('key', x + rng.choice([1, -1, 5]))
    elif kind == 'drop':
        c = [o for o in objs if dict(o[1]).get('cirq_type') in ('VAL', 'REF')]
        if c:
            o = rng.choice(c)
            del o[1][rng.randrange(1, len(o[1]))]
    else:
        c = [o for o in objs if dict(o[1]).get('cirq_type') == 'REF']
        if c:
            o = rng.choice(c)
            o[1][0] = ('cirq_type', rng.choice(['_SerializedKey', 'VAL', 5, None]))
    return j


def legacy_doc(rng, pool_vals, top, classes):
    """A document in the legacy context format: contexts first, keys inside."""
    # every by-key abstract object gets a context entry in dependency order; occurrences become _SerializedKey
    order = []

    def collect(v):
        if v[0] == 'arr':
            for x in v[1]:
                collect(x)
        elif v[0] == 'dict':
            for _, x in v[1]:
                collect(x)
        elif v[0] == 'obj':
            for _, x in v[2]:
                collect(x)
            if v[1].startswith('vf.K') and v not in order:
                order.append(v)
    collect(top)
    keys = {id(o): i + 1 for i, o in enumerate(order)}
    keyof = lambda v: next(i + 1 for i, o in enumerate(order) if o == v)

    def enc(v, inline=False):
        if v[0] == 'null':
            return None
        if v[0] in ('num', 'str'):
            return v[1]
        if v[0] == 'arr':
            return [enc(x) for x in v[1]]
        if v[0] == 'dict':
            return ('o', [(k, enc(x)) for k, x in v[1]])
        if v[1].startswith('vf.K') and not inline:
            return ('o', [('cirq_type', '_SerializedKey'), ('key', keyof(v))])
        return ('o', [('cirq_type', v[1])] + [(k, enc(x)) for k, x in v[2]])
    dag = [('o', [('cirq_type', '_SerializedContext'), ('key', keyof(o)), ('obj', enc(o, inline=True))]) for o in order]
    dag.append(enc(top))
    return ('o', [('cirq_type', '_ContextualSerialization'), ('object_dag', dag)])


def generic_collision_grid(cirq):
    """Generic by-key objects (hash = hash of the frozen field tuple) that are distinct and hash alike, found by hashing a
    pool whose number fields range over small, negative and large integers; each pair in every position of a document."""
    classes = make_generic_classes(cirq)
    nums = [0, 1, 2, -1, -2, -3, M61, M61 + 1, -M61, 2 * M61]
    K = lambda tag, fs: ('obj', tag, fs)
    pool = [K(t, [('a', ('num', n))]) for t in ('vf.K0', 'vf.K1') for n in nums]
    pool += [K('vf.K0', [('a', K('vf.K1', [('b', ('num', n))]))]) for n in nums]
    pool += [K('vf.K1', [('key', ('num', n)), ('val', ('null',))]) for n in nums]
    pairs = colliding_pairs([(a, realise_generic(a, classes)) for a in pool], limit_per_bucket=2)
    docs = []
    for a, b in pairs:
        docs += [('arr', [a, b]), ('arr', [b, a, b, a]), ('dict', [('p', a), ('q', ('arr', [b, a]))]),
                 ('obj', 'vf.P0', [('a', a), ('b', b), ('c', a)]),
                 ('arr', [K('vf.K1', [('obj', a)]), K('vf.K1', [('obj', b)]), b])]
    return pairs, docs


def stream_memo_generic(ctx, cirq, n):
    pairs, docs = generic_collision_grid(cirq)
    st = ctx.cov.setdefault('hash_collisions', {})
    st['generic_pairs_distinct_with_equal_hash'] = len(pairs)
    st['generic_documents'] = len(docs)
    if not pairs:
        ctx.violation('harness-gap:no-colliding-generic-objects', 'the pool of generic by-key objects holds no two distinct members with equal hash()',
                      dict(kind='gap', cls='collisions'), found_input=False)
    for shard, i in enumerate(range(0, len(docs), 150)):
        _memo_generic_shard(ctx, cirq, [(v, []) for v in docs[i:i + 150]], f'coll{shard}', collisions=True)
    for shard, m in enumerate([150] * (n // 150) + ([n % 150] if n % 150 else [])):
        cases = []
        for i in range(m):
            pool = []
            if ctx.rng.random() < 0.15:
                v = gen_generic_value(ctx.rng, pool, ctx.rng.randint(1, 4))
            else:       # several members sharing one pool of by-key objects
                items = [gen_generic_value(ctx.rng, pool, ctx.rng.randint(1, 4)) for _ in range(ctx.rng.randint(2, 5))]
                v = ('arr', items) if ctx.rng.random() < 0.7 else ('dict', [(f'm{n}', x) for n, x in enumerate(items)])
            cases.append((v, pool))
        _memo_generic_shard(ctx, cirq, cases, shard)


def _memo_generic_shard(ctx, cirq, cases, shard, collisions=False):
    classes = make_generic_classes(cirq)
    resolver = lambda t: classes.get(t) if isinstance(t, str) else None
    resolvers = [resolver] + list(cirq.DEFAULT_RESOLVERS)
    is_key = lambda x: isinstance(x, cirq.SerializableByKey)
    enc_rows, dec_rows = [], []
    for i, (v, pool) in enumerate(cases):
        obj = realise_generic(v, classes)
        try:
            text = cirq.to_json(obj)
        except Exception as e:      # noqa
            ctx.violation('codec:generic-roundtrip', f'cirq.to_json(x) raises {type(e).__name__}: {e}; x = {obj!r}'[:600], dict(kind='generic', value=v))
            continue
        j = parse_json_ordered(text)
        evs = text_events(text)
        nvals = sum(1 for e in evs if e[0])
        nrefs = len(evs) - nvals
        enc_rows.append((v, j))
        ctx.count('memo_encode', g_value(v), nvals >= 1 and nrefs >= 1,
                  sample=dict(value=repr(obj)[:300], vals=nvals, refs=nrefs, events=evs[:12]))
        # property-level oracle on the real code: round trip, sharing
        try:
            back = cirq.read_json(json_text=text, resolvers=resolvers)
            bad = None if (back == obj and sharing_ok(back, is_key)) else f'the value read back differs ({back!r}) or a shared by-key object was duplicated'
        except Exception as e:      # noqa
            bad = f'read_json raises {type(e).__name__}: {e}'
        if bad:
            ctx.violation('codec:generic-roundtrip', f'read_json(to_json(x)): {bad}; x = {obj!r}'[:600], dict(kind='generic', value=v))
        # decoder: the same document, damaged documents, legacy documents
        docs = [j]
        for _ in range(2):
            docs.append(mutate_doc(ctx.rng, j))
        if i % 3 == 0:
            docs.append(legacy_doc(ctx.rng, pool, v, classes))
        for d in docs:
            dtext = dump_json_ordered(d)
            try:
                res = abstract_generic(cirq.read_json(json_text=dtext, resolvers=resolvers), classes)
            except (KeyError, ValueError, TypeError, IndexError):
                res = None
            dec_rows.append((d, res))
            ctx.count('memo_decode', dtext, 'REF' in dtext or '_SerializedKey' in dtext,
                      sample=dict(doc=dtext[:300], result='error' if res is None else 'value'))
    text = CASES_HEADER + 'Definition bk (t : string) : bool := String.prefix "vf.K" t.\n'
    text += 'Definition enc_cases : list (value * json) := [\n' + ';\n'.join(
        f'({g_value(v)}, {g_json(j)})' for v, j in enc_rows) + '].\n'
    text += ('Eval vm_compute in failing (fun c => match c with (v, j) => wf v && json_eqb (encode bk v) j end) enc_cases.\n')
    text += 'Definition dec_cases : list (json * option value) := [\n' + ';\n'.join(
        f'({g_json(d)}, {coq.opt(r, g_value)})' for d, r in dec_rows) + '].\n'
    text += 'Eval vm_compute in failing (fun c => match c with (j, r) => opt_eqb value_eqb (decode j) r end) dec_cases.\n'
    if collisions:
        # the memo as a dict over a hash with CPython's integer collisions (Codec/MemoHash.v): the same documents; and how many
        # of these documents a memo keyed by the hash alone would write differently (the grid's sensitivity)
        text = text.replace('Codec.JsonMemo.', 'Codec.JsonMemo Codec.MemoHash.', 1)
        text += ('Eval vm_compute in failing (fun c => match c with (v, j) => json_eqb (encode_dict bk py_value_hash v) j end) enc_cases.\n')
        text += ('Eval vm_compute in failing (fun c => match c with (v, j) => negb (json_eqb (encode_by_hash bk py_value_hash v) (encode bk v)) end) enc_cases.\n')
        ints = [0, 1, -1, -2, -3, 7, M61 - 1, M61, M61 + 1, -M61, -M61 - 1, 2 * M61, 2 ** 70, -2 ** 70, 2 ** 61, -2 ** 61, 12345678901234567890]
        text += 'Definition int_cases : list (Z * Z) := [' + '; '.join(f'({coq.zlit(z)}, {coq.zlit(hash(z))})' for z in ints) + '].\n'
        text += 'Eval vm_compute in failing (fun c => match c with (z, hz) => Z.eqb (py_int_hash z) hz end) int_cases.\n'
    vals = coq.parse_evals(coq.coq_eval(f'c11_generic_{ctx.seed}_{shard}', text))
    assert len(vals) == (5 if collisions else 2), vals
    if collisions:
        for idx in coq.parse_nat_list(vals[2]):
            v, j = enc_rows[idx]
            ctx.mark_broken('correspondence:memo_dict', f'model of the memo as a dict (hash, then ==) differs from cirq.to_json on {g_value(v)[:400]}: {dump_json_ordered(j)[:400]}')
        st = ctx.cov.setdefault('hash_collisions', {})
        same = len(coq.parse_nat_list(vals[3]))
        st['generic_documents_a_hash_keyed_memo_would_write_differently'] = st.get('generic_documents_a_hash_keyed_memo_would_write_differently', 0) + len(enc_rows) - same
        bad_ints = coq.parse_nat_list(vals[4])
        st['int_hash_model_agrees_with_interpreter'] = not bad_ints
        if bad_ints:
            ctx.stale_supporting.append(f'py_int_hash: this interpreter hashes integers differently from the model on {len(bad_ints)} of the sample; the collisions '
                                        'used by C11_memo_by_hash_refuted are then only those found by hashing the pool')
        if len(enc_rows) - same == 0:
            ctx.violation('harness-gap:collision-grid-insensitive', 'no document of the generic collision grid would be written differently by a memo keyed by the hash alone',
                          dict(kind='gap', cls='collisions'), found_input=False)
    for idx in coq.parse_nat_list(vals[0]):
        v, j = enc_rows[idx]
        ctx.mark_broken('correspondence:memo_encode', f'model encode differs from cirq.to_json on {g_value(v)[:400]}: {dump_json_ordered(j)[:400]}')
    for idx in coq.parse_nat_list(vals[1]):
        d, r = dec_rows[idx]
        ctx.mark_broken('correspondence:memo_decode', f'model decode differs from cirq.read_json on {dump_json_ordered(d)[:400]}: implementation gave {r}')
    mg = ctx.cov.setdefault('memo_generic', dict(encode_cases=0, decode_cases=0, decode_errors=0))
    mg['encode_cases'] += len(enc_rows)
    mg['decode_cases'] += len(dec_rows)
    mg['decode_errors'] += sum(1 for _, r in dec_rows if r is None)


# ------------------------------------------------------------------------------------------------ real circuits
M61 = 2 ** 61 - 1      # CPython reduces integer hashes modulo this prime


_ATOMS = {}


def circ_atoms(cirq):
    """Gate operations used as leaves of the abstract circuit trees.  Coordinates are any integers: the non-negative ones of
    the upstream examples, negative ones (a line/grid that extends left of / above the origin) and large ones."""
    if id(cirq) not in _ATOMS:
        L, G = cirq.LineQubit, cirq.GridQubit
        atoms = [cirq.X(L(i)) for i in range(4)]            # 0..3: as in replay files written by earlier versions
        atoms += [cirq.X(L(i)) for i in (-1, -2, -3, M61, M61 + 1, -M61)]
        atoms += [cirq.X(G(r, c)) for r in (-2, -1, 0) for c in (-2, -1, 0)]
        atoms += [cirq.Y(L(0)), cirq.Z(L(0)) ** 0.5, cirq.X(cirq.NamedQubit('a')), 
                  cirq.IdentityGate(qid_shape=(3,)).on(cirq.LineQid(-1, 3)), cirq.IdentityGate(qid_shape=(3,)).on(cirq.LineQid(-2, 3))]
        assert len(atoms) == N_ATOMS
        _ATOMS[id(cirq)] = atoms
    return _ATOMS[id(cirq)]


N_ATOMS = 4 + 6 + 9 + 5
REPS = [1, 2, 3, -1, -2, -3]


def _gen_atom(rng):
    return ('op', rng.randrange(4) if rng.random() < 0.6 else rng.randrange(N_ATOMS))


def _gen_reps(rng):
    return rng.choice([1, 2, 3]) if rng.random() < 0.6 else rng.choice(REPS)


def gen_circ_tree(rng, pool, depth):
    """abstract nesting of FrozenCircuits (by key), CircuitOperations, Circuits, lists and dicts"""
    r = rng.random()
    if depth <= 0:
        return _gen_atom(rng)
    if pool and r < 0.35:
        return rng.choice(pool)
    if r < 0.60:
        kids = [gen_circ_op(rng, pool, depth - 1) for _ in range(rng.randint(0, 3))]
        tags = rng.choice([(), (), ('t0',), ('t0', 't1')])
        v = ('fc', kids, tags)
        pool.append(v)
        return v
    if r < 0.72:
        return ('circ', [gen_circ_op(rng, pool, depth - 1) for _ in range(rng.randint(0, 3))])
    if r < 0.88:
        return ('list', [gen_circ_tree(rng, pool, depth - 1) for _ in range(rng.randint(1, 3))])
    ks = rng.sample(['a', 'b', 'c'], rng.randint(1, 3))
    return ('dict', [(k, gen_circ_tree(rng, pool, depth - 1)) for k in ks])


def gen_circ_op(rng, pool, depth):
    if depth <= 0 or rng.random() < 0.4:
        return _gen_atom(rng)
    fcs = [p for p in pool if p[0] == 'fc']
    if fcs and rng.random() < 0.5:
        fc = rng.choice(fcs)
    else:
        fc = ('fc', [gen_circ_op(rng, pool, depth - 1) for _ in range(rng.randint(0, 2))], rng.choice([(), (), ('t0',)]))
        pool.append(fc)
    return ('cop', fc, _gen_reps(rng))


def realise_circ(v, cirq):
    k = v[0]
    if k == 'op':
        return circ_atoms(cirq)[v[1]]
    if k == 'cop':
        return cirq.CircuitOperation(realise_circ(v[1], cirq), repetitions=v[2])
    if k == 'fc':
        return cirq.FrozenCircuit([cirq.Moment(realise_circ(x, cirq)) for x in v[1]], tags=v[2])
    if k == 'circ':
        return cirq.Circuit([cirq.Moment(realise_circ(x, cirq)) for x in v[1]])
    if k == 'list':
        return [realise_circ(x, cirq) for x in v[1]]
    return {kk: realise_circ(x, cirq) for kk, x in v[1]}


def colliding_pairs(items, limit_per_bucket=6):
    """items: (abstract, realised object).  Pairs of DISTINCT objects with EQUAL hash(), found by hashing the pool (no
    knowledge of the hash function is used: whatever collides in this interpreter is what a dict/memo keyed by the
    objects must keep apart)."""
    buckets = collections.OrderedDict()
    for a, o in items:
        buckets.setdefault(hash(o), []).append((a, o))
    out = []
    for h, members in buckets.items():
        n = 0
        for i in range(len(members)):
            for j in range(i + 1, len(members)):
                if n < limit_per_bucket and members[i][1] != members[j][1]:
                    out.append((members[i][0], members[j][0]))
                    n += 1
    return out


def circuit_collision_grid(cirq):
    """Documents that hold two distinct sub-circuits whose hashes coincide, in every position a by-key object can take
    (the same for every seed).  The pool: every atom alone in a FrozenCircuit, tagged, wrapped once more, and one inner
    circuit repeated r times for every r in REPS."""
    one = lambda a, tags=(): ('fc', [a], tags)
    pool = [one(('op', i)) for i in range(N_ATOMS)]
    pool += [one(('op', i), ('t0',)) for i in range(4, 10)]
    pool += [one(('cop', one(('op', 0)), r)) for r in REPS]
    pool += [one(('cop', one(('op', i)), 1)) for i in range(N_ATOMS)]
    pairs = colliding_pairs([(a, realise_circ(a, cirq)) for a in pool], limit_per_bucket=2)
    docs = []
    for a, b in pairs:
        docs += [('list', [a, b]), ('list', [b, a, b, a]),
                 ('list', [('cop', a, 1), ('cop', b, 1)]),
                 ('dict', [('p', a), ('q', ('list', [b, a]))]),
                 ('list', [('circ', [('cop', a, 1), ('cop', b, 2), ('cop', a, 2)])]),
                 ('list', [one(('cop', a, 2)), one(('cop', b, 2)), b])]
    return pairs, docs


def model_circ(v):
    """the model value: atoms for gate operations, objects for everything that can hold a by-key circuit"""
    k = v[0]
    if k == 'op':
        return ('num', v[1])
    if k == 'cop':
        return ('obj', 'CircuitOperation', [('circuit', model_circ(v[1])), ('repetitions', ('num', v[2]))])
    if k in ('fc', 'circ'):
        moments = ('arr', [('obj', 'Moment', [('operations', ('arr', [model_circ(x)]))]) for x in v[1]])
        fs = [('moments', moments)]
        if k == 'fc' and v[2]:
            fs.append(('tags', ('arr', [('str', t) for t in v[2]])))
        return ('obj', 'FrozenCircuit' if k == 'fc' else 'Circuit', fs)
    if k == 'list':
        return ('arr', [model_circ(x) for x in v[1]])
    return ('dict', [(kk, model_circ(x)) for kk, x in v[1]])


def frozen_sharing_ok(cirq, o):
    seen, ok, stack, visited = {}, True, [o], set()
    while stack:
        x = stack.pop()
        if id(x) in visited:
            continue
        visited.add(id(x))
        if isinstance(x, cirq.FrozenCircuit):
            if x in seen and seen[x] is not x:
                ok = False
            seen.setdefault(x, x)
            stack.extend(op for m in x.moments for op in m.operations)
        elif isinstance(x, cirq.Circuit):
            stack.extend(op for m in x.moments for op in m.operations)
        elif isinstance(x, cirq.CircuitOperation):
            stack.append(x.circuit)
        elif isinstance(x, (list, tuple)):
            stack.extend(x)
        elif isinstance(x, dict):
            stack.extend(x.values())
    return ok


def stream_memo_circuits(ctx, cirq, n):
    pairs, docs = circuit_collision_grid(cirq)
    st = ctx.cov.setdefault('hash_collisions', {})
    st['circuit_pairs_distinct_with_equal_hash'] = len(pairs)
    st['circuit_documents'] = len(docs)
    st['circuit_pair_samples'] = [[repr(realise_circ(a, cirq))[:120], repr(realise_circ(b, cirq))[:120]] for a, b in pairs[:4]]
    if not pairs:
        ctx.violation('harness-gap:no-colliding-frozen-circuits', 'the pool of small FrozenCircuits holds no two distinct members with equal hash(): '
                      'documents with colliding by-key sub-circuits are not exercised', dict(kind='gap', cls='collisions'), found_input=False)
    for shard, i in enumerate(range(0, len(docs), 300)):
        _memo_circuits_shard(ctx, cirq, docs[i:i + 300], f'coll{shard}', 'memo_collisions')
    for shard, m in enumerate([300] * (n // 300) + ([n % 300] if n % 300 else [])):
        trees = []
        for i in range(m):
            pool = []
            trees.append(('list', [gen_circ_tree(ctx.rng, pool, ctx.rng.randint(2, 4)) for _ in range(ctx.rng.randint(1, 4))]))
        _memo_circuits_shard(ctx, cirq, trees, shard, 'memo_circuits')


def circuit_doc_failure(cirq, obj, text=None):
    """The property on one document of nested circuits: None, or what fails."""
    try:
        text = cirq.to_json(obj) if text is None else text
        back = cirq.read_json(json_text=text)
    except Exception as e:      # noqa
        return f'raises {type(e).__name__}: {e}'[:300]
    if not _deep_eq(back, obj):
        return _one_line(f'the value read back differs from the value written: read back {back!r}')[:420]
    if not frozen_sharing_ok(cirq, back):
        return 'a shared FrozenCircuit was duplicated'
    return None


def _memo_circuits_shard(ctx, cirq, trees, shard, stream):
    rows = []
    for v in trees:
        obj = realise_circ(v, cirq)
        try:
            text = cirq.to_json(obj)
        except Exception as e:      # noqa
            ctx.violation('codec:circuit-roundtrip', f'cirq.to_json(x) raises {type(e).__name__}: {e}; x = {obj!r}'[:600], dict(kind='circuit_tree', tree=v))
            continue
        evs = text_events(text)
        rows.append((v, evs))
        nvals = sum(1 for e in evs if e[0])
        ctx.count(stream, g_value(model_circ(v)), nvals >= 2 and (len(evs) > nvals or stream == 'memo_collisions'),
                  sample=dict(value=repr(obj)[:300], events=evs[:16]))
        bad = circuit_doc_failure(cirq, obj, text)
        if bad:
            note = ' for x holding two distinct sub-circuits whose hash() values coincide:' if stream == 'memo_collisions' else ''
            ctx.violation('codec:circuit-roundtrip', _one_line(f'read_json(to_json(x)){note} {bad}; x = {obj!r}')[:900], dict(kind='circuit_tree', tree=v))
    text = CASES_HEADER + 'Definition bk (t : string) : bool := String.eqb t "FrozenCircuit".\n'
    text += 'Definition ev_cases : list (value * list (bool * Z)) := [\n' + ';\n'.join(
        '(%s, [%s])' % (g_value(model_circ(v)), '; '.join(f'({"true" if b else "false"}, {coq.zlit(k)})' for b, k in evs))
        for v, evs in rows) + '].\n'
    text += ('Eval vm_compute in failing (fun c => match c with (v, evs) => wf v && '
             'list_eqb (pair_eqb Bool.eqb Z.eqb) (doc_events (encode bk v)) evs && refs_ok [] (hook_events (encode bk v)) end) ev_cases.\n')
    vals = coq.parse_evals(coq.coq_eval(f'c11_circ_{ctx.seed}_{shard}', text))
    assert len(vals) == 1, vals
    for idx in coq.parse_nat_list(vals[0]):
        v, evs = rows[idx]
        ctx.mark_broken('correspondence:' + stream, f'VAL/REF key sequence of cirq.to_json differs from the model on {v}: implementation {evs}')
        # spec-level oracle: keys dense, every REF after its VAL closed, document reads back
        obj = realise_circ(v, cirq)
        ks = [k for b, k in evs if b]
        if ks != list(range(len(ks))):
            ctx.violation('codec:keys-not-dense', f'VAL keys {ks} are not 0..n-1 for {obj!r}'[:500], dict(kind='circuit_tree', tree=v))


# ------------------------------------------------------------------------------------------------ corpus
def eval_namespace(mods):
    import numpy as np, pandas as pd, sympy, networkx as nx
    ns = {'cirq': mods['cirq'], 'pd': pd, 'sympy': sympy, 'np': np, 'datetime': datetime, 'nx': nx}
    for m in VENDORS:
        ns[m] = mods[m]
    return ns


def load_specs():
    from cirq.testing.json import spec_for
    return [spec_for(m) for m in SPEC_MODULES]


def stream_corpus(ctx, mods, specs):
    cirq = mods['cirq']
    from cirq._compat import proper_eq
    ns = eval_namespace(mods)
    stats = collections.Counter()
    for sp in specs:
        for key in sp.all_test_data_keys():
            name = os.path.basename(key)
            for rext, jext in (('.repr', '.json'), ('.repr_inward', '.json_inward')):
                rp, jp = key + rext, key + jext
                if not os.path.exists(rp) and not os.path.exists(jp):
                    continue
                stats['documents'] += 1
                if not (os.path.exists(rp) and os.path.exists(jp)):
                    stats['unpaired'] += 1
                    ctx.violation(f'corpus:unpaired:{sp.name}/{name}{jext}', f'{sp.name}/{name}: {rext} / {jext} pair incomplete',
                                  dict(kind='corpus', path=key, ext=jext))
                    continue
                jtext = open(jp).read()
                legacy = '_ContextualSerialization' in jtext
                stats['inward' if jext == '.json_inward' else 'current'] += 1
                stats['legacy_context_format'] += int(legacy)
                try:
                    with warnings.catch_warnings():
                        warnings.simplefilter('ignore')
                        want = eval(open(rp).read(), dict(ns), {})
                        got = cirq.read_json(json_text=jtext)
                    ok = proper_eq(got, want)
                    detail = '' if ok else f'read {got!r}, stored repr gives {want!r}'
                except Exception as e:     # noqa
                    ok, detail = False, f'{type(e).__name__}: {e}'
                ctx.count('corpus', f'{sp.name}/{name}{jext}', True,
                          sample=dict(document=f'{sp.name}/{name}{jext}', reads_to_repr=ok))
                if not ok:
                    ctx.violation(f'corpus:{sp.name}/{name}{jext}', f'stored document {sp.name}/{name}{jext} no longer reads to the value of its {rext}: {detail}'[:700],
                                  dict(kind='corpus', path=key, ext=jext))
    ctx.cov['corpus'] = dict(stats)


# ------------------------------------------------------------------------------------------------ run
def run(ctx):
    mods = env.import_cirq(vendors=VENDORS)
    cirq = mods['cirq']
    quick = ctx.tier == 'quick'
    ctx.rule = ('PROOF PART (codec core): model vs implementation on generated trees of plain/by-key objects with reuse of by-key '
                'objects (full JSON text compared; non-trivial = at least one VAL and one REF), the decoder on those documents, on '
                'damaged documents (swapped members, changed/dropped keys, retagged) and on legacy context documents, and the VAL/REF '
                'key sequence of real nestings of FrozenCircuit/CircuitOperation/Circuit/list/dict (non-trivial = >=2 VAL and >=1 REF). '
                'EXPLORATION PART (per-class, deciding for that half): see coverage.classes — every registered class, stored .repr examples + '
                'typed mutants of JSON fields and constructor arguments, nested in lists/dicts/circuits with shared sub-circuits; every stored '
                '.json/.json_inward against its .repr; cases are distinct by canonical text. KEYS: a fixed grid of (path, name) with 0..4 path entries '
                '(the same for every seed) plus random ones, through 18 entry points; non-trivial = a key with >= 2 path entries. CROSS-PROCESS: '
                'what the class stream pickled after hashing, plus (every seed alike) each qid of the pool in 9 containers and renamed-qubit variants. '
                'COLLISIONS (every seed alike): pairs of distinct by-key objects with equal hash() found by hashing fixed pools (coverage.hash_collisions), each pair in '
                '5-6 document shapes; non-trivial = >= 2 VAL. SPELLINGS (every seed alike for the grid and the stored examples): families of values written in '
                'different spellings; non-trivial = at least one pair of the family compares equal (coverage.spellings). COUPLED FIELDS (every seed alike): each sequence-of-small-integers '
                'field of the first stored examples of every class through SHAPE_GRID with companion fields re-fitted (coverage.classes.shape_grid, * = re-fitted), and the '
                'optional_shapes stream: 7 gate entry points x the grid x gate / operation / circuit; non-trivial = a shape that is not all qubits. '
                'CANONICAL FORMS (every seed alike): each real-number field of the first stored example of every class through NUMBER_GRID, pairs through NUMBER_PAIR_GRID^2 '
                '(coverage.classes.number_grid; mutants equal to their source are kept; json / hash / repr / behaviour in the quick tier, all checks in the thorough tier), and the canonical_forms '
                'stream: 588 PhasedXZGates over dyadic exponents; non-trivial = exponents outside the canonical ranges.')
    ctx.assumptions += ['vf/checks/c11.py adapters: abstract tree -> Cirq objects / Gallina terms, JSON text -> Gallina json',
                        'CPython json/pickle/copy, numpy/pandas/sympy equality as used by cirq._compat.proper_eq',
                        'sharing is identified with equality (CirqEncoder._memo is keyed by ==/hash); object identity (the id()-keyed _cache) is explored, not modelled']
    ctx.cov['explanation'] = (
        'Level `other` = proof + exploration, kept apart. PROVED (Coq, closed under the global context, re-compiled on every run and tied to the '
        'code by vm_compute correspondence): the codec core — decode(encode v) = v for every finite value with arbitrary sharing, VAL keys dense, '
        'one VAL per distinct by-key object, every REF met after its VAL completed; equal canonical forms => equal hashes; Qid order total / '
        'consistent with equality / transitive for the registered class table. EXPLORED (deciding for the per-class half, not proved): the '
        'per-class _json_dict_/_from_json_dict_ pairs, __repr__, __getstate__/pickle/copy and hash caches of every registered class, on stored '
        'examples + typed mutants (coverage.classes lists classes with mutants / stored-only / custom / skipped), the stored corpus of documents '
        '(coverage.corpus), the id()-keyed encoder cache (coverage.id_cache) and pickles opened under another hash seed (coverage.cross_process).')
    ctx.set_obligations(coq.compile_props('C11'))
    specs = load_specs()
    secs = ctx.cov.setdefault('stream_seconds', {})

    def timed(name, f, *a):
        t = time.time()
        r = f(*a)
        secs[name] = round(time.time() - t, 1)
        return r
    secs['props'] = round(time.time() - ctx.t0, 1)
    timed('memo_generic', stream_memo_generic, ctx, cirq, 300 if quick else 3000)
    timed('memo_circuits', stream_memo_circuits, ctx, cirq, 300 if quick else 3000)
    timed('corpus', stream_corpus, ctx, mods, specs)
    pop = timed('population', Population, mods, specs)
    ex = timed('classes', stream_classes, ctx, mods, specs, pop)
    timed('qids', stream_qids, ctx, mods, pop)
    timed('id_cache', stream_id_cache, ctx, mods, pop, ex.instances)
    timed('keys', stream_keys, ctx, mods)
    timed('optional_shapes', stream_optional_shapes, ctx, mods)
    timed('canonical_forms', stream_canonical_forms, ctx, mods)
    timed('spellings', stream_spellings, ctx, mods, pop, ex)
    timed('xproc_extras', xproc_extras, ctx, mods, pop, ex)
    timed('xproc', stream_xproc, ctx, mods, ex)


def replay(ctx, data):
    mods = env.import_cirq(vendors=VENDORS)
    cirq = mods['cirq']
    k = data.get('kind')
    if k == 'generic':
        classes = make_generic_classes(cirq)
        obj = realise_generic(_tuplify(data['value']), classes)
        try:
            back = cirq.read_json(json_text=cirq.to_json(obj), resolvers=[lambda t: classes.get(t) if isinstance(t, str) else None] + list(cirq.DEFAULT_RESOLVERS))
        except Exception as e:      # noqa
            print('value', obj, '\nread_json raises', type(e).__name__, e)
            return False
        print('value', obj, '\nback ', back)
        return back == obj and sharing_ok(back, lambda x: isinstance(x, cirq.SerializableByKey))
    if k == 'circuit_tree':
        obj = realise_circ(_tuplify(data['tree']), cirq)
        try:
            text = cirq.to_json(obj)
        except Exception as e:      # noqa
            print('to_json raises', type(e).__name__, e)
            return False
        print('value ', repr(obj)[:1500], '\nevents', text_events(text))
        bad = circuit_doc_failure(cirq, obj, text)
        if bad:
            print('read_json(to_json(x))', bad)
        ks = [kk for b, kk in text_events(text) if b]
        return bad is None and ks == list(range(len(ks)))
    if k == 'corpus':
        from cirq._compat import proper_eq
        rext = '.repr' if data['ext'] == '.json' else '.repr_inward'
        want = eval(open(data['path'] + rext).read(), dict(eval_namespace(mods)), {})
        got = cirq.read_json(json_text=open(data['path'] + data['ext']).read())
        print('stored repr:', repr(want)[:400], '\nread       :', repr(got)[:400])
        return proper_eq(got, want)
    if k == 'class':
        x = pickle.loads(base64.b64decode(data['pickle_b64'])) if 'pickle_b64' in data else cirq.read_json(json_text=data['json_text'])
        ex = Explorer(ctx, mods, None)
        fails = ex.check(data['cls'].split('/')[-1], x, data.get('origin', 'replay'))
        print('value:', _short_repr(x))
        for c, d in fails:
            print(f'  {c}: {d}'[:500])
        return not any(c == data['check'] or (data['check'] in ('hash', 'behaviour', 'nested') and c == 'json') for c, _ in fails)
    if k == 'qids':
        qs = pickle.loads(base64.b64decode(data['pickle_b64']))
        ok = True
        try:
            sorted(qs)
            [(a < b, a > b, a <= b, a >= b) for a in qs for b in qs]
        except Exception as e:      # noqa
            print('qids', qs, 'comparison raises', type(e).__name__, e)
            return False
        for a in qs:
            for b in qs:
                lt, gt, eq = bool(a < b), bool(a > b), bool(a == b)
                ok &= [lt, eq, gt].count(True) == 1 and (not eq or hash(a) == hash(b))
                for c in qs:
                    ok &= not (a < b and b < c and not a < c)
        s1, s2 = sorted(qs), sorted(reversed(qs))
        ok &= all(x == y for x, y in zip(s1, s2))
        print('qids', qs, 'sorted', s1)
        return bool(ok)
    if k == 'xproc':
        ex = Explorer(ctx, mods, None)
        # the failing input is the value and its history (hashed, then pickled), not the bytes some other tree wrote:
        # rebuild the value on the tree under test, hash it, pickle it here, open it in the second process
        x = cirq.read_json(json_text=data['json_text'])
        hash(x)
        ex.xproc = [(data['label'], pickle.dumps(x), data['json_text'])]
        before = len(ctx.violations)
        stream_xproc(ctx, mods, ex)
        return len(ctx.violations) == before and not ctx.known_hits
    if k == 'keypath':
        x = key_entries(cirq)[data['entry']](tuple(data['path']), data['name'])
        fails = key_value_failures(cirq, eval_namespace(mods), x)
        print('value:', _short_repr(x), '\nkeys :', key_structure(cirq, x))
        for how, d in fails:
            print(f'  {how}: {d}'[:500])
        return not fails
    if k == 'optshape':
        kind, build = shape_field_entries(cirq, ctx.rng)[data['entry']]
        sh = tuple(data['shape'])
        g = build(sh)
        x = {'gate': g, 'operation': g.on(*cirq.LineQid.for_qid_shape(sh)), 'circuit': cirq.Circuit(g.on(*cirq.LineQid.for_qid_shape(sh)))}[data['form']]
        print('value:', _short_repr(x))
        try:
            text = cirq.to_json(x)
            y = cirq.read_json(json_text=text)
        except Exception as e:      # noqa
            print('read_json(to_json(x)) raises', type(e).__name__, e)
            return False
        print('document field qid_shape:', _find_gate_doc(json.loads(text)).get('qid_shape'), '\nshape read back:', cirq.qid_shape(y))
        return tuple(cirq.qid_shape(y)) == sh and _safe_eq(y, x) and _safe_eq(x, y)
    if k == 'eqhash':
        if 'entry' in data:
            import sympy
            sp = assignment_spellings(sympy, spelling_assignments(sympy)[data['assignment']])
            family = []
            for m in sp:
                try:
                    family.append(spelling_entries(mods)[data['entry']](dict(m)))
                except Exception:      # noqa
                    pass
        else:
            family = pickle.loads(base64.b64decode(data['pickle_b64']))
        fails = family_failures(cirq, data['cls'], family)
        for kind, text, _ in fails[:6]:
            print(f'  {kind}: {text}'[:600])
        return not fails
    if k == 'id_cache':
        specs = load_specs()
        pop = Population(mods, specs)
        before = len(ctx.violations)
        stream_id_cache(ctx, mods, pop, [])
        return len(ctx.violations) == before and not ctx.broken
    print('nothing to replay for kind', k)
    return False


def _tuplify(x):
    if isinstance(x, list):
        if x and isinstance(x[0], str) and x[0] in ('null', 'num', 'str', 'arr', 'dict', 'obj', 'op', 'cop', 'fc', 'circ', 'list'):
            if x[0] in ('arr', 'list'):
                return (x[0], [_tuplify(y) for y in x[1]])
            if x[0] == 'dict':
                return ('dict', [(k, _tuplify(y)) for k, y in x[1]])
            if x[0] == 'obj':
                return ('obj', x[1], [(k, _tuplify(y)) for k, y in x[2]])
            if x[0] == 'cop':
                return ('cop', _tuplify(x[1]), x[2])
            if x[0] in ('fc',):
                return ('fc', [_tuplify(y) for y in x[1]], tuple(x[2]))
            if x[0] == 'circ':
                return ('circ', [_tuplify(y) for y in x[1]])
            return tuple(x)
    return x


# ------------------------------------------------------------------------------------------------ class population
def flat(o):
    return list(o) if isinstance(o, list) else [o]


class Population:
    """Every entry of the five resolver caches with its stored examples (DESIGN 5/C11, exploration part)."""

    def __init__(self, mods, specs):
        self.mods, self.cirq = mods, mods['cirq']
        self.ns = eval_namespace(mods)
        self.entries = []          # dict(spec, name, factory, is_type, stored=[objs], status)
        self.by_type = collections.defaultdict(list)
        self.all_named = {}        # (spec, file name) -> list of objects
        for sp in specs:
            for key in sp.all_test_data_keys():
                name = os.path.basename(key)
                for ext in ('.repr', '.repr_inward'):
                    if os.path.exists(key + ext):
                        try:
                            with warnings.catch_warnings():
                                warnings.simplefilter('ignore')
                                objs = flat(eval(open(key + ext).read(), dict(self.ns), {}))
                        except Exception:      # noqa  (reported by the corpus stream)
                            continue
                        self.all_named.setdefault((sp.name, name), []).extend(objs)
                        for o in objs:
                            self._harvest(o, 0)
        for sp in specs:
            for name, factory in sp.resolver_cache.items():
                status = None
                if name in sp.deprecated:
                    status = 'deprecated in upstream spec'
                elif name in sp.not_yet_serializable:
                    status = 'not_yet_serializable in upstream spec'
                elif name in getattr(sp, 'tested_elsewhere', []):
                    status = 'tested_elsewhere in upstream spec'
                is_type = isinstance(factory, type)
                named = self.all_named.get((sp.name, name), [])
                if is_type:
                    stored = list(self.by_type.get(factory, []))
                    stored += [o for o in named if isinstance(o, factory) and not any(o is s for s in stored)]
                elif '.' in name or name in ('complex',):
                    stored = list(named)        # leaf encodings (sympy.*, pandas.*, datetime, complex) registered as functions
                else:
                    stored = []                 # legacy reader functions: covered by the corpus stream only
                self.entries.append(dict(spec=sp.name, name=name, factory=factory, is_type=is_type, stored=stored,
                                         status=status, has_doc=any(os.path.exists(os.path.join(str(sp.test_data_path), name + e))
                                                                    for e in ('.json', '.json_inward'))))

    def _harvest(self, o, depth):
        """stored examples, and the objects nested inside them, grouped by exact type"""
        if depth > 4:
            return
        if hasattr(o, '_json_dict_') and not isinstance(o, type):
            lst = self.by_type[type(o)]
            if len(lst) < 12 and not any(x is o for x in lst):
                lst.append(o)
            try:
                d = o._json_dict_()
            except Exception:      # noqa
                return
            if isinstance(d, dict):
                for v in d.values():
                    self._harvest(v, depth + 1)
        elif isinstance(o, (list, tuple, set, frozenset)):
            for v in list(o)[:8]:
                self._harvest(v, depth + 1)
        elif isinstance(o, dict):
            for k, v in list(o.items())[:8]:
                self._harvest(k, depth + 1)
                self._harvest(v, depth + 1)


def custom_instances(mods, pop):
    """instances for registered classes that have no stored example"""
    cirq, cg = mods['cirq'], mods['cirq_google']
    out = {}
    try:
        with warnings.catch_warnings():
            warnings.simplefilter('ignore')
            cal = cg.engine.load_median_device_calibration('rainbow')
            props = cg.noise_properties_from_calibration(cal, gate_times_ns='legacy')
            out['NoiseModelFromNoiseProperties'] = [cirq.NoiseModelFromNoiseProperties(props)]
    except Exception:      # noqa  (then the class is reported as skipped / gap)
        pass
    return out


# (class, field) mutations that build objects the constructor does not validate and that are not values of the class
MUTATION_DENYLIST = {
    ('_XEigenState', 'eigenvalue'): 'eigenvalue must be +1/-1; the constructor does not validate',
    ('_YEigenState', 'eigenvalue'): 'eigenvalue must be +1/-1; the constructor does not validate',
    ('_ZEigenState', 'eigenvalue'): 'eigenvalue must be +1/-1; the constructor does not validate',
    ('_QubitAsQid', 'dimension'): 'only reachable through with_dimension, which never keeps the qubit\'s own dimension',
}


# (class, field): a qid of ANOTHER class in this field gives an object that no public call produces
CROSS_QID_DENYLIST = {
    ('_QubitAsQid', 'qubit'): 'only produced by Qid.with_dimension of classes that do not override it; NamedQubit, LineQubit and GridQubit do',
}


# Sequences of small positive integers tried, for every seed alike, in every field that holds such a sequence (qid shapes, control
# shapes, ...): one and several entries, all 2s, a single qudit, mixed qubit/qudit; products that are / are not a power of two,
# that coincide / do not coincide with what a companion field (a count, the width of a matrix) would imply by itself.
SHAPE_GRID = ((2,), (3,), (4,), (5,), (8,), (2, 2), (2, 3), (3, 2), (2, 4), (4, 2), (3, 3), (4, 4),
              (2, 2, 2), (2, 3, 2), (2, 2, 4), (3, 3, 3), (2, 2, 2, 2))


# Real numbers tried, for every seed alike, in every real-number field of the first stored example of every class: inside and outside
# the ranges a class may regard as canonical (negative, above 1, above one period), on the boundaries (0, 1, 2, -1), half-way points.
# Constructors that reject a value (a probability of 1.5) drop it.  Pairs of fields go through the smaller grid squared, so that a
# boundary value of one field meets a non-zero value of another.
NUMBER_GRID = (0.0, 0.5, 1.0, 1.5, 2.0, 2.5, 3.0, 4.0, 0.125, -0.25, -0.5, -1.0, -1.5, -2.0)
NUMBER_PAIR_GRID = (-0.5, 0.0, 1.0, 1.5)
LIGHT_CHECKS = ('json', 'hash', 'repr', 'behaviour')


def shape_grid(quick):
    if quick:
        return SHAPE_GRID
    import itertools
    more = [s for n in (1, 2, 3) for s in itertools.product((1, 2, 3, 4, 5), repeat=n) if Mutator._prod(s) <= (16 if n == 3 else 25)]
    return tuple(dict.fromkeys(SHAPE_GRID + tuple(more) + ((16,), (2, 8), (8, 2), (4, 2, 2), (2, 2, 2, 2, 2), (3, 2, 2, 2))))


class Mutator:
    def __init__(self, mods, pop, rng):
        self.mods, self.cirq, self.pop, self.rng = mods, mods['cirq'], pop, rng
        import sympy
        self.sympy = sympy

    def qid_alts(self, q):
        cirq = self.cirq
        t = type(q)
        try:
            if t is cirq.LineQubit:
                return [cirq.LineQubit(q.x + 1), cirq.LineQubit(q.x + 7)]
            if t is cirq.LineQid:
                return [cirq.LineQid(q.x + 1, q.dimension), cirq.LineQid(q.x, q.dimension + 1)]
            if t is cirq.GridQubit:
                return [cirq.GridQubit(q.row + 1, q.col), cirq.GridQubit(q.row, q.col + 2)]
            if t is cirq.GridQid:
                return [cirq.GridQid(q.row + 1, q.col, dimension=q.dimension), cirq.GridQid(q.row, q.col, dimension=q.dimension + 1)]
            if t is cirq.NamedQubit:
                return [cirq.NamedQubit(q.name + 'x'), cirq.NamedQubit('q10')]
            if t is cirq.NamedQid:
                return [cirq.NamedQid(q.name + 'x', q.dimension), cirq.NamedQid(q.name, q.dimension + 1)]
        except Exception:      # noqa
            pass
        return [o for o in self.pop.by_type.get(t, []) if o != q][:2]

    def named_like(self, q, i=0):
        cirq = self.cirq
        return cirq.NamedQubit(f'vf_n{i}') if q.dimension == 2 else cirq.NamedQid(f'vf_n{i}', dimension=q.dimension)

    def qid_cross(self, q):
        """qids of other classes with the same dimension: one hashing through a string, one through integers"""
        cirq = self.cirq
        out = [self.named_like(q, 7)]
        out.append(cirq.LineQubit(11) if q.dimension == 2 else cirq.LineQid(11, dimension=q.dimension))
        return [a for a in out if type(a) is not type(q)]

    @staticmethod
    def admits_any_qid(ann):
        return ann is not None and re.search(r'\bQid\b', ann) is not None

    def alts(self, v, depth=0, sym=False, ann=None):
        """typed alternatives for one field value (as a reader of the document sees it); symbols only where the
        constructor's annotation admits them (sym)"""
        cirq, sympy = self.cirq, self.sympy
        if isinstance(v, bool):
            return [not v]
        if isinstance(v, int):
            out = [v + 1, v + 2] if v >= 0 else [v - 1, 0]
            if sym:
                out.append(sympy.Symbol('vf_t'))
            return out
        if isinstance(v, float):
            t = sympy.Symbol('vf_t')
            out = [c for c in (v + 0.25, v * 0.5, -v, 0.5, v + 0.015625, 1.0, 1 / 3, v * 1.5 + 0.125, 0.0) if c != v]
            return out + ([t, 2 * t + 1] if sym else [])
        if isinstance(v, complex):
            return [v * 1j, v + 0.5, 1j, 0.5 - 0.25j]
        if isinstance(v, str):
            if v and isinstance(getattr(cirq, v, None), type):      # a class given by name
                return [n for n in ('ZPowGate', 'CZPowGate', 'YPowGate') if n != v][:2]
            # first a string that reads as a key two scopes deep (fields holding measurement keys store path and name joined
            # by ':'); for every other string field it is just another string
            return ['vf_p:vf_q:' + v, v + 'x', 'vf_m']
        if isinstance(v, sympy.Basic):
            out = [sympy.Symbol('vf_u')]
            for f in (lambda: v + 1, lambda: 2 * v, lambda: v.subs({s: sympy.Symbol(s.name + '_m') for s in v.free_symbols})):
                try:
                    out.append(f())
                except Exception:      # noqa
                    pass
            return out + [0.25]
        if isinstance(v, cirq.Qid):
            return self.qid_alts(v) + (self.qid_cross(v) if self.admits_any_qid(ann) else [])
        if isinstance(v, (list, tuple)):
            mk = type(v) if type(v) in (list, tuple) else list
            out = []
            if v and all(isinstance(e, cirq.Qid) for e in v):
                if len(v) >= 2:
                    out.append(mk(list(v[1:]) + [v[0]]))
                for a in self.qid_alts(v[0]):
                    if a not in v:
                        out.append(mk([a] + list(v[1:])))
                        break
                if self.admits_any_qid(ann):      # the same positions held by qubits that hash through a string
                    out.append(mk([self.named_like(q, i) for i, q in enumerate(v)]))
                return out
            if not v and ann is not None and re.search(r'\bstr\b', ann):     # an empty sequence of strings (e.g. a key path)
                return [mk(['vf_a']), mk(['vf_a', 'vf_b'])]
            if v and all(isinstance(e, str) for e in v):
                out.append(mk(list(v) + ['vf_s']))
                out.append(mk(list(v) + ['vf_s', 'vf_t']))
            if depth < 3:
                for idx in sorted({0, len(v) - 1}) if v else []:
                    for a in self.alts(v[idx], depth + 1)[:2]:
                        w = list(v)
                        w[idx] = a
                        out.append(mk(w))
            if len(v) >= 2:
                out.append(mk(list(v[:-1])))
                out.append(mk(list(reversed(v))))
            return out
        if isinstance(v, dict):
            out = []
            fl = [k for k in v if isinstance(v[k], float)]
            if len(fl) >= 2:                    # move mass between two entries (probability tables must keep their sum)
                w = dict(v)
                w[fl[0]], w[fl[1]] = v[fl[0]] + v[fl[1]] / 2, v[fl[1]] / 2
                out.append(w)
            if depth < 3:
                for k in list(v)[:2]:
                    for a in self.alts(v[k], depth + 1)[:2]:
                        w = dict(v)
                        w[k] = a
                        out.append(w)
            return out
        if isinstance(v, datetime.datetime):
            return [v + datetime.timedelta(seconds=1.5)]
        if hasattr(v, '_json_dict_') and not isinstance(v, type):
            out = [o for o in self.pop.by_type.get(type(v), []) if not _safe_eq(o, v)][:2]
            if isinstance(v, cirq.Gate) and not out and ann is not None and re.search(r'(^|[^A-Za-z])Gate\b', ann):   # any gate allowed: another stored core gate of the same shape
                try:
                    shape = cirq.qid_shape(v)
                    for t in sorted(self.pop.by_type, key=lambda t: t.__name__):
                        if issubclass(t, cirq.Gate) and t is not type(v):
                            for o in self.pop.by_type[t][:1]:
                                if t.__module__.startswith('cirq.ops') and cirq.qid_shape(o, None) == shape and _hashable(o):
                                    out.append(o)
                        if len(out) >= 2:
                            break
                except Exception:      # noqa
                    pass
            if depth < 2:
                out += self.mutants(v, keep=2, tries=10, depth=depth + 1)
            return out
        return []

    @staticmethod
    def annotations(cls):
        out = {}
        for f in (getattr(cls, '__init__', None), getattr(cls, '__new__', None), getattr(cls, '_from_json_dict_', None)):
            try:
                for p in inspect.signature(f).parameters.values():
                    if p.annotation is not inspect.Parameter.empty:
                        out.setdefault(p.name, str(p.annotation))
            except (TypeError, ValueError):
                pass
        return out

    @staticmethod
    def admits_symbols(ann):
        return ann is not None and any(t in ann for t in ('TParamVal', 'sympy', 'TParamKey'))

    def view(self, x):
        cirq = self.cirq
        d0 = x._json_dict_()
        return cirq.read_json(json_text=cirq.to_json(dict(d0)))

    def build(self, cls, d, extra=None):
        f = getattr(cls, '_from_json_dict_', None)
        if extra:
            d = dict(d, **extra)
        if f is not None:
            return f(**dict({'cirq_type': self.cirq.json_cirq_type(cls)}, **d))
        return cls(**d)

    def build_ctor(self, cls, d, extra):
        """cls(**fields) when every JSON field is a named constructor parameter (else None)"""
        try:
            ps = inspect.signature(cls).parameters
        except (TypeError, ValueError):
            return None
        if any(k not in ps or ps[k].kind in (ps[k].VAR_POSITIONAL, ps[k].VAR_KEYWORD, ps[k].POSITIONAL_ONLY) for k in dict(d, **extra)):
            return None
        base = cls(**d)      # the document's fields must BE the constructor's arguments (same names, same shapes)
        if type(base) is not cls or not _safe_eq(base, self.build(cls, d)):
            return None
        return cls(**dict(d, **extra))

    def ctor_extras(self, cls, d):
        """constructor arguments that the JSON dict does not mention (omitted-when-default fields)"""
        out = []
        try:
            sig = inspect.signature(cls.__init__)
        except (TypeError, ValueError):
            return out
        for p in list(sig.parameters.values())[1:]:
            if p.name in d or p.kind in (p.VAR_POSITIONAL, p.VAR_KEYWORD) or p.default is inspect.Parameter.empty:
                continue
            dv, ann = p.default, str(p.annotation).replace('typing.', '').replace('Optional[', '').replace(' | None', '').replace('None | ', '').rstrip(']').strip("'")
            if (cls.__name__, p.name) in MUTATION_DENYLIST:
                continue
            if isinstance(dv, (bool, int, float, str)) and not isinstance(dv, type):
                cands = self.alts(dv, sym=self.admits_symbols(ann))[:3]
            elif dv is None or dv == ():
                cands = {'float': [0.25, 1.5], 'int': [1, 3], 'str': ['vf_s'], 'bool': [True, False],
                         'value.TParamVal': [0.25, self.sympy.Symbol('vf_t')], 'cirq.TParamVal': [0.25, self.sympy.Symbol('vf_t')]}.get(ann, [])
                if p.name == 'tags':
                    cands = [('vf_tag',)]
            else:
                cands = []
            for c in cands:
                out.append((p.name, c))
        return out

    # -- fields tied to each other by a consistency rule (a shape and the width of a matrix, a shape and a count, ...) ----------
    @staticmethod
    def shape_like(v):
        return (isinstance(v, (list, tuple)) and 0 < len(v) <= 8
                and all(isinstance(e, int) and not isinstance(e, bool) and 1 <= e <= 16 for e in v))

    @staticmethod
    def _prod(s):
        p = 1
        for e in s:
            p *= e
        return p

    def fresh_array(self, ndim_shape, dim):
        """numeric payload of the given width: a unit vector, a Haar-like unitary, or a stack of unitaries"""
        import numpy as np
        rs = np.random.RandomState(self.rng.randrange(2 ** 31))

        def unitary():
            m = rs.normal(size=(dim, dim)) + 1j * rs.normal(size=(dim, dim))
            q, r = np.linalg.qr(m)
            return q * (np.diag(r) / np.abs(np.diag(r)))
        if len(ndim_shape) == 1:
            v = rs.normal(size=dim) + 1j * rs.normal(size=dim)
            return (v / np.linalg.norm(v)).tolist()
        if len(ndim_shape) == 2:
            return unitary().tolist()
        n = self._prod(ndim_shape[:-2])
        return np.array([unitary() / np.sqrt(n) for _ in range(n)]).reshape(tuple(ndim_shape[:-2]) + (dim, dim)).tolist()

    def refits(self, d, k, old, new):
        """Companion fields re-fitted to a changed sequence of small integers `new` in field k (its former value `old`, possibly
        known only from cirq.qid_shape): counts equal to the old length, sequences as long as the old one, numeric arrays whose
        (trailing) axes are as wide as the old product.  Yields dicts of overrides: none, lengths, widths, both."""
        import numpy as np
        lengths, widths = {}, {}
        if old is not None:
            lo, do = len(old), self._prod(old)
            ln, dn = len(new), self._prod(new)
            for f, v in d.items():
                if f == k:
                    continue
                if isinstance(v, int) and not isinstance(v, bool) and v == lo and ln != lo:
                    lengths[f] = ln
                elif isinstance(v, (list, tuple)) and len(v) == lo and ln != lo and v and not self._is_numeric_array(v):
                    lengths[f] = type(v)((list(v) * ln)[:ln]) if type(v) in (list, tuple) else (list(v) * ln)[:ln]
                if dn != do and isinstance(v, (list, tuple)) and self._is_numeric_array(v):
                    a = np.array(v)
                    if (a.ndim == 1 and a.shape == (do,)) or (a.ndim >= 2 and a.shape[-1] == do and a.shape[-2] == do):
                        widths[f] = self.fresh_array(a.shape, dn)
        out = [{}]
        for extra in (lengths, widths, dict(lengths, **widths)):
            if extra and extra not in out:
                out.append(extra)
        return out

    @staticmethod
    def _is_numeric_array(v):
        import numpy as np
        try:
            a = np.array(v)
        except Exception:      # noqa  (ragged)
            return False
        return a.dtype.kind in 'iufc' and a.ndim >= 1 and a.size > 0 and (a.ndim >= 2 or a.dtype.kind in 'fc')

    def shape_fields(self, cls, d):
        """(field, in the document?) for every field holding a sequence of small positive integers, and every constructor argument
        the document omits whose annotation is a sequence of ints"""
        out = [(k, True) for k, v in d.items() if self.shape_like(v) and (cls.__name__, k) not in MUTATION_DENYLIST]
        try:
            ps = list(inspect.signature(cls.__init__).parameters.values())[1:]
        except (TypeError, ValueError):
            ps = []
        for p in ps:
            if p.name in d or p.kind in (p.VAR_POSITIONAL, p.VAR_KEYWORD) or p.default is not None:
                continue
            if re.search(r'(tuple|Tuple|Sequence|Iterable)\[int\b', str(p.annotation)):
                out.append((p.name, False))
        return out

    def shape_mutants(self, x, grid=None):
        """The same for every seed: each shape-like field of x set to every member of SHAPE_GRID (other lengths, other products,
        all-qubit shapes, single and mixed qudits whose product is or is not a power of two), companion fields re-fitted when the
        constructor rejects the lone change.  Returns [(mutant, info)]."""
        cirq, cls = self.cirq, type(x)
        try:
            with time_limit(5):
                d = self.view(x)
                if not isinstance(d, dict) or not _safe_eq(self.build(cls, d), x):
                    return []
        except Exception:      # noqa
            return []
        out, texts = [], set()
        for k, in_doc in self.shape_fields(cls, d):
            old = list(d[k]) if in_doc else None
            if old is None:
                try:
                    old = list(cirq.qid_shape(x))
                except Exception:      # noqa
                    old = None
            for new in (grid or SHAPE_GRID):
                if in_doc and list(new) == list(d[k]):
                    continue
                val = type(d[k])(new) if in_doc and type(d[k]) in (list, tuple) else list(new)
                for extra in self.refits(d, k, old, new):
                    try:
                        with time_limit(5), warnings.catch_warnings():
                            warnings.simplefilter('ignore')
                            m = self.build(cls, d, dict(extra, **{k: val}))
                            if type(m) is cls and _safe_eq(m, x) and in_doc and not extra:
                                m = self.build_ctor(cls, d, {k: val})
                            if m is None or type(m) is not cls or not _safe_eq(m, m):
                                continue
                            # a value whose equality ignores the shape is still another value when its qid shape differs
                            if _safe_eq(m, x) and cirq.qid_shape(m, None) == cirq.qid_shape(x, None):
                                continue
                            key = repr(m) + repr(cirq.qid_shape(m, None))
                    except Exception:      # noqa   constructor rejected the combination
                        continue
                    if key not in texts:
                        texts.add(key)
                        out.append((m, dict(field=k, value=repr(tuple(new)), refitted=sorted(extra), ctor_only=not in_doc)))
                    break
        return out

    def number_fields(self, cls, d):
        """fields of the document holding a real number: floats, and ints where the constructor's annotation says float / TParamVal"""
        anns = self.annotations(cls)
        return [k for k, v in d.items() if (cls.__name__, k) not in MUTATION_DENYLIST and not isinstance(v, bool)
                and (isinstance(v, float) or (isinstance(v, int) and NUMISH.search(anns.get(k) or '')))]

    def number_mutants(self, x, grid=None, pair_grid=None):
        """The same for every seed: each real-number field of x set to every member of NUMBER_GRID (one field at a time), then every
        PAIR of such fields through NUMBER_PAIR_GRID x NUMBER_PAIR_GRID.  Unlike `mutants`, a mutant that compares EQUAL to x is kept:
        another spelling of the same ==-class (an exponent a period further, a negated angle with a shifted axis, ...) is exactly the
        value whose document may only be judged by behaviour.  Returns [(mutant, info)]."""
        cls = type(x)
        try:
            with time_limit(5):
                d = self.view(x)
                if not isinstance(d, dict) or not _safe_eq(self.build(cls, d), x):
                    return []
        except Exception:      # noqa
            return []
        ks = self.number_fields(cls, d)
        grid = NUMBER_GRID if grid is None else grid
        pair_grid = NUMBER_PAIR_GRID if pair_grid is None else pair_grid
        changes = [{k: v} for k in ks for v in grid]
        changes += [{k1: v1, k2: v2} for i, k1 in enumerate(ks) for k2 in ks[i + 1:] for v1 in pair_grid for v2 in pair_grid]
        out, texts = [], {repr(x)}
        for ch in changes:
            if all(type(d[k]) is type(v) and d[k] == v for k, v in ch.items()):
                continue
            try:
                with time_limit(5), warnings.catch_warnings():
                    warnings.simplefilter('ignore')
                    m = self.build(cls, d, ch)
                    if m is None or type(m) is not cls or not _safe_eq(m, m):
                        continue
                    same = _safe_eq(m, x)
                    key = repr(m)
            except Exception:      # noqa   constructor rejected the value (a probability above 1, ...)
                continue
            if key in texts:
                continue
            texts.add(key)
            out.append((m, dict(field='+'.join(ch), value=', '.join(repr(v) for v in ch.values()), ctor_only=False, number_grid=True,
                                equal_to_source=bool(same))))
        return out

    def mutants(self, x, keep, tries, depth=0):
        from cirq._compat import proper_eq
        cls = type(x)
        try:
            with time_limit(5):
                d = self.view(x)
                if not isinstance(d, dict) or not _safe_eq(self.build(cls, d), x):
                    return []
        except Exception:      # noqa
            return []
        cands = []
        anns = self.annotations(cls)
        for k in d:
            if (cls.__name__, k) in MUTATION_DENYLIST:
                continue
            ann_k = None if (cls.__name__, k) in CROSS_QID_DENYLIST and self.admits_any_qid(anns.get(k)) else anns.get(k)
            for a in self.alts(d[k], depth, sym=self.admits_symbols(anns.get(k)), ann=ann_k):
                cands.append((k, a, False))
        for k, a in self.ctor_extras(cls, d):
            cands.append((k, a, True))
        # every field is varied before any is varied twice: per field the symbolic alternative (when the annotation admits
        # symbols), then the first typed alternative, then random further ones
        byk = collections.OrderedDict()
        for c in cands:
            byk.setdefault(c[0], []).append(c)
        first, second, rest = [], [], []
        for k, cs in byk.items():
            syms = [c for c in cs if isinstance(c[1], self.sympy.Basic)]
            plain = [c for c in cs if not isinstance(c[1], self.sympy.Basic)]
            order = syms[:1] + plain[:1]
            others = [c for c in cs if c not in order]
            self.rng.shuffle(others)
            first += order[:1]
            second += order[1:2]
            rest += others
        first = first + second
        out, texts = [], set()
        for k, a, extra in (first + rest)[:tries]:
            try:
                with time_limit(5), warnings.catch_warnings():
                    warnings.simplefilter('ignore')
                    m = self.build(cls, d, {k: a})
                    if type(m) is cls and _safe_eq(m, x) and not extra:
                        # the reader did not look at the changed field: the same arguments through the constructor
                        m = self.build_ctor(cls, d, {k: a})
                    if m is None or type(m) is not cls or _safe_eq(m, x) or not _safe_eq(m, m):
                        continue
                    key = repr(m)
            except Exception:      # noqa   constructor rejected the mutated argument
                continue
            if key in texts:
                continue
            texts.add(key)
            m_info = dict(field=k, value=repr(a)[:80], ctor_only=extra)
            out.append((m, m_info))
            if len(out) >= keep:
                break
        return [m for m, _ in out] if depth > 0 else out


def _safe_eq(a, b):
    from cirq._compat import proper_eq
    try:
        r = proper_eq(a, b)
        return bool(r)
    except Exception:      # noqa
        return False


def _hashable(x):
    try:
        hash(x)
        return True
    except TypeError:
        return False


class Explorer:
    CHECKS = ('json', 'hash', 'repr', 'behaviour', 'pickle', 'copy', 'deepcopy', 'nested')

    def __init__(self, ctx, mods, pop):
        self.ctx, self.mods, self.cirq, self.pop = ctx, mods, mods['cirq'], pop
        self.ns = eval_namespace(mods)
        lenient = dict(self.ns)
        for m in (mods['cirq'], getattr(mods['cirq'], 'work', None), getattr(mods['cirq'], 'ops', None),
                  getattr(mods['cirq'], 'contrib', None)) + tuple(mods[v] for v in VENDORS):
            if m is not None:
                for n in dir(m):
                    if not n.startswith('_'):
                        lenient.setdefault(n, getattr(m, n))
        self.ns_lenient = lenient
        self.stats = collections.Counter()
        self.repr_lenient_classes = set()
        self.str_differs = set()
        self.unhashable_in_frozen = set()
        self.xproc = []          # (label, pickle bytes, json text)
        self.instances = []
        import sympy
        self._sympy = sympy

    # -- individual checks; each returns None (ok / not applicable) or a failure text
    def c_json(self, x):
        cirq = self.cirq
        text = cirq.to_json(x)
        y = cirq.read_json(json_text=text)
        self._y, self._text = y, text
        if not (_safe_eq(y, x) and _safe_eq(x, y)):
            return f'read_json(to_json(x)) != x{difference_hint(cirq, x, y)}: read back {_short_repr(y)}, x = {_short_repr(x)}'
        self._json_ok = True
        return None

    def c_hash(self, x):
        if not _hashable(x) or self._y is None:
            return None
        self.stats['hash_checked'] += 1
        if hash(self._y) != hash(x):
            return f'hash(read_json(to_json(x))) = {hash(self._y)} != hash(x) = {hash(x)} although the values are equal'
        return None

    def c_repr(self, x, name):
        from cirq._compat import proper_repr
        own = type(x).__module__.split('.')[0] in ('cirq', 'cirq_google', 'cirq_ionq', 'cirq_aqt', 'cirq_pasqal')
        text = repr(x) if own else proper_repr(x)
        err = None
        for label, ns in (('upstream', self.ns), ('lenient', self.ns_lenient)):
            ns2 = dict(ns)
            if label == 'lenient':
                mod = sys.modules.get(type(x).__module__)
                if mod is not None:
                    for k, v in vars(mod).items():
                        ns2.setdefault(k, v)
            try:
                with warnings.catch_warnings():
                    warnings.simplefilter('ignore')
                    z = eval(text, ns2, {})
                if _safe_eq(z, x):
                    if label == 'lenient':
                        self.repr_lenient_classes.add(name)
                    return None
                err = f'eval(repr(x)) = {z!r} != x'
            except Exception as e:      # noqa
                err = f'repr(x) = {text[:160]!r} does not evaluate: {type(e).__name__}: {e}'
        return err

    def _behaviour(self, x):
        cirq = self.cirq
        import numpy as np
        out = {}

        def attempt(label, f):
            try:
                out[label] = f()
            except Exception as e:      # noqa
                out[label] = 'raises ' + type(e).__name__
        attempt('str', lambda: str(x))
        if isinstance(x, (cirq.Gate, cirq.Operation, cirq.AbstractCircuit, cirq.Moment)):
            attempt('keys', lambda: sorted(cirq.measurement_key_names(x)))
            attempt('params', lambda: sorted(cirq.parameter_names(x)))
            attempt('shape', lambda: tuple(cirq.qid_shape(x, ())))
            shape = out.get('shape')
            if isinstance(shape, tuple) and shape and int(np.prod(shape)) <= 32:
                attempt('unitary', lambda: (lambda u: None if u is None else np.round(u, 9).tolist())(cirq.unitary(x, None)))
                if out.get('unitary') is None:
                    attempt('kraus', lambda: (lambda ks: None if ks is None else [np.round(k, 9).tolist() for k in ks])(cirq.kraus(x, None)))
        # the arguments the value was made from, as far as it shows them: public attributes named like the fields of its document
        # (plain numbers, strings and symbolic expressions only)
        try:
            names = [k for k in x._json_dict_() if k != 'cirq_type' and isinstance(k, str) and not k.startswith('_')]
        except Exception:      # noqa
            names = []
        for k in names:
            try:
                v = getattr(x, k)
            except Exception:      # noqa
                continue
            if isinstance(v, (bool, int, float, complex, str, self._sympy.Basic)):
                out['attribute ' + k] = v
        return out

    def c_behaviour(self, x):
        if self._y is None:
            return None
        import numpy as np
        # the key OBJECTS (path entries and name, their order), not only their joined strings
        kx, ky = key_structure(self.cirq, x), key_structure(self.cirq, self._y)
        if kx is not None and kx.pop('in_domain'):
            self.stats['key_structures_compared'] += 1
            (ky or {}).pop('in_domain', None)
            for k in kx:
                if (ky or {}).get(k) != kx[k]:
                    return f'{k} differ after the round trip: written {kx[k]!r}, read back {(ky or {}).get(k)!r}'
        elif kx is not None:
            self.stats['key_structures_outside_domain'] += 1
        a, b = self._behaviour(x), self._behaviour(self._y)
        for k in a:
            va, vb = a[k], b.get(k)
            if k in ('unitary', 'kraus') and va is not None and vb is not None and not isinstance(va, str) and not isinstance(vb, str):
                ua, ub = np.array(va), np.array(vb)
                if ua.shape != ub.shape or not np.allclose(ua, ub, atol=1e-8):
                    delta = f'max |delta| = {np.abs(ua - ub).max():.3g}' if ua.shape == ub.shape else f'shapes {ua.shape} vs {ub.shape}'
                    same = ' although the two compare equal' if _safe_eq(self._y, x) else ''
                    return (f'cirq.{k} differs after the round trip ({delta}, not merely rounding){same}: written {_short_repr(x)}, '
                            f'read back {_short_repr(self._y)}{difference_hint(self.cirq, x, self._y, attributes=True)}')
            elif isinstance(va, float) and isinstance(vb, float) and va != va and vb != vb:
                continue
            elif va != vb:
                if k == 'str':       # str is not pinned by the property (set order, dtype spelling): recorded, not deciding
                    self.str_differs.add(type(x).__name__)
                    continue
                return f'{k} differs after the round trip: {str(va)[:120]!r} vs {str(vb)[:120]!r}'
        self.stats['behaviour_checked'] += 1
        return None

    def c_pickle(self, x, label):
        hx = hash(x) if _hashable(x) else None      # history: the hash is cached before pickling
        data = pickle.dumps(x)
        p = pickle.loads(data)
        if not (_safe_eq(p, x) and _safe_eq(x, p)):
            return f'pickle.loads(pickle.dumps(x)) = {p!r} != x'
        if hx is not None and hash(p) != hx:
            return 'hash of the unpickled value differs'
        if hx is not None and self._text is not None and self._json_ok and len(self.xproc) < 4000:
            self.xproc.append((label, data, self._text))
        return None

    def c_copy(self, x, deep):
        hx = hash(x) if _hashable(x) else None
        c = copy.deepcopy(x) if deep else copy.copy(x)
        if not (_safe_eq(c, x) and _safe_eq(x, c)):
            return f'copy = {c!r} != x'
        if hx is not None and hash(c) != hx:
            return 'hash of the copy differs'
        return None

    def nestings(self, x):
        cirq = self.cirq
        out = [[x, {'k': x}, [x, x]]]
        op = None
        if isinstance(x, cirq.Operation):
            op = x
        elif isinstance(x, cirq.Gate):
            try:
                op = x.on(*cirq.LineQid.for_gate(x))
            except Exception:      # noqa
                op = None
        if op is not None:
            try:
                fc = cirq.FrozenCircuit(op)
                inner = cirq.CircuitOperation(fc)
                out.append([cirq.Circuit(op, inner), fc, {'a': fc, 'b': [inner, cirq.FrozenCircuit(inner, op)]}])
                self.stats['nested_in_circuits'] += 1
            except Exception:      # noqa
                self.stats['circuit_nesting_unavailable'] += 1
            # the same operation moved onto two different qubits left of / above the origin: two DISTINCT sub-circuits in one
            # document (whenever their hashes coincide a memo keyed by the objects must still keep them apart)
            try:
                va, vb = self.shifted_pair(op)
                if va is not None:
                    fa, fb = cirq.FrozenCircuit(va), cirq.FrozenCircuit(vb)
                    out.append([fa, fb, {'a': cirq.CircuitOperation(fb), 'b': [cirq.CircuitOperation(fa), fb]}])
                    self.stats['nested_distinct_pairs'] += 1
                    if fa != fb and hash(fa) == hash(fb):
                        self.stats['nested_distinct_pairs_with_equal_hash'] += 1
            except Exception:      # noqa
                self.stats['shifted_pair_unavailable'] += 1
        return out

    def shifted_pair(self, op):
        cirq = self.cirq
        qs = op.qubits
        if not qs:
            return None, None
        q = qs[0]
        t = type(q)
        if t is cirq.LineQubit:
            alts = [cirq.LineQubit(-1), cirq.LineQubit(-2)]
        elif t is cirq.GridQubit:
            alts = [cirq.GridQubit(-1, q.col), cirq.GridQubit(-2, q.col)]
        elif t is cirq.LineQid:
            alts = [cirq.LineQid(-1, q.dimension), cirq.LineQid(-2, q.dimension)]
        elif t is cirq.GridQid:
            alts = [cirq.GridQid(-1, q.col, dimension=q.dimension), cirq.GridQid(-2, q.col, dimension=q.dimension)]
        else:
            return None, None
        if any(a in qs for a in alts):
            return None, None
        return tuple(op.transform_qubits({q: a}) for a in alts)

    def c_nested(self, x):
        cirq = self.cirq
        for n in self.nestings(x):
            try:
                text = cirq.to_json(n)
            except TypeError as e:
                if 'unhashable type' in str(e) and not _hashable(x):
                    self.unhashable_in_frozen.add(type(x).__name__)
                    return 'UNHASHABLE-IN-FROZEN'
                raise
            back = cirq.read_json(json_text=text)
            if not _deep_eq(back, n):
                return _one_line(f'nested value does not round-trip: {n!r} is read back as {back!r}')[:600]
            if not frozen_sharing_ok(cirq, back):
                return 'a shared FrozenCircuit was duplicated by the round trip'
            if text != cirq.to_json(n, cls=_nocache_encoder(cirq)):
                self.stats['id_cache_changed_output'] += 1
                return 'the id()-keyed encoder cache changed the document'
        return None

    def check(self, name, x, origin, info=None, only=None):
        """all checks (or those named in `only`) on one instance; returns list of (check, detail)"""
        fails = []
        self._y, self._text, self._json_ok = None, None, False
        label = f'{name}:{origin}'
        for chk, f in (('json', lambda: self.c_json(x)), ('hash', lambda: self.c_hash(x)), ('repr', lambda: self.c_repr(x, name)),
                       ('behaviour', lambda: self.c_behaviour(x)), ('pickle', lambda: self.c_pickle(x, label)),
                       ('copy', lambda: self.c_copy(x, False)), ('deepcopy', lambda: self.c_copy(x, True)),
                       ('nested', lambda: self.c_nested(x))):
            if only is not None and chk not in only:
                continue
            try:
                with time_limit(20), warnings.catch_warnings():
                    warnings.simplefilter('ignore')
                    r = f()
            except _Timeout:
                r = None
                self.stats['timeouts'] += 1
            except Exception as e:      # noqa
                r = f'{type(e).__name__}: {e}'[:300]
            if r is not None:
                fails.append((chk, r))
        if self._json_ok and only is None and not any(c == 'nested' for c, _ in fails):
            self.instances.append(x)      # material for the id-cache stress stream
        return fails


def difference_hint(cirq, x, y, attributes=False):
    """where a value and what was read back from its document differ (for the message only; the verdict is ==)"""
    out = []
    if attributes:
        try:
            ks = [k for k in x._json_dict_() if k != 'cirq_type' and hasattr(x, k) and hasattr(y, k) and not _safe_eq(getattr(x, k), getattr(y, k))]
            if ks:
                out.append('attributes that differ: ' + ', '.join(f'{k} {getattr(x, k)!r} -> {getattr(y, k)!r}' for k in ks[:4]))
        except Exception:      # noqa
            pass
    try:
        sx, sy = cirq.qid_shape(x, None), cirq.qid_shape(y, None)
        if sx != sy:
            out.append(f'cirq.qid_shape {sx} came back as {sy}')
    except Exception:      # noqa
        pass
    try:
        if type(x) is not type(y):
            out.append(f'{type(x).__name__} came back as {type(y).__name__}')
        else:
            dx, dy = x._json_dict_(), y._json_dict_()
            ks = [k for k in list(dx) + [k for k in dy if k not in dx] if k not in dy or k not in dx or not _safe_eq(dx[k], dy[k])]
            if ks:
                out.append('fields that differ when both are written again: ' + ', '.join(ks[:6]))
    except Exception:      # noqa
        pass
    return (' (' + '; '.join(out) + ')') if out else ''


def key_structure(cirq, x):
    """The measurement/control keys a value carries, as structure: per key (path entries, name), listed in the order of the
    key objects themselves (MeasurementKey.__lt__ compares path tuples, then names).  None when the value carries no keys.
    in_domain: no component contains the separator (Codec/KeyPath.v key_wf; C11_key_roundtrip_refuted outside)."""
    groups = {}

    def grab(label, f):
        try:
            ks = list(f())
        except Exception:      # noqa
            return
        if ks and all(isinstance(k, cirq.MeasurementKey) for k in ks):
            groups[label] = ks
    if isinstance(x, cirq.MeasurementKey):
        groups['key'] = [x]
    elif isinstance(x, (cirq.Gate, cirq.Operation, cirq.AbstractCircuit, cirq.Moment)):
        grab('measurement_key_objs', lambda: cirq.measurement_key_objs(x))
        grab('control_keys', lambda: cirq.control_keys(x))
    elif isinstance(x, cirq.Condition):
        grab('condition_keys', lambda: x.keys)
    elif isinstance(x, cirq.ClassicalDataStoreReader):
        grab('store_keys', lambda: x.keys())
    if not groups:
        return None
    out = dict(in_domain=True)
    for label, ks in groups.items():
        if any(':' in c for k in ks for c in tuple(k.path) + (k.name,)):
            out['in_domain'] = False
        out[label] = sorted((tuple(k.path), k.name) for k in ks)
        try:
            out[label + ':order'] = [(tuple(k.path), k.name) for k in sorted(ks)]
        except Exception as e:      # noqa
            out[label + ':order'] = 'raises ' + type(e).__name__
    return out


def _deep_eq(a, b):
    if isinstance(a, (list, tuple)) and isinstance(b, (list, tuple)):
        return len(a) == len(b) and all(_deep_eq(x, y) for x, y in zip(a, b))
    if isinstance(a, dict) and isinstance(b, dict):
        return list(a) == list(b) and all(_deep_eq(a[k], b[k]) for k in a)
    return _safe_eq(a, b)


_NOCACHE = {}


def _nocache_encoder(cirq):
    """CirqEncoder with the id()-keyed cache switched off: the reference for what the cache may not change."""
    if 'cls' not in _NOCACHE:
        from cirq.protocols.json_serialization import CirqEncoder

        class _Never(dict):
            def get(self, k, default=None):
                return None

        class NoCacheEncoder(CirqEncoder):
            def __init__(self, *a, **kw):
                super().__init__(*a, **kw)
                self._cache = _Never()
        _NOCACHE['cls'] = NoCacheEncoder
    return _NOCACHE['cls']


def stream_classes(ctx, mods, specs, pop):
    cirq = mods['cirq']
    quick = ctx.tier == 'quick'
    keep, tries, max_stored = (12, 60, 4) if quick else (32, 160, 12)
    mut = Mutator(mods, pop, ctx.rng)
    ex = Explorer(ctx, mods, pop)
    custom = custom_instances(mods, pop)
    table = dict(classes=0, factories=0, with_mutants=[], stored_only=[], skipped=[], gaps=[], custom=[],
                 factories_without_document=[], mutants=0, instances=0, shape_grid={}, shape_grid_mutants=0,
                 number_grid={}, number_grid_mutants=0, number_grid_equal_to_source=0)
    grid = shape_grid(quick)
    fail_by_sig = {}
    for e in pop.entries:
        name, label = e['name'], f"{e['spec']}/{e['name']}"
        insts = [(x, f'stored[{i}]') for i, x in enumerate(e['stored'][:max_stored])]
        if e['is_type']:
            table['classes'] += 1
        else:
            table['factories'] += 1
            if not e['has_doc']:
                table['factories_without_document'].append(label)
            if not insts:
                continue
        if not insts and name in custom:
            insts = [(x, f'custom[{i}]') for i, x in enumerate(custom[name])]
            table['custom'].append(label)
        if not insts:
            if e['status']:
                table['skipped'].append(dict(cls=label, reason=e['status']))
            else:
                table['gaps'].append(label)
                ctx.violation(f'harness-gap:{label}', f'registered class {label} has neither a stored example nor a generator', dict(kind='gap', cls=label), found_input=False)
            continue
        nmut = 0
        mutated = []
        for x, origin in list(insts):
            if nmut >= keep or not hasattr(x, '_json_dict_'):
                if not hasattr(x, '_json_dict_'):
                    for i, a in enumerate(mut.alts(x)[:keep - nmut]):
                        mutated.append((a, f'{origin}~alt{i}', dict(field='<value>', value=repr(a)[:80])))
                        nmut += 1
                continue
            for m, info in mut.mutants(x, keep=keep - nmut, tries=tries):
                mutated.append((m, f'{origin}~{info["field"]}', info))
                nmut += 1
        # fixed grid (every seed alike): each sequence-of-small-integers field through SHAPE_GRID with its companions re-fitted
        reached = {}
        for x, origin in list(insts)[:2 if quick else 3]:
            if hasattr(x, '_json_dict_'):
                for m, info in mut.shape_mutants(x, grid):
                    mutated.append((m, f'{origin}~{info["field"]}={info["value"]}', info))
                    nmut += 1
                    reached.setdefault(info['field'], []).append(info['value'] + ('*' if info['refitted'] else ''))
        if reached:
            table['shape_grid'][label] = {k: sorted(set(v)) for k, v in reached.items()}
            table['shape_grid_mutants'] += sum(len(v) for v in reached.values())
        # fixed grid (every seed alike): each real-number field through NUMBER_GRID, pairs of them through NUMBER_PAIR_GRID^2; mutants
        # that compare equal to their source (other spellings of one ==-class) are kept
        ngrid = collections.Counter()
        for x, origin in list(insts)[:1 if quick else 2]:
            if hasattr(x, '_json_dict_'):
                for m, info in mut.number_mutants(x):
                    mutated.append((m, f'{origin}~{info["field"]}={info["value"]}', info))
                    nmut += 1
                    ngrid[info['field']] += 1
                    table['number_grid_equal_to_source'] += info['equal_to_source']
        if ngrid:
            table['number_grid'][label] = dict(ngrid)
            table['number_grid_mutants'] += sum(ngrid.values())
        table['mutants'] += nmut
        (table['with_mutants'] if nmut else table['stored_only']).append(label)
        base_fail = set()       # checks that already fail on a stored example of this class: not re-reported for its mutants
        pending = {}
        for x, origin, *rest in [(a, b) for a, b in insts] + mutated:
            info = rest[0] if rest else None
            table['instances'] += 1
            light = quick and info is not None and info.get('number_grid')
            fails = ex.check(name, x, origin, info, only=LIGHT_CHECKS if light else None)
            try:
                key = label + '|' + repr(x)[:300]
            except Exception:      # noqa
                key = label + '|' + origin
            ctx.count('classes', key, True, sample=dict(cls=label, origin=origin, mutated=info, value=_short_repr(x)))
            failed = {c for c, _ in fails}
            for chk, detail in fails:
                if chk in ('hash', 'behaviour', 'nested') and 'json' in failed:
                    continue            # consequences of the failed round trip of the same instance
                if detail == 'UNHASHABLE-IN-FROZEN':
                    ctx.violation('codec:frozen-circuit-with-unhashable-operation',
                                  f'cirq.to_json raises TypeError (unhashable) for a FrozenCircuit holding an operation of an unhashable gate, e.g. {label}: the by-key memo hashes the circuit',
                                  _replay_of(cirq, label, x, chk, origin))
                    continue
                if info is None:
                    base_fail.add(chk)
                    sig = f'class:{label}:{chk}'
                else:
                    if chk in base_fail:
                        continue
                    sig = f'class:{label}:{chk}:{info["field"]}'
                if info is not None and info.get('number_grid'):
                    pending.setdefault(sig, []).append((x, origin, detail, chk))      # the most telling member of the grid is reported
                elif sig not in fail_by_sig:
                    fail_by_sig[sig] = (x, origin, detail)
                    ctx.violation(sig, f'{label} ({origin}) {chk}: {detail}'[:700], _replay_of(cirq, label, x, chk, origin))
        for sig, cands in pending.items():
            if sig not in fail_by_sig:
                # a changed matrix / channel tells more than a changed attribute
                x, origin, detail, chk = min(cands, key=lambda c: 0 if c[2].startswith(('cirq.unitary', 'cirq.kraus')) else 1)
                fail_by_sig[sig] = (x, origin, detail)
                ctx.violation(sig, f'{label} ({origin}) {chk}: {detail} [{len(cands)} members of the number grid fail this way]'[:900],
                              _replay_of(cirq, label, x, chk, origin))
    table['repr_needs_unqualified_names'] = sorted(ex.repr_lenient_classes)
    table['str_differs_after_roundtrip_not_deciding'] = sorted(ex.str_differs)
    table['unhashable_gates_break_frozen_circuit_json'] = sorted(ex.unhashable_in_frozen)
    table['mutation_denylist'] = {f'{c}.{f}': r for (c, f), r in MUTATION_DENYLIST.items()}
    table['cross_class_qid_denylist'] = {f'{c}.{f}': r for (c, f), r in CROSS_QID_DENYLIST.items()}
    table['checks'] = dict(ex.stats)
    for k in ('with_mutants', 'stored_only', 'custom', 'gaps'):
        table['n_' + k] = len(table[k])
    ctx.cov['classes'] = table
    return ex


def _one_line(t):
    return ' '.join(str(t).split())


def _short_repr(x):
    try:
        return _one_line(repr(x))[:200]
    except Exception as e:      # noqa
        return f'<repr raises {type(e).__name__}>'


def _replay_of(cirq, label, x, chk, origin):
    d = dict(kind='class', cls=label, check=chk, origin=origin, repr=_short_repr(x))
    try:
        d['pickle_b64'] = base64.b64encode(pickle.dumps(x)).decode()
    except Exception:      # noqa
        try:
            d['json_text'] = cirq.to_json(x)
        except Exception:      # noqa
            pass
    return d


# ------------------------------------------------------------------------------------------------ equal values in other spellings
KEYISH = re.compile(r'TParamKey|ParamResolver|ParamDict|ParamMapping|Sweepable|SweepLike|TParamPair|\bSweep\b')
NUMISH = re.compile(r'\bfloat\b|TParamVal|\bcomplex\b')


def pair_contract(x, y):
    """What == and hash owe each other on two values, with NO assumption on whether the two are equal: == is symmetric,
    != is its negation, and when == says True the hashes agree and the two are one set element / one dict key.
    Returns [(kind, text)]."""
    try:
        exy, eyx, nxy = bool(x == y), bool(y == x), bool(x != y)
    except Exception:      # noqa   array-valued or raising comparisons: judged through proper_eq elsewhere
        return []
    fails = []
    if exy != eyx:
        fails.append(('eq-asymmetric', f'x == y is {exy} but y == x is {eyx}'))
    if exy == nxy:
        fails.append(('ne-inconsistent', f'x == y is {exy} and x != y is {nxy}'))
    if exy and eyx and _hashable(x) and _hashable(y):
        if hash(x) != hash(y):
            fails.append(('hash', 'x == y is True but hash(x) != hash(y)'))
        elif len({x, y}) != 1 or {x: 1}.get(y) != 1:
            fails.append(('set', 'x == y and the hashes agree, but {x, y} has two elements / a dict keyed by x does not find y'))
    return fails


class Respeller:
    """Other ways of writing the SAME constructor arguments of a value: a parameter name as str or as sympy.Symbol where a
    parameter key is admitted, a whole number as int / float / numpy scalar where a float is admitted, the items of a
    mapping in another order — one position at a time and all at once, recursively through nested serialisable values."""

    def __init__(self, mut):
        self.mut, self.cirq, self.sympy = mut, mut.cirq, mut.sympy
        import numpy as np
        self.np = np

    def spell(self, v, keyish, numish, depth):
        sympy, np = self.sympy, self.np
        out = []
        if isinstance(v, bool) or v is None:
            return out
        if isinstance(v, sympy.Symbol):
            return [v.name] if keyish else out
        if isinstance(v, str):
            return [sympy.Symbol(v)] if keyish and v.isidentifier() else out
        if isinstance(v, float):
            if numish:
                if v == int(v) and abs(v) < 2 ** 53:
                    out.append(int(v))
                out.append(np.float64(v))
            return out
        if isinstance(v, int):
            return [float(v), np.int64(v)] if numish and abs(v) < 2 ** 53 else out
        if isinstance(v, (list, tuple)):
            mk = type(v) if type(v) in (list, tuple) else list
            idx = list(range(len(v))) if len(v) <= 4 else [0, 1, 2, len(v) - 1]
            per = {i: (self.spell(v[i], keyish, numish, depth + 1)[:1] if depth < 6 else []) for i in idx}
            for i in idx:
                if per[i]:
                    w = list(v)
                    w[i] = per[i][0]
                    out.append(mk(w))
            if sum(1 for i in idx if per[i]) >= 2:
                out.append(mk([per[i][0] if per.get(i) else e for i, e in enumerate(v)]))
            if len(v) >= 2 and all(isinstance(e, (list, tuple)) and len(e) == 2 for e in v):     # the items of a mapping
                out.append(mk(list(reversed(v))))
            return out
        if isinstance(v, dict):
            for k in list(v)[:3]:
                for a in (self.spell(v[k], keyish, numish, depth + 1)[:1] if depth < 6 else []):
                    out.append(dict(v, **{k: a}) if isinstance(k, str) else {kk: (a if kk is k else vv) for kk, vv in v.items()})
            if len(v) >= 2:
                out.append(dict(reversed(list(v.items()))))
            return out
        if hasattr(v, '_json_dict_') and not isinstance(v, type) and depth < 6:
            return self.respellings(v, depth + 1, keep=3)
        return out

    def respellings(self, x, depth=0, keep=8):
        mut, cls = self.mut, type(x)
        try:
            with time_limit(5), warnings.catch_warnings():
                warnings.simplefilter('ignore')
                d = mut.view(x)
                if not isinstance(d, dict) or not _safe_eq(mut.build(cls, d), x):
                    return []
        except Exception:      # noqa
            return []
        anns = mut.annotations(cls)
        cands = []
        for k in d:
            ann = anns.get(k) or ''
            try:
                for a in self.spell(d[k], bool(KEYISH.search(ann)), bool(NUMISH.search(ann)), depth):
                    cands.append({k: a})
            except Exception:      # noqa
                continue
        firsts = {}
        for c in cands:
            for k, a in c.items():
                firsts.setdefault(k, a)
        if len(firsts) >= 2:
            cands.append(firsts)
        out = []
        for extra in cands:
            try:
                with time_limit(5), warnings.catch_warnings():
                    warnings.simplefilter('ignore')
                    m = mut.build(cls, d, extra)
                if type(m) is cls:
                    out.append(m)
            except Exception:      # noqa   the constructor does not take this spelling
                continue
            if len(out) >= keep:
                break
        return out


def spelling_carriers(cirq, x):
    """hashable values that carry x: name -> builder"""
    out = collections.OrderedDict()
    op = x if isinstance(x, cirq.Operation) else None
    if op is None and isinstance(x, cirq.Gate):
        out['on qids'] = lambda y: y.on(*cirq.LineQid.for_gate(y))
    if op is not None:
        out['Moment'] = lambda y: cirq.Moment(y)
        out['FrozenCircuit'] = lambda y: cirq.FrozenCircuit(y)
        out['CircuitOperation of FrozenCircuit'] = lambda y: cirq.CircuitOperation(cirq.FrozenCircuit(y), repetitions=2)
        out['tagged'] = lambda y: y.with_tags('vf_t')
        out['Circuit'] = lambda y: cirq.Circuit(y)
    return out


def eqhash_root(x, y, depth=0):
    """x == y with different hashes: the innermost pair of corresponding parts (fields of the JSON dictionaries, members of
    sequences) that is itself equal with different hashes — the value whose __eq__/__hash__ disagree."""
    def parts(a, b):
        if isinstance(a, (list, tuple)) and isinstance(b, (list, tuple)):
            if len(a) == len(b):
                for u, w in zip(a, b):
                    yield u, w
            return
        if isinstance(a, dict) and isinstance(b, dict):
            for k in a:
                if k in b:
                    yield a[k], b[k]
            return
        if hasattr(a, '_json_dict_') and type(a) is type(b):
            try:
                da, db = a._json_dict_(), b._json_dict_()
            except Exception:      # noqa
                return
            for k in da:
                if k in db:
                    yield da[k], db[k]
    if depth < 8:
        for u, w in parts(x, y):
            r = eqhash_root(u, w, depth + 1)
            if r is not None:
                return r
    try:
        if not isinstance(x, (list, tuple, dict)) and bool(x == y) and _hashable(x) and _hashable(y) and hash(x) != hash(y):
            return x, y
    except Exception:      # noqa
        pass
    return None


def family_failures(cirq, label, family, copies=True):
    """[(kind, text, [values])] for one family of values that may or may not be equal to each other"""
    fails = []
    for i in range(len(family)):
        for j in range(i + 1, len(family)):
            x, y = family[i], family[j]
            for kind, text in pair_contract(x, y):
                fails.append((kind, f'{label}: {text}; x = {_short_repr(x)}, y = {_short_repr(y)}', [x, y]))
    if copies:
        for x in family[1:]:
            if not hasattr(x, '_json_dict_'):
                continue
            for how, f in (('read_json(to_json(x))', lambda: cirq.read_json(json_text=cirq.to_json(x))),
                           ('pickle', lambda: pickle.loads(pickle.dumps(x))), ('deepcopy', lambda: copy.deepcopy(x))):
                try:
                    with warnings.catch_warnings():
                        warnings.simplefilter('ignore')
                        hx = hash(x) if _hashable(x) else None
                        y = f()
                    if not (_safe_eq(y, x) and _safe_eq(x, y)):
                        fails.append(('copy', f'{label}: {how} = {_short_repr(y)} is not equal to x = {_short_repr(x)}', [x]))
                    elif hx is not None and hash(y) != hx:
                        fails.append(('copy-hash', f'{label}: {how} is equal to x but hashes differently; x = {_short_repr(x)}', [x]))
                except Exception as e:      # noqa
                    fails.append(('copy', f'{label}: {how} raises {type(e).__name__}: {e}; x = {_short_repr(x)}'[:500], [x]))
    return fails


def assignment_spellings(sympy, assignment):
    """one name->value assignment written in every way: each key as str or sympy.Symbol, the items in both orders, whole
    numbers as int or float"""
    import itertools
    names = list(assignment)
    out = []
    for as_sym in itertools.product((False, True), repeat=len(names)):
        out.append({(sympy.Symbol(n) if s else n): assignment[n] for n, s in zip(names, as_sym)})
    if len(names) >= 2:
        out.append({n: assignment[n] for n in reversed(names)})
        out.append({sympy.Symbol(n): assignment[n] for n in reversed(names)})
    num = {n: (float(v) if isinstance(v, int) else int(v) if isinstance(v, float) and v == int(v) else v) for n, v in assignment.items()}
    if any(type(num[n]) is not type(assignment[n]) for n in names):
        out.append(num)
    return out


def spelling_entries(mods):
    """Every way a parameter assignment (or a parameter key) reaches a serialisable value: name -> builder(mapping)."""
    import sympy, numpy as np
    cirq, cg = mods['cirq'], mods['cirq_google']
    q = cirq.LineQubit(0)
    a, b, c = sympy.Symbol('a'), sympy.Symbol('b'), sympy.Symbol('c')
    body = cirq.FrozenCircuit(cirq.X(q) ** a, cirq.Z(q) ** b, cirq.Y(q) ** c, cirq.measure(q, key='z'))
    cop = lambda m: cirq.CircuitOperation(body, param_resolver=m)
    numeric = lambda m: {k: v for k, v in m.items() if isinstance(v, (int, float))}
    return collections.OrderedDict([
        ('ParamResolver', lambda m: cirq.ParamResolver(m)),
        ('CircuitOperation(param_resolver=)', cop),
        ('CircuitOperation.with_params', lambda m: cirq.CircuitOperation(body).with_params(m)),
        ('CircuitOperation.with_params twice', lambda m: cirq.CircuitOperation(body).with_params(dict(list(m.items())[:1])).with_params(dict(list(m.items())[1:]))),
        ('Moment of CircuitOperation', lambda m: cirq.Moment(cop(m))),
        ('FrozenCircuit of CircuitOperation', lambda m: cirq.FrozenCircuit(cop(m))),
        ('CircuitOperation nested', lambda m: cirq.CircuitOperation(cirq.FrozenCircuit(cop(m)), repetitions=2)),
        ('tagged CircuitOperation', lambda m: cop(m).with_tags('vf_t')),
        ('Circuit of CircuitOperation', lambda m: cirq.Circuit(cop(m))),
        ('ListSweep', lambda m: cirq.ListSweep([m])),
        ('to_resolvers', lambda m: tuple(cirq.to_resolvers(m))),
        ('ResultDict', lambda m: cirq.ResultDict(params=cirq.ParamResolver(m), measurements={'z': np.array([[0], [1]])})),
        ('Points', lambda m: tuple(cirq.Points(k, [v, 0.5]) for k, v in numeric(m).items())),
        ('Linspace', lambda m: tuple(cirq.Linspace(k, 0, v, 3) for k, v in numeric(m).items())),
        ('Zip of Points', lambda m: cirq.Zip(*[cirq.Points(k, [v, 0.5]) for k, v in numeric(m).items()])),
        ('Product of Points', lambda m: cirq.Product(*[cirq.Points(k, [v, 0.5]) for k, v in numeric(m).items()])),
        ('dict_to_product_sweep', lambda m: cirq.dict_to_product_sweep({k: [v] for k, v in numeric(m).items()})),
        ('dict_to_zip_sweep', lambda m: cirq.dict_to_zip_sweep({k: [v] for k, v in numeric(m).items()})),
        ('QuantumExecutable(params=)', lambda m: cg.QuantumExecutable(
            cirq.FrozenCircuit(cirq.X(q) ** a, cirq.measure(q, key='z')), cg.BitstringsMeasurement(3), params=m)),
    ])


def spelling_assignments(sympy):
    c = sympy.Symbol('c')
    return [{'a': 0.5}, {'a': 0.5, 'b': 0.25}, {'a': 1, 'b': c + 1}, {'a': 0.5, 'b': 0.75, 'c': -1}, {'a': c}, {'a': 2.0, 'b': 'c'}]


def stream_spellings(ctx, mods, pop, ex):
    """Equal values have equal hashes — across different SPELLINGS of the same value, which the round-trip oracles never
    compare: (a) a fixed grid (every seed alike) of parameter assignments in all their spellings through every entry point
    that takes one; (b) every stored example and explored instance of every class against its respellings (Respeller),
    alone and inside the hashable values that carry it; (c) all pairs of the instances met for one class."""
    cirq = mods['cirq']
    import sympy
    stats = collections.Counter()
    reported = set()

    def report(origin, cls, fails, replay_extra):
        for kind, text, vals in fails:
            inner = eqhash_root(vals[0], vals[1]) if kind in ('hash', 'set') and len(vals) == 2 else None
            if inner is not None and inner[0] is not vals[0]:
                text += f'; the innermost equal parts with different hashes: {_short_repr(inner[0])} and {_short_repr(inner[1])}'
            sig = f'eqhash:{type(inner[0]).__name__ if inner else cls}:{kind}'
            if sig in reported:
                continue
            reported.add(sig)
            rp = dict(kind='eqhash', cls=cls, origin=origin, reprs=[_short_repr(v) for v in vals], **replay_extra)
            try:
                rp['pickle_b64'] = base64.b64encode(pickle.dumps(vals)).decode()
            except Exception:      # noqa
                pass
            ctx.violation(sig, f'{origin}: {text}'[:900], rp)
    # ---- (a) the fixed grid
    entries = spelling_entries(mods)
    for ai, assignment in enumerate(spelling_assignments(sympy)):
        sp = assignment_spellings(sympy, assignment)
        for ename, build in entries.items():
            family = []
            for m in sp:
                try:
                    with warnings.catch_warnings():
                        warnings.simplefilter('ignore')
                        family.append(build(dict(m)))
                except Exception:      # noqa   the entry point rejects this spelling
                    stats['grid_rejected'] += 1
            if len(family) < 2:
                continue
            try:
                neq = sum(1 for i in range(len(family)) for j in range(i + 1, len(family)) if _safe_eq(family[i], family[j]))
            except Exception:      # noqa
                neq = 0
            stats['grid_families'] += 1
            stats['grid_equal_pairs'] += neq
            ctx.count('spellings_grid', f'{ename}|{ai}', neq >= 1, sample=dict(entry=ename, assignment=repr(assignment), spellings=len(family), equal_pairs=neq,
                                                                              example=_short_repr(family[-1])))
            report(f'{ename} over the assignment {assignment!r} in {len(family)} spellings', ename,
                   family_failures(cirq, ename, family), dict(entry=ename, assignment=ai))
    # ---- the model of mapping equality (Codec/MemoHash.v: dict_eqb over keys spelled as names or symbols) against ParamResolver ==
    rows, vtable = [], []

    def g_items(r):
        out = []
        for k, v in r.param_dict.items():
            idx = next((i for i, w in enumerate(vtable) if type(w) is type(v) and w == v), None)
            if idx is None:
                vtable.append(v)
                idx = len(vtable) - 1
            out.append('(%s %s, %d%%Z)' % ('KSym' if isinstance(k, sympy.Symbol) else 'KName', gstr(k.name if isinstance(k, sympy.Symbol) else k), idx))
        return '[' + '; '.join(out) + ']'
    for assignment in spelling_assignments(sympy):
        fam = [cirq.ParamResolver(dict(m)) for m in assignment_spellings(sympy, assignment) if all(type(v) is type(assignment[getattr(k, 'name', k)]) for k, v in m.items())]
        for i in range(len(fam)):
            for j in range(len(fam)):
                rows.append((g_items(fam[i]), g_items(fam[j]), bool(fam[i] == fam[j]), fam[i], fam[j]))
                ctx.count('resolver_eq_model', f'{rows[-1][0]}|{rows[-1][1]}', i != j)
    text = ('From Coq Require Import ZArith List Bool String.\nFrom VF Require Import Base.Harness Codec.JsonMemo Codec.MemoHash.\n'
            'Import ListNotations.\nOpen Scope string_scope.\n')
    text += 'Definition rcases : list (list item * list item * bool) := [\n' + ';\n'.join(
        f'({a}, {b}, {"true" if e else "false"})' for a, b, e, _, _ in rows) + '].\n'
    text += 'Eval vm_compute in failing (fun c => match c with (a, b, e) => Bool.eqb (dict_eqb a b) e end) rcases.\n'
    vals = coq.parse_evals(coq.coq_eval(f'c11_resolvers_{ctx.seed}', text))
    assert len(vals) == 1, vals
    diff = coq.parse_nat_list(vals[0])
    stats['resolver_eq_model_pairs'] = len(rows)
    if diff:
        # which spellings are equal is not pinned by the property (only: equal => same hash, decided above on the real objects)
        a, b, e, x, y = rows[diff[0]]
        ctx.stale_supporting.append(f'resolver_eq: ParamResolver.__eq__ differs from dict equality of the items as written on {len(diff)} pairs, e.g. '
                                    f'{x!r} == {y!r} is {e}; C11_dict_eq_hash then speaks about an equality that is no longer the code\'s '
                                    '(C11_name_eq_raw_hash_refuted describes the hazard)')
    # ---- (b) respellings of the class population
    mut = Mutator(mods, pop, ctx.rng)
    rs = Respeller(mut)
    seen_ids, todo, per_type = set(), [], collections.Counter()
    cap = 6 if ctx.tier == 'quick' else 24
    for t, objs in pop.by_type.items():
        for o in objs:
            todo.append(o)
            seen_ids.add(id(o))
            per_type[type(o)] += 1
    for o in ex.instances:
        if id(o) not in seen_ids and hasattr(o, '_json_dict_') and per_type[type(o)] < 12 + cap:
            todo.append(o)
            seen_ids.add(id(o))
            per_type[type(o)] += 1
    by_cls = collections.defaultdict(list)
    t_end = time.time() + (40 if ctx.tier == 'quick' else 600)
    for x in todo:
        by_cls[type(x)].append(x)
        if time.time() > t_end:
            stats['respell_skipped_time_budget'] += 1
            continue
        try:
            with time_limit(20):
                alts = rs.respellings(x)
        except _Timeout:
            stats['timeouts'] += 1
            continue
        except Exception:      # noqa
            continue
        if not alts:
            continue
        name = type(x).__name__
        family = [x] + alts
        neq = sum(1 for y in alts if _safe_eq(x, y))
        stats['respelled_instances'] += 1
        stats['respellings'] += len(alts)
        stats['respellings_equal_to_source'] += neq
        stats['classes_respelled:' + name] = 1
        ctx.count('spellings_classes', name + '|' + _short_repr(x), neq >= 1, sample=dict(cls=name, value=_short_repr(x), respelled=[_short_repr(y) for y in alts[:3]], equal=neq))
        with time_limit(30):
            try:
                report(f'{name} and its respellings', name, family_failures(cirq, name, family), {})
                for cname, lift in spelling_carriers(cirq, x).items():
                    try:
                        with warnings.catch_warnings():
                            warnings.simplefilter('ignore')
                            lifted = [lift(y) for y in family]
                    except Exception:      # noqa
                        continue
                    report(f'{cname} over {name} and its respellings', name, family_failures(cirq, f'{cname}({name})', lifted, copies=False), dict(carrier=cname))
                    if cname == 'on qids':
                        for c2, lift2 in spelling_carriers(cirq, lifted[0]).items():
                            try:
                                l2 = [lift2(y) for y in lifted]
                            except Exception:      # noqa
                                continue
                            report(f'{c2} over {name} and its respellings', name, family_failures(cirq, f'{c2}({name})', l2, copies=False), dict(carrier=c2))
            except _Timeout:
                stats['timeouts'] += 1
    # ---- (c) all pairs of the instances of one class
    for t, objs in by_cls.items():
        objs = objs[:16]
        try:
            with time_limit(10):
                fails = family_failures(cirq, t.__name__, objs, copies=False)
                stats['class_pairs'] += len(objs) * (len(objs) - 1) // 2
        except _Timeout:
            stats['timeouts'] += 1
            continue
        report(f'instances of {t.__name__}', t.__name__, fails, {})
    nres = sum(1 for k in stats if k.startswith('classes_respelled:'))
    table = {k: v for k, v in stats.items() if not k.startswith('classes_respelled:')}
    table['classes_respelled'] = nres
    table['classes_respelled_names'] = sorted(k.split(':', 1)[1] for k in stats if k.startswith('classes_respelled:'))[:80]
    table['entry_points'] = len(entries)
    ctx.cov['spellings'] = table


# ------------------------------------------------------------------------------------------------ measurement keys of any nesting depth
KEY_GRID = [((), 'm'), (('a',), 'm'), (('a', 'b'), 'm'), (('x', 'y', 'z'), 'm'), (('0', '1'), 'm'), (('a', 'a-'), 'k0'),
            (('a-', 'b'), 'm'), (('a', 'z'), 'm'), (('r0', 'r1'), 'p'), (('a', 'b', 'c', 'd'), 'm_1'), (('', 'b'), 'm'), (('a', 'b'), '')]
KEY_ALPHABET = 'ab01-_ .Z'
CASES_HEADER_KEYS = ('From Coq Require Import List Bool String.\nFrom VF Require Import Base.Harness Codec.KeyPath.\n'
                     'Import ListNotations.\nOpen Scope string_scope.\n')


def g_mkey(path, name):
    return 'MKey [%s] %s' % ('; '.join(gstr(c) for c in path), gstr(name))


def key_entries(cirq):
    """Every way a key reaches a serialisable value: name -> builder(path, name). The key is always built as an object
    (or arises from scoping operations), never from a remembered string."""
    import sympy
    q0, q1 = cirq.LineQubit(0), cirq.LineQubit(1)
    K = lambda p, n: cirq.MeasurementKey(name=n, path=tuple(p))

    def nested_loops(p, n):
        op = cirq.measure(q0, key=n)
        body = [cirq.H(q0), op]
        for comp in reversed(p):
            op = cirq.CircuitOperation(cirq.FrozenCircuit(body), repetitions=2, repetition_ids=[comp, comp + '-'], use_repetition_ids=True)
            body = [op]
        return cirq.unroll_circuit_op(cirq.Circuit(body), deep=True, tags_to_check=None)

    def store(p, n):
        st = cirq.ClassicalDataDictionaryStore()
        st.record_measurement(K(p, n), (0, 1), (q0, q1))
        st.record_channel_measurement(K(p, n + 'c'), 3)
        return st
    return collections.OrderedDict([
        ('MeasurementKey', lambda p, n: K(p, n)),
        ('MeasurementGate', lambda p, n: cirq.MeasurementGate(2, key=K(p, n), invert_mask=(True,))),
        ('measure', lambda p, n: cirq.measure(q0, q1, key=K(p, n))),
        ('PauliMeasurementGate', lambda p, n: cirq.PauliMeasurementGate([cirq.X, cirq.Y], key=K(p, n))),
        ('measure_single_paulistring', lambda p, n: cirq.measure_single_paulistring(cirq.X(q0) * cirq.Z(q1), key=K(p, n))),
        ('with_key_path', lambda p, n: cirq.with_key_path(cirq.measure(q0, key=n), tuple(p))),
        ('with_key_path_prefix', lambda p, n: cirq.with_key_path_prefix(cirq.measure(q0, key=K(p[1:], n)), tuple(p[:1]))),
        ('with_classical_controls', lambda p, n: cirq.X(q1).with_classical_controls(K(p, n))),
        ('KeyCondition', lambda p, n: cirq.KeyCondition(K(p, n))),
        ('KeyCondition[index]', lambda p, n: cirq.KeyCondition(K(p, n), 0)),
        ('BitMaskKeyCondition', lambda p, n: cirq.BitMaskKeyCondition(K(p, n), 0, 1)),
        ('SympyCondition', lambda p, n: cirq.SympyCondition(sympy.Symbol(str(K(p, n))) > 0)),
        ('CircuitOperation(parent_path)', lambda p, n: cirq.CircuitOperation(
            cirq.FrozenCircuit(cirq.measure(q0, key=n), cirq.X(q1).with_classical_controls(n)), parent_path=tuple(p))),
        ('nested repetitions unrolled', nested_loops),
        ('Circuit', lambda p, n: cirq.Circuit(cirq.measure(q0, key=K(p, n)), cirq.X(q1).with_classical_controls(K(p, n)))),
        ('FrozenCircuit in CircuitOperation', lambda p, n: cirq.CircuitOperation(
            cirq.FrozenCircuit(cirq.measure(q0, key=K(p, n)), cirq.measure(q1, key=K(p[:-1], n + '2'))))),
        ('Moment', lambda p, n: cirq.Moment(cirq.measure(q0, key=K(p, n)), cirq.measure(q1, key=K(p, n + 'z')))),
        ('ClassicalDataDictionaryStore', store),
    ])


def key_value_failures(cirq, ns, x):
    """The property on one value that carries keys: JSON, pickle and deep copy give back an equal value with equal hash
    whose keys have the SAME path entries and name and sort the same way, also after one more scope is added."""
    fails = []
    structure = lambda v: (lambda d: None if d is None else {k: w for k, w in d.items() if k != 'in_domain'})(key_structure(cirq, v))
    want = structure(x)

    def scoped(v):
        if isinstance(v, (cirq.Operation, cirq.AbstractCircuit, cirq.Moment, cirq.MeasurementKey)):
            try:
                return structure(cirq.with_key_path_prefix(v, ('vf_scope',)))
            except Exception as e:      # noqa
                return 'raises ' + type(e).__name__
        return None

    def judge(how, y):
        if not (_safe_eq(y, x) and _safe_eq(x, y)):
            fails.append((how, f'{how} gives {_short_repr(y)}, not equal to the value written'))
            return
        if _hashable(x) and hash(y) != hash(x):
            fails.append((how + '-hash', f'{how}: equal value, different hash'))
        got = structure(y)
        if got != want:
            d = next((k for k in (want or {}) if (got or {}).get(k) != want[k]), None)
            fails.append((how + '-keys', f'{how} changes the keys: {d} was {(want or {}).get(d)!r}, comes back as {(got or {}).get(d)!r}'))
        elif scoped(y) != scoped(x):
            fails.append((how + '-rescope', f'{how}: after adding one scope the keys are {scoped(y)!r}, for the value written {scoped(x)!r}'))
    for how, f in (('read_json(to_json(x))', lambda: cirq.read_json(json_text=cirq.to_json(x))),
                   ('pickle', lambda: pickle.loads(pickle.dumps(x))), ('deepcopy', lambda: copy.deepcopy(x))):
        try:
            with warnings.catch_warnings():
                warnings.simplefilter('ignore')
                judge(how, f())
        except Exception as e:      # noqa
            fails.append((how, f'{how} raises {type(e).__name__}: {e}'[:300]))
    if isinstance(x, (cirq.MeasurementKey, cirq.Gate, cirq.Operation)):
        try:
            with warnings.catch_warnings():
                warnings.simplefilter('ignore')
                z = eval(repr(cirq.read_json(json_text=cirq.to_json(x))), dict(ns), {})
        except Exception:      # noqa  (reprs that do not evaluate are the class stream's matter)
            z = None
        if z is not None and _safe_eq(z, x) and structure(z) != want:
            fails.append(('repr-keys', f'eval(repr(read_json(to_json(x)))) has keys {structure(z)!r}, the value written {want!r}'))
    return fails


def stream_keys(ctx, mods):
    """Keys with 0..4 path entries through every entry point that puts a key into a document (fixed grid for every seed,
    then random ones), and the key-string codec against Codec/KeyPath.v."""
    cirq = mods['cirq']
    ns = eval_namespace(mods)
    entries = key_entries(cirq)
    quick = ctx.tier == 'quick'
    cases = list(KEY_GRID)
    for _ in range(30 if quick else 400):
        depth = ctx.rng.choice([0, 1, 2, 2, 3, 3, 4])
        word = lambda lo: ''.join(ctx.rng.choice(KEY_ALPHABET) for _ in range(ctx.rng.randint(lo, 3)))
        cases.append((tuple(word(0) for _ in range(depth)), word(0)))
    stats = collections.Counter(entry_points=len(entries))
    # ---- the property on real values
    for ci, (p, n) in enumerate(cases):
        for ename, build in entries.items():
            if ci >= len(KEY_GRID) and ctx.rng.random() < 0.5:
                continue
            try:
                with warnings.catch_warnings():
                    warnings.simplefilter('ignore')
                    x = build(tuple(p), n)
                    ks = key_structure(cirq, x)
            except Exception:      # noqa   the entry point rejects this key (empty repetition id ...)
                stats['rejected_by_constructor'] += 1
                continue
            deepest = max((len(k[0]) for lab, v in (ks or {}).items() if lab != 'in_domain' and not lab.endswith(':order') for k in v), default=0)
            stats[f'depth_{min(deepest, 4)}'] += 1
            ctx.count('key_paths', f'{ename}|{p}|{n}', deepest >= 2, sample=dict(entry=ename, path=list(p), name=n, value=_short_repr(x)))
            for how, detail in key_value_failures(cirq, ns, x):
                ctx.violation(f'keypath:{ename}:{how}', f'{ename} with key path={tuple(p)!r} name={n!r}: {detail}; x = {_short_repr(x)}'[:700],
                              dict(kind='keypath', entry=ename, path=list(p), name=n))
    # ---- correspondence of the key-string codec with the model
    q0 = cirq.LineQubit(0)
    rows, raw = [], []
    for p, n in cases:
        k = cirq.MeasurementKey(name=n, path=tuple(p))
        s_impl = str(k)
        kp = cirq.MeasurementKey.parse_serialized(s_impl)
        doc = json.loads(cirq.to_json(cirq.MeasurementGate(1, key=k)))
        kj = cirq.read_json(json_text=json.dumps(doc)).mkey
        rows.append((p, n, s_impl, doc['key'], (tuple(kp.path), kp.name), (tuple(kj.path), kj.name)))
        ctx.count('key_codec', f'{p}|{n}', len(p) >= 2, sample=dict(path=list(p), name=n, written=doc['key'], read_back=[list(kj.path), kj.name]))
    for _ in range(60 if quick else 600):
        t = ''.join(ctx.rng.choice(KEY_ALPHABET + ':::') for _ in range(ctx.rng.randint(0, 9)))
        kp = cirq.MeasurementKey.parse_serialized(t)
        raw.append((t, (tuple(kp.path), kp.name), str(kp)))
        ctx.count('key_codec', 'raw|' + t, t.count(':') >= 2)
    text = CASES_HEADER_KEYS + 'Definition kcases : list (mkey * string * string * mkey * mkey) := [\n' + ';\n'.join(
        f'({g_mkey(p, n)}, {gstr(s1)}, {gstr(s2)}, {g_mkey(*kp)}, {g_mkey(*kj)})' for p, n, s1, s2, kp, kj in rows) + '].\n'
    text += ('Eval vm_compute in failing (fun c => match c with (k, s1, s2, kp, kj) => String.eqb (key_str k) s1 && String.eqb (key_str k) s2 '
             '&& mkey_eqb (key_parse s1) kp && mkey_eqb (key_roundtrip k) kj end) kcases.\n')
    text += 'Definition rcases : list (string * mkey * string) := [\n' + ';\n'.join(
        f'({gstr(t)}, {g_mkey(*kp)}, {gstr(back)})' for t, kp, back in raw) + '].\n'
    text += ('Eval vm_compute in failing (fun c => match c with (s, kp, back) => mkey_eqb (key_parse s) kp && String.eqb (key_str (key_parse s)) back '
             'end) rcases.\n')
    vals = coq.parse_evals(coq.coq_eval(f'c11_keys_{ctx.seed}', text))
    assert len(vals) == 2, vals
    for idx in coq.parse_nat_list(vals[0]):
        p, n, s1, s2, kp, kj = rows[idx]
        ctx.mark_broken('correspondence:key_codec', f'MeasurementKey(path={p!r}, name={n!r}): str {s1!r}, written {s2!r}, parse_serialized -> {kp!r}, '
                        f'read back from a MeasurementGate document -> {kj!r}; the model (join / split at every separator) disagrees')
    for idx in coq.parse_nat_list(vals[1]):
        t, kp, back = raw[idx]
        ctx.mark_broken('correspondence:key_codec', f'MeasurementKey.parse_serialized({t!r}) = {kp!r} (str: {back!r}) differs from the model')
    # ---- the refuted statement replayed: a path entry that contains the separator is split on reading, the values stay ==
    w = cirq.MeasurementKey(path=('a:b',), name='m')
    back = cirq.read_json(json_text=cirq.to_json(cirq.MeasurementGate(1, key=w))).mkey
    stats['refuted_witness_splits_on_implementation'] = bool(tuple(back.path) != tuple(w.path) and back == w)
    if not stats['refuted_witness_splits_on_implementation']:
        ctx.stale_supporting.append('C11_key_roundtrip_refuted: the witness MeasurementKey(path=("a:b",), name="m") now keeps its path (or is no longer ==)')
    stats['cases'] = len(cases)
    ctx.cov['key_paths'] = dict(stats)


# ------------------------------------------------------------------------------------------------ optional shape fields
CASES_HEADER_OPT = ('From Coq Require Import List Bool NArith.\nFrom VF Require Import Base.Harness Codec.OptField.\n'
                    'Import ListNotations.\nOpen Scope N_scope.\n')


def g_shape(s):
    return '[' + '; '.join(str(int(d)) for d in s) + ']'


def g_opt_shape(o):
    return 'None' if o is None else f'(Some {g_shape(o)})'


def shape_field_entries(cirq, rng):
    """entry -> (kind, build(shape)).  kind 'width': the companion is a square matrix (Codec/OptField.v part 2);
    ('count', default): the companion is num_qubits, `default` when the document has none (part 3)."""
    import numpy as np

    def unitary(dim):
        rs = np.random.RandomState(rng.randrange(2 ** 31))
        m = rs.normal(size=(dim, dim)) + 1j * rs.normal(size=(dim, dim))
        q, r = np.linalg.qr(m)
        return q * (np.diag(r) / np.abs(np.diag(r)))
    prod = Mutator._prod
    return collections.OrderedDict([
        ('MatrixGate', ('width', lambda sh: cirq.MatrixGate(unitary(prod(sh)), qid_shape=sh))),
        ('MatrixGate(name=)', ('width', lambda sh: cirq.MatrixGate(unitary(prod(sh)), qid_shape=sh, name='U'))),
        ('MatrixGate(diagonal)', ('width', lambda sh: cirq.MatrixGate(np.diag([1j ** k for k in range(prod(sh))]), qid_shape=sh))),
        ('IdentityGate', (('count', None), lambda sh: cirq.IdentityGate(qid_shape=sh))),
        ('MeasurementGate', (('count', None), lambda sh: cirq.MeasurementGate(key='m', qid_shape=sh))),
        ('MeasurementGate(invert_mask=)', (('count', None), lambda sh: cirq.MeasurementGate(key='m', qid_shape=sh, invert_mask=(True,)))),
        ('WaitGate', (('count', 1), lambda sh: cirq.WaitGate(cirq.Duration(nanos=5), qid_shape=sh))),
    ])


def _find_gate_doc(doc):
    """the dict of the gate inside the document of a gate / an operation / a circuit holding one operation"""
    if isinstance(doc, dict):
        if 'gate' in doc and isinstance(doc['gate'], dict):
            return doc['gate']
        for k in ('moments', 'operations'):
            if k in doc:
                return _find_gate_doc(doc[k])
        return doc
    if isinstance(doc, list) and doc:
        return _find_gate_doc(doc[0])
    return doc


def stream_optional_shapes(ctx, mods):
    """Gates whose document carries a qid shape next to a companion that implies one by itself (the width of a matrix, a count
    of qubits): every shape of the grid (every seed alike) through every entry, alone / applied to qudits / in a circuit.
    Property (deciding, judged on the values): the shape and the value come back.  Correspondence: what the reader makes of the
    field AS FOUND in the document (present or absent) against Codec/OptField.v, and the constructors' own inference."""
    cirq = mods['cirq']
    import numpy as np
    quick = ctx.tier == 'quick'
    grid = [tuple(s) for s in shape_grid(quick) if Mutator._prod(s) <= 32]
    entries = shape_field_entries(cirq, ctx.rng)
    stats = collections.Counter(entries=len(entries), shapes=len(grid))
    wrows, crows, meta = [], [], []
    for ename, (kind, build) in entries.items():
        for sh in grid:
            try:
                with warnings.catch_warnings():
                    warnings.simplefilter('ignore')
                    g = build(sh)
                    qids = cirq.LineQid.for_qid_shape(sh)
                    forms = [('gate', g), ('operation', g.on(*qids)), ('circuit', cirq.Circuit(g.on(*qids)))]
            except Exception:      # noqa
                stats['rejected_by_constructor'] += 1
                continue
            pow2 = Mutator._prod(sh) & (Mutator._prod(sh) - 1) == 0
            tells = kind == 'width' and pow2 and any(d != 2 for d in sh)
            for form, x in forms:
                text, r, err = None, None, None
                try:
                    text = cirq.to_json(x)
                    y = cirq.read_json(json_text=text)
                    r = tuple(cirq.qid_shape(y))
                    same = _safe_eq(y, x) and _safe_eq(x, y)
                except Exception as e:      # noqa
                    err, same = f'{type(e).__name__}: {e}'[:200], False
                ctx.count('optional_shapes', f'{ename}|{sh}|{form}', tells or any(d != 2 for d in sh),
                          sample=dict(entry=ename, qid_shape=list(sh), form=form))
                gd = _find_gate_doc(json.loads(text)) if text is not None else {}
                o = gd.get('qid_shape')
                stats['documents_with_the_field' if o is not None else 'documents_without_the_field'] += 1
                if err is not None or r != sh or not same:
                    got = f'reading the document back raises {err}' if err else (
                        f'read back with qid_shape {r}' if r != sh else 'the shape comes back but the value read is not == the one written')
                    ctx.violation(f'optfield:{ename.split("(")[0]}:qid_shape',
                                  f'{ename} with qid_shape={sh} ({form}): the document {"holds qid_shape " + str(o) if o is not None else "has no qid_shape field"}; '
                                  f'{got}; x = {_short_repr(x)}'[:700],
                                  dict(kind='optshape', entry=ename, shape=list(sh), form=form))
                if form != 'gate' or err is not None:
                    continue
                if kind == 'width':
                    wrows.append((len(gd.get('matrix', [])), sh, o, r))
                    meta.append(('w', ename, sh, tells))
                else:
                    c = gd.get('num_qubits', kind[1])
                    if c is None:
                        c = len(o) if o is not None else 0
                    crows.append((int(c), sh, o, r))
    # the constructors' own inference
    irows, nrows = [], []
    for w in range(0, 41 if quick else 130):
        try:
            irows.append((w, tuple(cirq.qid_shape(cirq.MatrixGate(np.eye(w))))))
        except ValueError:
            irows.append((w, None))
    for n in range(1, 7):
        for mk in (lambda n: cirq.IdentityGate(n), lambda n: cirq.MeasurementGate(n, key='m'), lambda n: cirq.WaitGate(cirq.Duration(nanos=5), num_qubits=n)):
            nrows.append((n, tuple(cirq.qid_shape(mk(n)))))
    text = CASES_HEADER_OPT
    text += 'Definition wcases : list (N * shape * option shape * shape) := [\n' + ';\n'.join(
        f'({w}, {g_shape(sh)}, {g_opt_shape(o)}, {g_shape(r)})' for w, sh, o, r in wrows) + '].\n'
    text += 'Eval vm_compute in failing (fun c => match c with (w, s, o, r) => opt_eqb shape_eqb (shape_read w o) (Some r) end) wcases.\n'
    text += ('Eval vm_compute in failing (fun c => match c with (w, s, o, r) => opt_eqb shape_eqb (shape_roundtrip omit_if_inferable w s) (Some s) '
             'end) wcases.\n')
    text += ('Eval vm_compute in failing (fun c => match c with (w, s, o, r) => gate_ok w s && opt_eqb shape_eqb (shape_roundtrip omit_never w s) (Some s) '
             '&& opt_eqb shape_eqb (shape_roundtrip omit_if_equal w s) (Some s) end) wcases.\n')
    text += 'Definition ccases : list (N * shape * option shape * shape) := [\n' + ';\n'.join(
        f'({c}, {g_shape(sh)}, {g_opt_shape(o)}, {g_shape(r)})' for c, sh, o, r in crows) + '].\n'
    text += 'Eval vm_compute in failing (fun c => match c with (n, s, o, r) => opt_eqb shape_eqb (count_read n o) (Some r) end) ccases.\n'
    text += 'Definition icases : list (N * option shape) := [' + '; '.join(f'({w}, {g_opt_shape(sh)})' for w, sh in irows) + '].\n'
    text += 'Eval vm_compute in failing (fun c => match c with (w, i) => opt_eqb shape_eqb (infer_shape w) i end) icases.\n'
    text += 'Definition ncases : list (N * shape) := [' + '; '.join(f'({n}, {g_shape(sh)})' for n, sh in nrows) + '].\n'
    text += 'Eval vm_compute in failing (fun c => match c with (n, i) => opt_eqb shape_eqb (infer_count n) (Some i) end) ncases.\n'
    vals = coq.parse_evals(coq.coq_eval(f'c11_optshape_{ctx.seed}', text))
    assert len(vals) == 6, vals
    for idx in coq.parse_nat_list(vals[0]):
        w, sh, o, r = wrows[idx]
        ctx.mark_broken('correspondence:optional_shape', f'{meta[idx][1]} of width {w} with qid_shape={sh}: the document has qid_shape = {o}, the value read back '
                        f'has shape {r}; the model reader (the field if present, else what the width implies) disagrees')
    told = set(coq.parse_nat_list(vals[1]))
    if told != {i for i, m in enumerate(meta) if m[3]}:
        ctx.mark_broken('harness:optional_shape', 'the cases on which the model tells omit-if-inferable from the sound rules are not the ones the generator flags')
    stats['grid_cases_that_tell_the_refuted_rule_apart'] = len(told)
    if not told:
        ctx.mark_broken('harness:optional_shape', 'no case of the grid distinguishes the refuted writer rule')
    for idx in coq.parse_nat_list(vals[2]):
        ctx.mark_broken('harness:optional_shape', f'case {wrows[idx][:2]}: the width is not the product of the shape, or a sound rule fails in the model')
    for idx in coq.parse_nat_list(vals[3]):
        c, sh, o, r = crows[idx]
        ctx.mark_broken('correspondence:optional_shape', f'gate over a count of {c} qubits with qid_shape={sh}: the document has qid_shape = {o}, the value read back '
                        f'has shape {r}; the model reader (the field if present, else (2,) * count) disagrees')
    for idx in coq.parse_nat_list(vals[4]):
        ctx.mark_broken('correspondence:optional_shape', f'cirq.MatrixGate(np.eye({irows[idx][0]})) infers {irows[idx][1]}; the model infers otherwise')
    for idx in coq.parse_nat_list(vals[5]):
        ctx.mark_broken('correspondence:optional_shape', f'a gate over {nrows[idx][0]} qubits has shape {nrows[idx][1]}; the model says (2,) * count')
    for name, rows in (('infer_width', irows), ('infer_count', nrows)):
        for row in rows:
            ctx.count('optional_shapes', f'{name}|{row}', True)
    # the refuted rule's witness on the implementation: the document of MatrixGate(.., qid_shape=(4,)) with the field deleted
    g = cirq.MatrixGate(np.eye(4), qid_shape=(4,))
    doc = json.loads(cirq.to_json(g))
    doc.pop('qid_shape', None)
    try:
        back = cirq.read_json(json_text=json.dumps(doc))
        stats['witness_document_without_the_field'] = f'reads with shape {tuple(cirq.qid_shape(back))}'
        if tuple(cirq.qid_shape(back)) == (4,):
            ctx.stale_supporting.append('C11_shape_omitted_if_inferable_refuted: a MatrixGate document of width 4 without qid_shape now reads as one qudit')
    except Exception as e:      # noqa
        stats['witness_document_without_the_field'] = f'rejected by the reader ({type(e).__name__})'
    ctx.cov['optional_shapes'] = dict(stats)


# ------------------------------------------------------------------------------------------------ canonical forms
CASES_HEADER_CANON = ('From Coq Require Import ZArith List Bool.\nFrom VF Require Import Base.Harness Codec.CanonForm.\n'
                      'Import ListNotations.\nLocal Open Scope Z_scope.\n')
CANON_D = 8            # exponents of the grid are multiples of 1/8 (axis phases of 1/16): exact in binary floating point
CANON_X = (-2.0, -1.5, -1.0, -0.5, -0.25, 0.0, 0.125, 0.5, 1.0, 1.5, 2.0, 2.5)
CANON_Z = (-1.5, -1.0, -0.5, 0.0, 0.25, 1.0, 1.5)
CANON_A = (-1.25, -1.0, 0.0, 0.125, 0.75, 1.0, 2.5)


def stream_canonical_forms(ctx, mods):
    """cirq.PhasedXZGate (== through `_canonical`, coarser than the matrix) on a fixed grid of dyadic exponents inside and outside
    the canonical ranges.  Property (deciding, judged on the values): the gate read back from its document has the exponents and
    the matrix of the gate written.  Correspondence with Codec/CanonForm.v: which gates of the grid cirq's == identifies
    (pxz_same), the phase of det cirq.unitary(g) (pxz_det_phase), and the exponents found in the document (pxz_write_stored)."""
    cirq = mods['cirq']
    import numpy as np
    D = CANON_D
    gates, rows = [], []
    stats = collections.Counter()
    for x in CANON_X:
        for z in CANON_Z:
            for a in CANON_A:
                gates.append((x, z, a, cirq.PhasedXZGate(x_exponent=x, z_exponent=z, axis_phase_exponent=a)))
    units = lambda x, z, a: (int(round(x * D)), int(round(z * D)), int(round(a * 2 * D)))      # noqa
    reps = {}
    for i, (x, z, a, g) in enumerate(gates):
        # first gate of the grid that cirq's == identifies with this one (hash buckets only narrow the search: equal => equal hash
        # is judged by the spellings stream)
        rep = next((j for j in range(i) if gates[j][3] == g), i)
        reps[i] = rep
        u = cirq.unitary(g)
        det = int(round(float(np.angle(np.linalg.det(u))) / np.pi * D)) % (2 * D)
        text = cirq.to_json(g)
        doc = json.loads(text)
        try:
            wrote = units(doc['x_exponent'], doc['z_exponent'], doc['axis_phase_exponent'])
        except Exception:      # noqa
            wrote = None
        y = cirq.read_json(json_text=text)
        canonical = 0 <= x <= 1 and -1 < z <= 1 and -1 < a <= 1 and (x != 0 or a == 0) and (x != 1 or z == 0)
        stats['in_canonical_ranges' if canonical else 'outside_canonical_ranges'] += 1
        stats['equal_to_an_earlier_gate'] += rep != i
        ctx.count('canonical_forms', f'PhasedXZGate|{x}|{z}|{a}', not canonical, sample=dict(x_exponent=x, z_exponent=z, axis_phase_exponent=a))
        rows.append((units(x, z, a), rep, det, wrote))
        # the property itself, on the values
        bad = []
        got = (getattr(y, 'x_exponent', None), getattr(y, 'z_exponent', None), getattr(y, 'axis_phase_exponent', None))
        if type(y) is not type(g) or got != (x, z, a):
            bad.append(f'exponents (x, z, axis phase) = {(x, z, a)} are read back as {got}')
        v = cirq.unitary(y, None)
        if v is None or not np.allclose(u, v, atol=1e-8):
            bad.append('cirq.unitary differs' + ('' if v is None else f' (max |delta| = {np.abs(u - v).max():.3g})'))
            q0, q1 = cirq.LineQubit.range(2)
            c1, c2 = (cirq.Circuit(cirq.H(q0), h.on(q1).controlled_by(q0)) for h in (g, y))
            if not cirq.equal_up_to_global_phase(cirq.unitary(c1), cirq.unitary(c2), atol=1e-8):
                bad.append('the controlled gate in a circuit differs even up to global phase')
        if not (_safe_eq(y, g) and _safe_eq(g, y)):
            bad.append('the gate read back is not == the one written')
        elif bad:
            bad.append('although the two compare equal')
        if bad and stats['violations'] < 3:
            stats['violations'] += 1
            ctx.violation('canonform:PhasedXZGate:' + ('exponents' if 'exponents' in bad[0] else 'behaviour'),
                          f'read_json(to_json(g)) for g = {g!r}: ' + '; '.join(bad) + f'; the document holds {({k: doc.get(k) for k in ("x_exponent", "z_exponent", "axis_phase_exponent")})}',
                          dict(kind='class', cls='cirq.protocols/PhasedXZGate', check='behaviour', origin='canonical_forms', repr=repr(g),
                               json_text=json.dumps(dict(cirq_type='PhasedXZGate', x_exponent=x, z_exponent=z, axis_phase_exponent=a))))
    g3 = lambda t: '(%d, %d, %d)' % t      # noqa
    text = CASES_HEADER_CANON
    text += 'Definition gs : list pxz := [\n' + ';\n'.join(g3(r[0]) for r in rows) + '].\n'
    text += ('Fixpoint first_same (g : pxz) (l : list pxz) (n : nat) : nat := match l with [] => n | h :: t => '
             f'if pxz_same {D} h g then n else first_same g t (S n) end.\n')
    text += 'Definition cases : list (pxz * nat * Z * pxz) := [\n' + ';\n'.join(
        f'({g3(u)}, {rep}%nat, {det}, {g3(w if w is not None else (99999, 99999, 99999))})' for u, rep, det, w in rows) + '].\n'
    text += 'Eval vm_compute in failing (fun c => match c with (g, rep, det, w) => Nat.eqb (first_same g gs 0) rep end) cases.\n'
    text += f'Eval vm_compute in failing (fun c => match c with (g, rep, det, w) => pxz_det_phase {D} g =? det end) cases.\n'
    text += f'Eval vm_compute in failing (fun c => match c with (g, rep, det, w) => pxz_eqb (pxz_write_stored {D} g) w end) cases.\n'
    text += (f'Eval vm_compute in failing (fun c => match c with (g, rep, det, w) => pxz_det_phase {D} (pxz_write_canon {D} g) =? pxz_det_phase {D} g end) cases.\n')
    vals = coq.parse_evals(coq.coq_eval(f'c11_canon_{ctx.seed}', text))
    assert len(vals) == 4, vals
    show = lambda i: 'PhasedXZGate(x_exponent=%r, z_exponent=%r, axis_phase_exponent=%r)' % gates[i][:3]      # noqa
    for idx in coq.parse_nat_list(vals[0])[:5]:
        ctx.mark_broken('correspondence:canonical_forms', f'{show(idx)} == {show(reps[idx])} is the first equality cirq finds in the grid; '
                        'the model of _canonical identifies it with another gate first (or none)')
    for idx in coq.parse_nat_list(vals[1])[:5]:
        ctx.mark_broken('correspondence:canonical_forms', f'det cirq.unitary({show(idx)}) has phase {rows[idx][2]}/{D} pi; the model says (x + z) mod 2')
    for idx in coq.parse_nat_list(vals[2])[:5]:
        ctx.mark_broken('correspondence:canonical_forms', f'the document of {show(idx)} holds the exponents {rows[idx][3]} (units of 1/{D}, 1/{D}, 1/{2 * D}); '
                        'the model writer puts the stored exponents down')
    told = coq.parse_nat_list(vals[3])
    stats['grid_cases_on_which_the_canonical_writer_changes_the_matrix'] = len(told)
    if not told:
        ctx.mark_broken('harness:canonical_forms', 'no gate of the grid tells the canonical writer (C11_pxz_canonical_writer_behaviour_refuted) from the stored one')
    ctx.cov['canonical_forms'] = dict(stats)


# ------------------------------------------------------------------------------------------------ Qid ordering
def qid_pool(mods, pop):
    cirq, cp, cg = mods['cirq'], mods['cirq_pasqal'], mods['cirq_google']
    pool = []
    pool += [cirq.LineQubit(x) for x in (-1, 0, 1, 2, 10)]
    pool += [cirq.LineQid(x, d) for x in (0, 1, 2) for d in (2, 3, 4)]
    pool += [cirq.GridQubit(r, c) for r, c in ((0, 0), (0, 1), (1, 0), (2, -1), (10, 2))]
    pool += [cirq.GridQid(r, c, dimension=d) for r, c in ((0, 0), (0, 1), (1, 0)) for d in (2, 3)]
    pool += [cirq.NamedQubit(n) for n in ('a', 'b', 'a1', 'a10', 'a2', 'a02', '', 'q0', 'a1b2')]
    pool += [cirq.NamedQid(n, d) for n in ('a', 'a2', 'a10') for d in (2, 3)]
    pool += [cp.ThreeDQubit(1, 2, 3), cp.ThreeDQubit(0, 0, 0), cp.TwoDQubit(1, 2), cp.TwoDQubit(0, 3)]
    pool += [cp.ThreeDQubit(1, 2, 3).with_dimension(3), cirq.testing.NoIdentifierQubit(), cirq.testing.NoIdentifierQubit().with_dimension(4)]
    pool += [cg.Coupler(cirq.GridQubit(0, 0), cirq.GridQubit(0, 1)), cg.Coupler(cirq.GridQubit(0, 1), cirq.GridQubit(1, 1))]
    # qids made of qids, over every kind of member (integer-hashed, string-hashed, other dimensions, mixed classes)
    pool += [cg.Coupler(cirq.NamedQubit('a'), cirq.NamedQubit('b')), cg.Coupler(cirq.NamedQubit('c'), cirq.NamedQubit('b')),
             cg.Coupler(cirq.NamedQid('u', dimension=3), cirq.NamedQid('v', dimension=3)), cg.Coupler(cirq.LineQubit(0), cirq.LineQubit(1)),
             cg.Coupler(cirq.LineQid(0, dimension=3), cirq.LineQid(2, dimension=3)), cg.Coupler(cirq.NamedQubit('a'), cirq.GridQubit(0, 0)),
             cirq.NamedQubit('a').with_dimension(3), cirq.GridQubit(0, 1).with_dimension(4)]
    for t, objs in pop.by_type.items():
        if isinstance(t, type) and issubclass(t, cirq.Qid):
            for o in objs:
                if not any(o is p for p in pool):
                    pool.append(o)
    return pool


def _enc_key(k):
    if isinstance(k, bool):
        raise ValueError(k)
    if isinstance(k, int):
        return [k]
    if isinstance(k, float):
        if k != int(k):
            raise ValueError(k)
        return [int(k)]
    if isinstance(k, str):
        return [ord(c) + 1 for c in k] + [0]
    if isinstance(k, tuple):
        out = []
        for e in k:
            out += _enc_key(e)
        return out
    raise ValueError(k)


def _qid_family(cirq, q):
    """0 = comparisons inherited from Qid (_cmp_tuple); otherwise the base class that overrides __lt__"""
    for c in type(q).__mro__:
        if '__lt__' in c.__dict__:
            return None if c is cirq.Qid else c
    return None


def stream_qids(ctx, mods, pop):
    cirq = mods['cirq']
    pool = qid_pool(mods, pop)
    stats = collections.Counter(pool=len(pool), classes=len({type(q) for q in pool}))
    # ---- the property's own statement on the real objects
    def viol(sig, what, qs):
        ctx.violation('qid-order:' + sig, what, dict(kind='qids', reprs=[repr(q) for q in qs],
                                                     pickle_b64=base64.b64encode(pickle.dumps(list(qs))).decode()))
    # comparisons that raise: the order is not total there.  Reported, and the offending qids leave the pool so that the rest of
    # the stream (sorting, transitivity, the model) can run on comparable ones
    def raising(pl):
        out = collections.defaultdict(list)
        for a in pl:
            for b in pl:
                try:
                    (a < b, a > b, a <= b, a >= b, a == b, a != b)
                except Exception as e:      # noqa
                    out[id(a)].append((b, e))
        return out
    full_pool = pool
    while True:
        r = raising(pool)
        if not r:
            break
        worst = max(pool, key=lambda q: len(r.get(id(q), [])))
        b, e = r[id(worst)][0]
        viol(f'raises:{type(worst).__name__}/{type(b).__name__}',
             f'comparing {worst!r} with {b!r} raises {type(e).__name__}: {e} (the order must be total; sorted() of the two fails)', (worst, b))
        stats['qids_removed_because_comparison_raises'] += 1
        pool = [q for q in pool if q is not worst]
    stats['pool'] = len(pool)
    for a in pool:
        for b in pool:
            lt, gt, eq = bool(a < b), bool(a > b), bool(a == b)
            stats['pairs'] += 1
            ctx.count('qid_pairs', repr((a, b)), type(a) is not type(b))
            if [lt, eq, gt].count(True) != 1:
                viol(f'trichotomy:{type(a).__name__}/{type(b).__name__}', f'{a!r} vs {b!r}: <,==,> = {lt},{eq},{gt} (exactly one must hold)', (a, b))
            if bool(a <= b) != (lt or eq) or bool(a >= b) != (gt or eq) or bool(a != b) != (not eq) or gt != bool(b < a):
                viol(f'derived:{type(a).__name__}/{type(b).__name__}', f'{a!r} vs {b!r}: <=, >=, != or reflected < disagree with <, ==', (a, b))
            if eq and hash(a) != hash(b):
                viol(f'hash:{type(a).__name__}/{type(b).__name__}', f'{a!r} == {b!r} but hashes differ', (a, b))
    ntri = 4000 if ctx.tier == 'quick' else 60000
    for _ in range(ntri):
        a, b, c = (ctx.rng.choice(pool) for _ in range(3))
        stats['triples'] += 1
        if a < b and b < c and not a < c:
            viol('transitivity', f'{a!r} < {b!r} < {c!r} but not {a!r} < {c!r}', (a, b, c))
        if a == b and b == c and not a == c:
            viol('eq-transitivity', f'{a!r} == {b!r} == {c!r} but not {a!r} == {c!r}', (a, b, c))
        if a == b and (bool(a < c) != bool(b < c) or bool(c < a) != bool(c < b)):
            viol('eq-congruence', f'{a!r} == {b!r} but they compare differently with {c!r}', (a, b, c))
    sorts = []
    for _ in range(40 if ctx.tier == 'quick' else 400):
        sub = ctx.rng.sample(pool, ctx.rng.randint(2, min(14, len(pool))))
        s1 = sorted(sub)
        sh = list(sub)
        ctx.rng.shuffle(sh)
        s2 = sorted(sh)
        stats['sorts'] += 1
        ctx.count('qid_sorted', repr(sub), len({type(q) for q in sub}) >= 2, sample=dict(input=[repr(q) for q in sub], sorted=[repr(q) for q in s1]))
        if any(s1[j] < s1[i] for i in range(len(s1)) for j in range(i + 1, len(s1))) or any(not x == y for x, y in zip(s1, s2)):
            viol('sorted', f'sorted() of {sub!r} is not ordered or depends on the input order: {s1!r} / {s2!r}', sub)
        sorts.append((sub, s1))
    # ---- correspondence with the model (classes whose keys are integers/strings/tuples of those)
    fams, modelled = [], {}
    def rec(q):
        fam_cls = _qid_family(cirq, q)
        if fam_cls is not None and fam_cls not in fams:
            fams.append(fam_cls)
        fam = 0 if fam_cls is None else fams.index(fam_cls) + 1
        tn = [ord(c) for c in type(q).__name__]
        tr = [ord(c) for c in repr(type(q))]
        return (tn, tr, _enc_key(q._comparison_key()), int(q.dimension), fam)
    for i, q in enumerate(pool):
        try:
            modelled[i] = rec(q)
        except (ValueError, TypeError):
            stats['not_modelled'] += 1
    idx = sorted(modelled)
    ZL = coq.zlist
    g = lambda r: f'(mkQid {ZL(r[0])} {ZL(r[1])} {ZL(r[2])} {coq.zlit(r[3])} {coq.zlit(r[4])})'
    table = sorted({(tuple(r[0]), tuple(r[1]), r[4]) for r in modelled.values()})
    text = CASES_HEADER + 'Definition pool : list qid := [\n' + ';\n'.join(g(modelled[i]) for i in idx) + '].\n'
    text += 'Definition tbl : list trow := [' + '; '.join(f'({ZL(a)}, {ZL(b)}, {coq.zlit(f)})' for a, b, f in table) + '].\n'
    text += 'Eval vm_compute in fam_table_ok tbl.\n'
    pos = {i: n for n, i in enumerate(idx)}
    rows = []
    for i in idx:
        for j in idx:
            rows.append((pos[i], pos[j], bool(pool[i] < pool[j]), bool(pool[i] == pool[j])))
    text += 'Definition dq := mkQid [] [] [] 0 0.\n'
    text += 'Definition cmp_cases : list (nat * nat * bool * bool) := [' + '; '.join(
        f'({a}%nat, {b}%nat, {"true" if lt else "false"}, {"true" if eq else "false"})' for a, b, lt, eq in rows) + '].\n'
    text += ('Eval vm_compute in failing (fun c => match c with (a, b, lt, eq) => '
             'Bool.eqb (qid_ltb (nth a pool dq) (nth b pool dq)) lt && Bool.eqb (qid_eqb (nth a pool dq) (nth b pool dq)) eq end) cmp_cases.\n')
    srows = []
    for sub, s1 in sorts:
        ii = [next(i for i, p in enumerate(pool) if p is q) for q in sub]
        jj = [next(i for i, p in enumerate(pool) if p is q) for q in s1]
        if all(i in modelled for i in ii):
            srows.append(([pos[i] for i in ii], [pos[i] for i in jj]))
    text += 'Definition sort_cases : list (list nat * list nat) := [' + '; '.join(
        '([%s], [%s])' % ('; '.join(f'{a}%nat' for a in x), '; '.join(f'{a}%nat' for a in y)) for x, y in srows) + '].\n'
    text += ('Definition qsame (a b : qid) := cmp_eqb a b && Z.eqb (q_fam a) (q_fam b).\n'
             'Eval vm_compute in failing (fun c => match c with (x, y) => '
             'list_eqb qsame (qsort (map (fun i => nth i pool dq) x)) (map (fun i => nth i pool dq) y) end) sort_cases.\n')
    vals = coq.parse_evals(coq.coq_eval(f'c11_qids_{ctx.seed}', text))
    assert len(vals) == 3, vals
    stats['modelled'] = len(idx)
    stats['class_table_rows'] = len(table)
    stats['families'] = len(fams)
    if vals[0].strip() != 'true':
        # the hypothesis of C11_qid_mixed_trans_table fails for the registered classes: the theorem no longer covers them;
        # decide on the real objects, exhaustively over the pool
        ctx.mark_broken('obligation:fam_table_ok', 'the registered Qid class table is not convex: a class name sorts between two classes of one '
                        f'comparison family; the transitivity theorem does not apply. table={[("".join(map(chr, a)), f) for a, b, f in table]}')
        lt = {(i, j): bool(pool[i] < pool[j]) for i in range(len(pool)) for j in range(len(pool))}
        for i in range(len(pool)):
            for j in range(len(pool)):
                if lt[i, j]:
                    for k in range(len(pool)):
                        if lt[j, k] and not lt[i, k]:
                            viol('transitivity', f'{pool[i]!r} < {pool[j]!r} < {pool[k]!r} but not {pool[i]!r} < {pool[k]!r}', (pool[i], pool[j], pool[k]))
    # The property pins totality and consistency with equality, not one particular order: a different but total order is a stale
    # supporting lemma (DESIGN 2.3(2)); the oracle above has already decided the property on the real objects.
    diff = coq.parse_nat_list(vals[1])
    if diff:
        a, b, lt_, eq_ = rows[diff[0]]
        ctx.stale_supporting.append(f'qid_compare: the order implemented differs from the model on {len(diff)} pairs, e.g. {pool[idx[a]]!r} vs {pool[idx[b]]!r} (implementation <:{lt_} ==:{eq_}); '
                                    'C11_qid_mixed_total / C11_qid_mixed_trans_table then describe an order that is no longer the code\'s')
    diff = coq.parse_nat_list(vals[2])
    if diff:
        ctx.stale_supporting.append(f'qid_sorted: model sort differs from sorted() on {len(diff)} samples, e.g. {[repr(pool[idx[i]]) for i in srows[diff[0]][0]]}')
    # ---- the refuted statement, replayed on the implementation (outside the property's quantifier: an unregistered class)
    class LineQjx(cirq.Qid):
        def __init__(self, x):
            self.x = x

        def _comparison_key(self):
            return self.x

        @property
        def dimension(self):
            return 2
    a, b, c = cirq.LineQid(9, 3), LineQjx(0), cirq.LineQubit(1)
    stats['refuted_witness_cycles_on_implementation'] = bool(a < b and b < c and not a < c)
    if not stats['refuted_witness_cycles_on_implementation']:
        ctx.stale_supporting.append('C11_qid_mixed_trans_refuted: the witness no longer cycles on the implementation')
    ctx.cov['qid_order'] = dict(stats)


# ------------------------------------------------------------------------------------------------ the id()-keyed encoder cache (F5)
def _audit_encoder(cirq):
    import weakref
    from cirq.protocols.json_serialization import CirqEncoder

    class AuditEncoder(CirqEncoder):
        """records a weak reference to every object whose id() enters _cache: a dead one means a reusable id"""
        def __init__(self, *a, **kw):
            super().__init__(*a, **kw)
            self.audit, self.unauditable = [], 0

        def default(self, o):
            r = super().default(o)
            if id(o) in self._cache:
                try:
                    self.audit.append(weakref.ref(o))
                except TypeError:
                    self.unauditable += 1
            return r
    return AuditEncoder


def stream_id_cache(ctx, mods, pop, ex_instances):
    cirq = mods['cirq']
    Audit, NoCache = _audit_encoder(cirq), _nocache_encoder(cirq)
    stats = collections.Counter()
    # (a) which classes hand fresh serialisable children to the encoder (the precondition of a stale id)
    fresh = set()
    for t, objs in pop.by_type.items():
        for o in objs[:2]:
            try:
                d1, d2 = o._json_dict_(), o._json_dict_()
            except Exception:      # noqa
                continue
            if not isinstance(d1, dict):
                continue
            for k in d1:
                v1, v2 = d1[k], d2.get(k)
                items1 = list(v1) if isinstance(v1, (list, tuple)) else [v1]
                items2 = list(v2) if isinstance(v2, (list, tuple)) else [v2]
                for e1, e2 in zip(items1, items2):
                    if hasattr(e1, '_json_dict_') and e1 is not e2:
                        fresh.add(f'{t.__name__}.{k}' + (' (by-key parent)' if isinstance(o, cirq.SerializableByKey) else ''))
    stats['classes_with_fresh_serialisable_children'] = len(fresh)
    # (b) stress: big nestings of short-lived temporaries around shared by-key circuits, audited
    insts = [x for x in ex_instances if hasattr(x, '_json_dict_')]
    rounds = 25 if ctx.tier == 'quick' else 250
    for r in range(rounds):
        q = cirq.LineQubit.range(3)
        fcs = [cirq.FrozenCircuit(cirq.X(q[i % 3]) ** (0.125 * i), cirq.measure(q[i % 3], key=f'k{i}')) for i in range(ctx.rng.randint(1, 4))]
        items = []
        for _ in range(ctx.rng.randint(20, 80)):
            c = ctx.rng.random()
            if c < 0.35 and insts:
                items.append(ctx.rng.choice(insts))
            elif c < 0.55:
                items.append(cirq.CircuitOperation(ctx.rng.choice(fcs), repetitions=ctx.rng.randint(1, 3)))
            elif c < 0.7:
                items.append({'fc': ctx.rng.choice(fcs), 'z': complex(ctx.rng.random(), 1.0), 'l': [ctx.rng.choice(fcs)]})
            elif c < 0.85:
                import sympy, numpy as np
                items.append([sympy.Symbol('s') * ctx.rng.randint(1, 5) + 1, np.float32(0.5), np.int64(ctx.rng.randint(0, 9))])
            else:
                items.append(cirq.Circuit(cirq.Moment(cirq.CircuitOperation(ctx.rng.choice(fcs))), cirq.Y(q[0]) ** ctx.rng.random()))
        try:
            with warnings.catch_warnings():
                warnings.simplefilter('ignore')
                enc = Audit(indent=2)
                text = enc.encode(items)
                ref = json.dumps(items, indent=2, cls=NoCache)
                back = cirq.read_json(json_text=text)
        except TypeError as e:
            if 'unhashable type' in str(e):
                stats['rounds_skipped_unhashable'] += 1
                continue
            raise
        dead = sum(1 for w in enc.audit if w() is None)
        stats['rounds'] += 1
        stats['cached_objects_audited'] += len(enc.audit)
        stats['cached_objects_not_weakrefable'] += enc.unauditable
        stats['cached_objects_dead_during_dump'] += dead
        ctx.count('id_cache_stress', text[:2000] + str(len(text)), True, sample=dict(items=len(items), bytes=len(text), vals=text.count('"VAL"'), refs=text.count('"REF"')))
        if text != ref or not _deep_eq(back, items):
            ctx.violation('codec:id-cache', 'the id()-keyed CirqEncoder._cache changed a document (stale id) or the stress value did not round-trip',
                          dict(kind='id_cache', round=r, seed=ctx.seed))
        elif dead:
            ctx.mark_broken('audit:id-cache', f'{dead} cached objects died during one dump: their ids are reusable while _cache still maps them')
    # (c) the hazard itself, with a by-key class that is NOT registered (outside the property's quantifier): documents F5
    class Leaf:
        def __init__(self, n):
            self.n = n

        def _json_dict_(self):
            return {'n': self.n}

        @classmethod
        def _json_namespace_(cls):
            return 'vf'

    class Fresh(cirq.SerializableByKey):
        def __init__(self, n):
            self.n = n

        def _json_dict_(self):
            return {'kids': [Leaf(self.n * 100 + i) for i in range(3)]}

        @classmethod
        def _json_namespace_(cls):
            return 'vf'

        def __eq__(self, o):
            return isinstance(o, Fresh) and o.n == self.n

        def __hash__(self):
            return hash(('F', self.n))
    doc = json.loads(cirq.to_json([Fresh(i) for i in range(1, 6)]))
    got = [[k['n'] for k in d['val']['kids']] for d in doc]
    want = [[i * 100 + j for j in range(3)] for i in range(1, 6)]
    stats['hazard_reproduced_with_unregistered_by_key_class'] = got != want
    ctx.cov['id_cache'] = dict(stats, fresh_children=sorted(fresh)[:40])


# ------------------------------------------------------------------------------------------------ another process, another hash seed
XPROC_CHILD = r"""
import sys, pickle, json, warnings
warnings.simplefilter('ignore')
import cirq, cirq_google, cirq_ionq, cirq_aqt, cirq_pasqal
rows = pickle.load(open(sys.argv[1], 'rb'))
bad = []
for i, (label, data, text) in enumerate(rows):
    try:
        p = pickle.loads(data)
        f = cirq.read_json(json_text=text)
        if not (p == f) or hash(p) != hash(f) or {f: 1}.get(p) != 1:
            bad.append([i, label, 'unpickled value and freshly read value: == %s, hashes equal %s, dict look-up %s; value %s'
                        % (p == f, hash(p) == hash(f), {f: 1}.get(p) == 1, repr(f)[:200])])
    except Exception as e:
        bad.append([i, label, type(e).__name__ + ': ' + str(e)[:200]])
print('XPROC ' + json.dumps(bad))
"""


def xproc_extras(ctx, mods, pop, ex):
    """More pickles for the second process, the same for every seed: (a) every qid of the pool — alone and inside an operation,
    a tagged operation, a measurement, a Pauli string, a moment, a frozen circuit and a circuit operation — and (b) the
    operations / moments / circuits met by the class stream with their qubits replaced by string-hashed ones, so that every
    level that memoises a hash (qid, qid of qids, moment, frozen circuit, circuit operation) sits over members whose hashes
    differ between the two processes.  History: every value is hashed before it is pickled."""
    cirq = mods['cirq']
    stats = collections.Counter()

    def add(label, x):
        try:
            with time_limit(10), warnings.catch_warnings():
                warnings.simplefilter('ignore')
                text = cirq.to_json(x)
                if not _safe_eq(cirq.read_json(json_text=text), x):
                    stats['not_serialisable_or_unequal_in_process'] += 1
                    return
                hash(x)
                {x: 1}
                data = pickle.dumps(x)
        except Exception:      # noqa   not serialisable / not hashable / not picklable: the class stream reports those
            stats['not_serialisable_or_unequal_in_process'] += 1
            return
        ex.xproc.append((label, data, text))
        stats['values'] += 1

    def containers(q):
        d = q.dimension
        op = cirq.IdentityGate(qid_shape=(d,)).on(q)
        yield 'qid', q
        yield 'operation', op
        yield 'tagged operation', op.with_tags('vf_tag')
        yield 'measurement', cirq.measure(q, key='vf_k')
        if d == 2:
            yield 'pauli string', cirq.PauliString({q: cirq.X})
            yield 'controlled operation', cirq.Z(cirq.LineQubit(99)).controlled_by(q)
        yield 'moment', cirq.Moment(op)
        fc = cirq.FrozenCircuit(op, cirq.measure(q, key='vf_k'))
        yield 'frozen circuit', fc
        yield 'circuit operation', cirq.CircuitOperation(fc, repetitions=2)
    for q in qid_pool(mods, pop):
        try:
            vals = list(containers(q))
        except Exception:      # noqa
            stats['qid_not_usable_in_operations'] += 1
            vals = [('qid', q)]
        for cname, v in vals:
            add(f'{type(q).__name__}:qid-grid:{cname}:{_short_repr(q)[:90]}', v)
    per_type = collections.Counter()
    cap = 3 if ctx.tier == 'quick' else 12
    for x in list(ex.instances):
        if not isinstance(x, (cirq.Operation, cirq.Moment, cirq.AbstractCircuit)) or per_type[type(x)] >= cap:
            continue
        try:
            qs = sorted(x.qubits if not isinstance(x, cirq.AbstractCircuit) else x.all_qubits())
            if not qs:
                continue
            m = {q: (cirq.NamedQubit(f'vf_r{i}') if q.dimension == 2 else cirq.NamedQid(f'vf_r{i}', dimension=q.dimension)) for i, q in enumerate(qs)}
            y = x.transform_qubits(m)
        except Exception:      # noqa   (classes bound to one qubit type)
            stats['rename_not_applicable'] += 1
            continue
        per_type[type(x)] += 1
        add(f'{type(x).__name__}:renamed-qubits:{_short_repr(y)[:90]}', y)
    stats['renamed_types'] = len(per_type)
    ctx.cov['cross_process_extras'] = dict(stats)


def stream_xproc(ctx, mods, ex):
    """Pickles made AFTER the hash was cached are opened in a process with another PYTHONHASHSEED: the unpickled value must
    equal, and hash like, the value read freshly from JSON there (equal values have equal hashes, in any history)."""
    rows = ex.xproc
    if not rows:
        return
    d = os.path.join(env.BUILD, 'cases')
    os.makedirs(d, exist_ok=True)
    path = os.path.join(d, f'c11_xproc_{ctx.seed}.pkl')
    pickle.dump(rows, open(path, 'wb'))
    child = os.path.join(d, f'c11_xproc_{ctx.seed}.py')
    open(child, 'w').write(XPROC_CHILD)
    envv = dict(os.environ, PYTHONHASHSEED='12345')
    p = subprocess.run([sys.executable, '-W', 'ignore', child, path], stdout=subprocess.PIPE, stderr=subprocess.STDOUT, text=True,
                       env=envv, timeout=600)
    m = re.search(r'^XPROC (.*)$', p.stdout, re.M)
    if not m:
        ctx.mark_broken('harness:xproc', p.stdout[-1500:])
        return
    bad = json.loads(m.group(1))
    for i, label, why in bad:
        cls = label.split(':')[0]
        ctx.violation(f'xproc:{cls}', f'{label}: pickled after hashing, opened under another hash seed: {why}',
                      dict(kind='xproc', label=label, pickle_b64=base64.b64encode(rows[i][1]).decode(), json_text=rows[i][2]))
    for label, _, _ in rows:
        ctx.count('xproc', label, True)
    ctx.cov['cross_process'] = dict(values=len(rows), failing=len(bad), child_hash_seed=12345)
