"""C11 — JSON round-trips every value and keeps reading old documents (DESIGN 5/C11).

Split (MANIFEST level `other`):
  * proof      — the codec core (Codec/JsonMemo.v): VAL/REF memo encoder and ObjectHook decoder, value equality through
                 canonical forms, Qid ordering; tied to the code by vm_compute correspondence streams.
  * exploration — the per-class `_json_dict_`/`_from_json_dict_` pairs (Python object construction): every class registered in
                 the five resolver caches, stored examples plus generated mutants, nested with shared sub-circuits.
"""
import base64, collections, copy, datetime, inspect, io, json, os, pickle, re, signal, subprocess, sys, time, warnings
from .. import env, coq, runner

LEVEL = 'other'
META = dict(
    text='Proof part: Coq theorems over an executable model of CirqEncoder/ObjectHook (values and JSON documents as finite trees, memo keyed by equality): decode(encode v) = v for every finite value with any sharing, VAL keys dense, one VAL per distinct by-key object, every REF met after its VAL is complete; value equality via canonical forms implies equal hashes (PeriodicValue, @value_equality); Qid._cmp_tuple is a strict total order and the order the qubit classes implement is total, consistent with equality and transitive for the registered class table (checked by vm_compute on every run). The model is compared with the implementation on every run (full JSON text of generated nestings of by-key/plain objects, decoder results incl. malformed and legacy documents, VAL/REF key sequences of real FrozenCircuit nestings, qubit comparisons and sorted()). Exploration part (deciding for the per-class half): every class registered in the resolver caches of cirq, cirq_google, cirq_ionq, cirq_aqt, cirq_pasqal is instantiated from its stored examples and from generated mutants of its constructor arguments, alone and nested in lists/dicts/circuits with shared sub-circuits, and checked for JSON round trip (== and hash), repr evaluation, behaviour (unitary, keys, str), pickle/copy/deepcopy incl. a second process with another hash seed; every stored .json/.json_inward reads to the value of its paired .repr; the id()-keyed encoder cache is stressed and audited.',
    note='Not covered by proof: the ~210 per-class _json_dict_/_from_json_dict_ pairs (Python object construction) — explored only, on stored examples and generated mutants; classes with stored examples only, and skipped ones, are listed in the evidence. Trusted: Coq kernel; the Python adapters in vf/checks/c11.py (building Cirq objects from abstract trees, printing Gallina terms); json/pickle/copy of CPython. The model identifies sharing with equality (as CirqEncoder._memo does) and does not model object identity, so the id()-keyed CirqEncoder._cache is explored (audit + stress), not proved. Theorems are closed under the global context.',
    technique='Rocq/Coq proof over an executable Gallina model of the codec core + vm_compute correspondence; typed mutation-based exploration of the registered class population',
)

VENDORS = ('cirq_google', 'cirq_ionq', 'cirq_aqt', 'cirq_pasqal')
SPEC_MODULES = ['cirq.protocols', 'cirq_google', 'cirq_ionq', 'cirq_aqt', 'cirq_pasqal']


# ------------------------------------------------------------------------------------------------ helpers
class _Timeout(Exception):
    pass


class time_limit:
    def __init__(self, secs):
        self.secs = secs

    def _h(self, *a):
        raise _Timeout()

    def __enter__(self):
        self.old = signal.signal(signal.SIGALRM, self._h)
        signal.setitimer(signal.ITIMER_REAL, self.secs)

    def __exit__(self, *a):
        signal.setitimer(signal.ITIMER_REAL, 0)
        signal.signal(signal.SIGALRM, self.old)
        return False


def gstr(s):
    assert all(32 <= ord(c) < 127 for c in s), s
    return '"' + s.replace('"', '""') + '"'


def g_value(v):
    """abstract value (python tuples) -> Gallina term of type value"""
    k = v[0]
    if k == 'null':
        return 'VNull'
    if k == 'num':
        return f'(VNum {coq.zlit(v[1])})'
    if k == 'str':
        return f'(VStr {gstr(v[1])})'
    if k == 'arr':
        t = 'VNil'
        for x in reversed(v[1]):
            t = f'(VCons {g_value(x)} {t})'
        return f'(VArr {t})'
    if k == 'dict':
        return f'(VDict {g_fields(v[1])})'
    if k == 'obj':
        return f'(VObj {gstr(v[1])} {g_fields(v[2])})'
    raise ValueError(v)


def g_fields(fs):
    t = 'VFNil'
    for k, x in reversed(fs):
        t = f'(VFCons {gstr(k)} {g_value(x)} {t})'
    return t


def g_json(j):
    """parsed JSON (object_pairs_hook=list of pairs wrapped as ('o', pairs)) -> Gallina term of type json"""
    if j is None:
        return 'JNull'
    if isinstance(j, bool):
        raise ValueError('bool not in the model')
    if isinstance(j, int):
        return f'(JNum {coq.zlit(j)})'
    if isinstance(j, str):
        return f'(JStr {gstr(j)})'
    if isinstance(j, list):
        t = 'JNil'
        for x in reversed(j):
            t = f'(JCons {g_json(x)} {t})'
        return f'(JArr {t})'
    if isinstance(j, tuple) and j[0] == 'o':
        t = 'JFNil'
        for k, x in reversed(j[1]):
            t = f'(JFCons {gstr(k)} {g_json(x)} {t})'
        return f'(JObj {t})'
    raise ValueError(j)


def parse_json_ordered(text):
    return json.loads(text, object_pairs_hook=lambda pairs: ('o', pairs))


def dump_json_ordered(j):
    if isinstance(j, tuple) and j[0] == 'o':
        return '{' + ', '.join(json.dumps(k) + ': ' + dump_json_ordered(x) for k, x in j[1]) + '}'
    if isinstance(j, list):
        return '[' + ', '.join(dump_json_ordered(x) for x in j) + ']'
    return json.dumps(j)


def text_events(text):
    """VAL/REF keys of a cirq.to_json text in document order."""
    return [(m.group(1) == 'VAL', int(m.group(2)))
            for m in re.finditer(r'"cirq_type":\s*"(VAL|REF)",\s*"key":\s*(\d+)', text)]


CASES_HEADER = ('From Coq Require Import ZArith List Bool String.\nFrom VF Require Import Base.Harness Codec.JsonMemo.\n'
                'Import ListNotations.\nOpen Scope string_scope.\nOpen Scope Z_scope.\n')


# ------------------------------------------------------------------------------------------------ generic classes
def make_generic_classes(cirq):
    """Plain and by-key classes whose fields are arbitrary: the code's codec core without any per-class logic."""
    def freeze(x):
        if isinstance(x, list):
            return ('l',) + tuple(freeze(y) for y in x)
        if isinstance(x, dict):
            return ('d',) + tuple((k, freeze(y)) for k, y in x.items())
        return x

    class Base:
        def __init__(self, **fields):
            self.fields = fields

        def _json_dict_(self):
            return dict(self.fields)

        @classmethod
        def _json_namespace_(cls):
            return 'vf'

        def __eq__(self, other):
            return type(other) is type(self) and freeze(self.fields) == freeze(other.fields)

        def __ne__(self, other):
            return not self == other

        def __hash__(self):
            return hash((type(self).__name__, freeze(self.fields)))

        def __repr__(self):
            return f'{type(self).__name__}({self.fields!r})'

    classes = {}
    for name in ('P0', 'P1'):
        classes['vf.' + name] = type(name, (Base,), {})
    for name in ('K0', 'K1'):
        classes['vf.' + name] = type(name, (Base, cirq.SerializableByKey), {})
    return classes


def gen_generic_value(rng, pool, depth):
    """abstract value; by-key objects are reused from `pool` to create sharing."""
    r = rng.random()
    if depth <= 0 or r < 0.18:
        c = rng.random()
        if c < 0.45:
            return ('num', rng.choice([0, 1, 2, 3, -7, 2 ** 70]))
        if c < 0.85:
            return ('str', rng.choice(['a', 'b', 'VALUE', 'key', '']))
        return ('null',)
    if pool and r < 0.42:
        return rng.choice(pool)
    if r < 0.55:
        return ('arr', [gen_generic_value(rng, pool, depth - 1) for _ in range(rng.randint(0, 3))])
    if r < 0.65:
        ks = rng.sample(['a', 'b', 'c', 'key', 'val'], rng.randint(0, 3))
        return ('dict', [(k, gen_generic_value(rng, pool, depth - 1)) for k in ks])
    tag = rng.choice(['vf.K0', 'vf.K0', 'vf.K1', 'vf.P0', 'vf.P1'])
    ks = rng.sample(['a', 'b', 'c', 'key', 'val', 'obj'], rng.randint(0, 3))
    v = ('obj', tag, [(k, gen_generic_value(rng, pool, depth - 1)) for k in ks])
    if tag.startswith('vf.K'):
        pool.append(v)
    return v


def realise_generic(v, classes):
    k = v[0]
    if k == 'null':
        return None
    if k in ('num', 'str'):
        return v[1]
    if k == 'arr':
        return [realise_generic(x, classes) for x in v[1]]
    if k == 'dict':
        return {kk: realise_generic(x, classes) for kk, x in v[1]}
    return classes[v[1]](**{kk: realise_generic(x, classes) for kk, x in v[2]})


def abstract_generic(o, classes):
    """python object read back by read_json -> abstract value"""
    if o is None:
        return ('null',)
    if isinstance(o, bool):
        raise ValueError('bool')
    if isinstance(o, int):
        return ('num', o)
    if isinstance(o, str):
        return ('str', o)
    if isinstance(o, list):
        return ('arr', [abstract_generic(x, classes) for x in o])
    if isinstance(o, dict):
        return ('dict', [(k, abstract_generic(x, classes)) for k, x in o.items()])
    for tag, c in classes.items():
        if type(o) is c:
            return ('obj', tag, [(k, abstract_generic(x, classes)) for k, x in o.fields.items()])
    raise ValueError(repr(o))


def sharing_ok(o, is_key_obj, seen=None):
    """In a decoded structure, equal by-key objects must be ONE object."""
    seen = {} if seen is None else seen
    stack, ok = [o], True
    visited = set()
    while stack:
        x = stack.pop()
        if id(x) in visited:
            continue
        visited.add(id(x))
        if is_key_obj(x):
            if x in seen and seen[x] is not x:
                ok = False
            seen.setdefault(x, x)
        if isinstance(x, (list, tuple)):
            stack.extend(x)
        elif isinstance(x, dict):
            stack.extend(x.values())
        elif hasattr(x, 'fields') and isinstance(getattr(x, 'fields'), dict):
            stack.extend(x.fields.values())
    return ok


def mutate_doc(rng, j):
    """Damage a document: swap two array members (REF before VAL), change a key, drop a member, retag."""
    arrays, objs = [], []

    def walk(x):
        if isinstance(x, list):
            arrays.append(x)
            for y in x:
                walk(y)
        elif isinstance(x, tuple):
            objs.append(x)
            for _, y in x[1]:
                walk(y)
    j = copy.deepcopy(j)
    walk(j)
    kind = rng.choice(['swap', 'key', 'drop', 'retag', 'swapf'])
    if kind == 'swap':
        c = [a for a in arrays if len(a) >= 2]
        if c:
            a = rng.choice(c)
            i, k = rng.sample(range(len(a)), 2)
            a[i], a[k] = a[k], a[i]
    elif kind == 'swapf':
        c = [o for o in objs if len(o[1]) >= 2 and not any(k == 'cirq_type' for k, _ in o[1])]
        if c:
            o = rng.choice(c)
            i, k = rng.sample(range(len(o[1])), 2)
            o[1][i], o[1][k] = o[1][k], o[1][i]
    elif kind == 'key':
        c = [o for o in objs if dict(o[1]).get('cirq_type') in ('VAL', 'REF')]
        if c:
            o = rng.choice(c)
            for idx, (k, x) in enumerate(o[1]):
                if k == 'key':
                    o[1][idx] = ('key', x + rng.choice([1, -1, 5]))
    elif kind == 'drop':
        c = [o for o in objs if dict(o[1]).get('cirq_type') in ('VAL', 'REF')]
        if c:
            o = rng.choice(c)
            del o[1][rng.randrange(1, len(o[1]))]
    else:
        c = [o for o in objs if dict(o[1]).get('cirq_type') == 'REF']
        if c:
            o = rng.choice(c)
            o[1][0] = ('cirq_type', rng.choice(['_SerializedKey', 'VAL', 5]))
    return j


def legacy_doc(rng, pool_vals, top, classes):
    """A document in the legacy context format: contexts first, keys inside."""
    # every by-key abstract object gets a context entry in dependency order; occurrences become _SerializedKey
    order = []

    def collect(v):
        if v[0] == 'arr':
            for x in v[1]:
                collect(x)
        elif v[0] == 'dict':
            for _, x in v[1]:
                collect(x)
        elif v[0] == 'obj':
            for _, x in v[2]:
                collect(x)
            if v[1].startswith('vf.K') and v not in order:
                order.append(v)
    collect(top)
    keys = {id(o): i + 1 for i, o in enumerate(order)}
    keyof = lambda v: next(i + 1 for i, o in enumerate(order) if o == v)

    def enc(v, inline=False):
        if v[0] == 'null':
            return None
        if v[0] in ('num', 'str'):
            return v[1]
        if v[0] == 'arr':
            return [enc(x) for x in v[1]]
        if v[0] == 'dict':
            return ('o', [(k, enc(x)) for k, x in v[1]])
        if v[1].startswith('vf.K') and not inline:
            return ('o', [('cirq_type', '_SerializedKey'), ('key', keyof(v))])
        return ('o', [('cirq_type', v[1])] + [(k, enc(x)) for k, x in v[2]])
    dag = [('o', [('cirq_type', '_SerializedContext'), ('key', keyof(o)), ('obj', enc(o, inline=True))]) for o in order]
    dag.append(enc(top))
    return ('o', [('cirq_type', '_ContextualSerialization'), ('object_dag', dag)])


def stream_memo_generic(ctx, cirq, n):
    classes = make_generic_classes(cirq)
    resolver = lambda t: classes.get(t) if isinstance(t, str) else None
    resolvers = [resolver] + list(cirq.DEFAULT_RESOLVERS)
    is_key = lambda x: isinstance(x, cirq.SerializableByKey)
    enc_rows, dec_rows = [], []
    for i in range(n):
        pool = []
        v = gen_generic_value(ctx.rng, pool, ctx.rng.randint(1, 5))
        obj = realise_generic(v, classes)
        text = cirq.to_json(obj)
        j = parse_json_ordered(text)
        evs = text_events(text)
        nvals = sum(1 for e in evs if e[0])
        nrefs = len(evs) - nvals
        enc_rows.append((v, j))
        ctx.count('memo_encode', g_value(v), nvals >= 1 and nrefs >= 1,
                  sample=dict(value=repr(obj)[:300], vals=nvals, refs=nrefs, events=evs[:12]))
        # property-level oracle on the real code: round trip, sharing
        back = cirq.read_json(json_text=text, resolvers=resolvers)
        if back != obj or not sharing_ok(back, is_key):
            ctx.violation('codec:generic-roundtrip', f'read_json(to_json(x)) != x (or sharing lost) for generic object tree {obj!r}'[:600],
                          dict(kind='generic', value=v))
        # decoder: the same document, damaged documents, legacy documents
        docs = [j]
        for _ in range(2):
            docs.append(mutate_doc(ctx.rng, j))
        if i % 3 == 0:
            docs.append(legacy_doc(ctx.rng, pool, v, classes))
        for d in docs:
            dtext = dump_json_ordered(d)
            try:
                res = abstract_generic(cirq.read_json(json_text=dtext, resolvers=resolvers), classes)
            except (KeyError, ValueError, TypeError, IndexError):
                res = None
            dec_rows.append((d, res))
            ctx.count('memo_decode', dtext, 'REF' in dtext or '_SerializedKey' in dtext,
                      sample=dict(doc=dtext[:300], result='error' if res is None else 'value'))
    text = CASES_HEADER + 'Definition bk (t : string) : bool := String.prefix "vf.K" t.\n'
    text += 'Definition enc_cases : list (value * json) := [\n' + ';\n'.join(
        f'({g_value(v)}, {g_json(j)})' for v, j in enc_rows) + '].\n'
    text += ('Eval vm_compute in failing (fun c => match c with (v, j) => wf v && json_eqb (encode bk v) j end) enc_cases.\n')
    text += 'Definition dec_cases : list (json * option value) := [\n' + ';\n'.join(
        f'({g_json(d)}, {coq.opt(r, g_value)})' for d, r in dec_rows) + '].\n'
    text += 'Eval vm_compute in failing (fun c => match c with (j, r) => opt_eqb value_eqb (decode j) r end) dec_cases.\n'
    vals = coq.parse_evals(coq.coq_eval(f'c11_generic_{ctx.seed}', text))
    assert len(vals) == 2, vals
    for idx in coq.parse_nat_list(vals[0]):
        v, j = enc_rows[idx]
        ctx.mark_broken('correspondence:memo_encode', f'model encode differs from cirq.to_json on {g_value(v)[:400]}: {dump_json_ordered(j)[:400]}')
    for idx in coq.parse_nat_list(vals[1]):
        d, r = dec_rows[idx]
        ctx.mark_broken('correspondence:memo_decode', f'model decode differs from cirq.read_json on {dump_json_ordered(d)[:400]}: implementation gave {r}')
    ctx.cov['memo_generic'] = dict(encode_cases=len(enc_rows), decode_cases=len(dec_rows),
                                   decode_errors=sum(1 for _, r in dec_rows if r is None))


# ------------------------------------------------------------------------------------------------ real circuits
def gen_circ_tree(rng, pool, depth):
    """abstract nesting of FrozenCircuits (by key), CircuitOperations, Circuits, lists and dicts"""
    r = rng.random()
    if depth <= 0:
        return ('op', rng.randrange(4))
    if pool and r < 0.35:
        return rng.choice(pool)
    if r < 0.60:
        kids = [gen_circ_op(rng, pool, depth - 1) for _ in range(rng.randint(0, 3))]
        tags = rng.choice([(), (), ('t0',), ('t0', 't1')])
        v = ('fc', kids, tags)
        pool.append(v)
        return v
    if r < 0.72:
        return ('circ', [gen_circ_op(rng, pool, depth - 1) for _ in range(rng.randint(0, 3))])
    if r < 0.88:
        return ('list', [gen_circ_tree(rng, pool, depth - 1) for _ in range(rng.randint(1, 3))])
    ks = rng.sample(['a', 'b', 'c'], rng.randint(1, 3))
    return ('dict', [(k, gen_circ_tree(rng, pool, depth - 1)) for k in ks])


def gen_circ_op(rng, pool, depth):
    if depth <= 0 or rng.random() < 0.4:
        return ('op', rng.randrange(4))
    fcs = [p for p in pool if p[0] == 'fc']
    if fcs and rng.random() < 0.5:
        fc = rng.choice(fcs)
    else:
        fc = ('fc', [gen_circ_op(rng, pool, depth - 1) for _ in range(rng.randint(0, 2))], rng.choice([(), (), ('t0',)]))
        pool.append(fc)
    return ('cop', fc, rng.choice([1, 2, 3]))


def realise_circ(v, cirq):
    k = v[0]
    if k == 'op':
        return cirq.X(cirq.LineQubit(v[1]))
    if k == 'cop':
        return cirq.CircuitOperation(realise_circ(v[1], cirq), repetitions=v[2])
    if k == 'fc':
        return cirq.FrozenCircuit([cirq.Moment(realise_circ(x, cirq)) for x in v[1]], tags=v[2])
    if k == 'circ':
        return cirq.Circuit([cirq.Moment(realise_circ(x, cirq)) for x in v[1]])
    if k == 'list':
        return [realise_circ(x, cirq) for x in v[1]]
    return {kk: realise_circ(x, cirq) for kk, x in v[1]}


def model_circ(v):
    """the model value: atoms for gate operations, objects for everything that can hold a by-key circuit"""
    k = v[0]
    if k == 'op':
        return ('num', v[1])
    if k == 'cop':
        return ('obj', 'CircuitOperation', [('circuit', model_circ(v[1])), ('repetitions', ('num', v[2]))])
    if k in ('fc', 'circ'):
        moments = ('arr', [('obj', 'Moment', [('operations', ('arr', [model_circ(x)]))]) for x in v[1]])
        fs = [('moments', moments)]
        if k == 'fc' and v[2]:
            fs.append(('tags', ('arr', [('str', t) for t in v[2]])))
        return ('obj', 'FrozenCircuit' if k == 'fc' else 'Circuit', fs)
    if k == 'list':
        return ('arr', [model_circ(x) for x in v[1]])
    return ('dict', [(kk, model_circ(x)) for kk, x in v[1]])


def frozen_sharing_ok(cirq, o):
    seen, ok, stack, visited = {}, True, [o], set()
    while stack:
        x = stack.pop()
        if id(x) in visited:
            continue
        visited.add(id(x))
        if isinstance(x, cirq.FrozenCircuit):
            if x in seen and seen[x] is not x:
                ok = False
            seen.setdefault(x, x)
            stack.extend(op for m in x.moments for op in m.operations)
        elif isinstance(x, cirq.Circuit):
            stack.extend(op for m in x.moments for op in m.operations)
        elif isinstance(x, cirq.CircuitOperation):
            stack.append(x.circuit)
        elif isinstance(x, (list, tuple)):
            stack.extend(x)
        elif isinstance(x, dict):
            stack.extend(x.values())
    return ok


def stream_memo_circuits(ctx, cirq, n):
    rows = []
    for i in range(n):
        pool = []
        v = gen_circ_tree(ctx.rng, pool, ctx.rng.randint(2, 5))
        obj = realise_circ(v, cirq)
        text = cirq.to_json(obj)
        evs = text_events(text)
        rows.append((v, evs))
        nvals = sum(1 for e in evs if e[0])
        ctx.count('memo_circuits', g_value(model_circ(v)), nvals >= 2 and len(evs) > nvals,
                  sample=dict(value=repr(obj)[:300], events=evs[:16]))
        back = cirq.read_json(json_text=text)
        if back != obj or not frozen_sharing_ok(cirq, back):
            ctx.violation('codec:circuit-roundtrip', f'read_json(to_json(x)) != x (or shared FrozenCircuit duplicated) for {obj!r}'[:600],
                          dict(kind='circuit_tree', tree=v))
    text = CASES_HEADER + 'Definition bk (t : string) : bool := String.eqb t "FrozenCircuit".\n'
    text += 'Definition ev_cases : list (value * list (bool * Z)) := [\n' + ';\n'.join(
        '(%s, [%s])' % (g_value(model_circ(v)), '; '.join(f'({"true" if b else "false"}, {coq.zlit(k)})' for b, k in evs))
        for v, evs in rows) + '].\n'
    text += ('Eval vm_compute in failing (fun c => match c with (v, evs) => wf v && '
             'list_eqb (pair_eqb Bool.eqb Z.eqb) (doc_events (encode bk v)) evs && refs_ok [] (hook_events (encode bk v)) end) ev_cases.\n')
    vals = coq.parse_evals(coq.coq_eval(f'c11_circ_{ctx.seed}', text))
    assert len(vals) == 1, vals
    for idx in coq.parse_nat_list(vals[0]):
        v, evs = rows[idx]
        ctx.mark_broken('correspondence:memo_circuits', f'VAL/REF key sequence of cirq.to_json differs from the model on {v}: implementation {evs}')
        # spec-level oracle: keys dense, every REF after its VAL closed, document reads back
        obj = realise_circ(v, cirq)
        ks = [k for b, k in evs if b]
        if ks != list(range(len(ks))):
            ctx.violation('codec:keys-not-dense', f'VAL keys {ks} are not 0..n-1 for {obj!r}'[:500], dict(kind='circuit_tree', tree=v))


# ------------------------------------------------------------------------------------------------ corpus
def eval_namespace(mods):
    import numpy as np, pandas as pd, sympy, networkx as nx
    ns = {'cirq': mods['cirq'], 'pd': pd, 'sympy': sympy, 'np': np, 'datetime': datetime, 'nx': nx}
    for m in VENDORS:
        ns[m] = mods[m]
    return ns


def load_specs():
    from cirq.testing.json import spec_for
    return [spec_for(m) for m in SPEC_MODULES]


def stream_corpus(ctx, mods, specs):
    cirq = mods['cirq']
    from cirq._compat import proper_eq
    ns = eval_namespace(mods)
    stats = collections.Counter()
    for sp in specs:
        for key in sp.all_test_data_keys():
            name = os.path.basename(key)
            for rext, jext in (('.repr', '.json'), ('.repr_inward', '.json_inward')):
                rp, jp = key + rext, key + jext
                if not os.path.exists(rp) and not os.path.exists(jp):
                    continue
                stats['documents'] += 1
                if not (os.path.exists(rp) and os.path.exists(jp)):
                    stats['unpaired'] += 1
                    ctx.violation(f'corpus:unpaired:{sp.name}/{name}{jext}', f'{sp.name}/{name}: {rext} / {jext} pair incomplete',
                                  dict(kind='corpus', path=key, ext=jext))
                    continue
                jtext = open(jp).read()
                legacy = '_ContextualSerialization' in jtext
                stats['inward' if jext == '.json_inward' else 'current'] += 1
                stats['legacy_context_format'] += int(legacy)
                try:
                    with warnings.catch_warnings():
                        warnings.simplefilter('ignore')
                        want = eval(open(rp).read(), dict(ns), {})
                        got = cirq.read_json(json_text=jtext)
                    ok = proper_eq(got, want)
                    detail = '' if ok else f'read {got!r}, stored repr gives {want!r}'
                except Exception as e:     # noqa
                    ok, detail = False, f'{type(e).__name__}: {e}'
                ctx.count('corpus', f'{sp.name}/{name}{jext}', True,
                          sample=dict(document=f'{sp.name}/{name}{jext}', reads_to_repr=ok))
                if not ok:
                    ctx.violation(f'corpus:{sp.name}/{name}{jext}', f'stored document {sp.name}/{name}{jext} no longer reads to the value of its {rext}: {detail}'[:700],
                                  dict(kind='corpus', path=key, ext=jext))
    ctx.cov['corpus'] = dict(stats)


# ------------------------------------------------------------------------------------------------ run
def run(ctx):
    mods = env.import_cirq(vendors=VENDORS)
    cirq = mods['cirq']
    quick = ctx.tier == 'quick'
    ctx.rule = ('PROOF PART (codec core): model vs implementation on generated trees of plain/by-key objects with reuse of by-key '
                'objects (full JSON text compared; non-trivial = at least one VAL and one REF), the decoder on those documents, on '
                'damaged documents (swapped members, changed/dropped keys, retagged) and on legacy context documents, and the VAL/REF '
                'key sequence of real nestings of FrozenCircuit/CircuitOperation/Circuit/list/dict (non-trivial = >=2 VAL and >=1 REF). '
                'EXPLORATION PART (per-class, deciding for that half): see coverage.classes — every registered class, stored .repr examples + '
                'typed mutants of JSON fields and constructor arguments, nested in lists/dicts/circuits with shared sub-circuits; every stored '
                '.json/.json_inward against its .repr; cases are distinct by canonical text.')
    ctx.assumptions += ['vf/checks/c11.py adapters: abstract tree -> Cirq objects / Gallina terms, JSON text -> Gallina json',
                        'CPython json/pickle/copy, numpy/pandas/sympy equality as used by cirq._compat.proper_eq',
                        'sharing is identified with equality (CirqEncoder._memo is keyed by ==/hash); object identity (the id()-keyed _cache) is explored, not modelled']
    ctx.set_obligations(coq.compile_props('C11'))
    specs = load_specs()
    stream_memo_generic(ctx, cirq, 150 if quick else 1500)
    stream_memo_circuits(ctx, cirq, 150 if quick else 1500)
    stream_corpus(ctx, mods, specs)


def replay(ctx, data):
    mods = env.import_cirq(vendors=VENDORS)
    cirq = mods['cirq']
    k = data.get('kind')
    if k == 'generic':
        classes = make_generic_classes(cirq)
        obj = realise_generic(_tuplify(data['value']), classes)
        back = cirq.read_json(json_text=cirq.to_json(obj), resolvers=[lambda t: classes.get(t)] + list(cirq.DEFAULT_RESOLVERS))
        print('value', obj, '\nback ', back)
        return back == obj and sharing_ok(back, lambda x: isinstance(x, cirq.SerializableByKey))
    if k == 'circuit_tree':
        obj = realise_circ(_tuplify(data['tree']), cirq)
        text = cirq.to_json(obj)
        back = cirq.read_json(json_text=text)
        print('events', text_events(text))
        ks = [kk for b, kk in text_events(text) if b]
        return back == obj and frozen_sharing_ok(cirq, back) and ks == list(range(len(ks)))
    if k == 'corpus':
        from cirq._compat import proper_eq
        rext = '.repr' if data['ext'] == '.json' else '.repr_inward'
        want = eval(open(data['path'] + rext).read(), dict(eval_namespace(mods)), {})
        got = cirq.read_json(json_text=open(data['path'] + data['ext']).read())
        print('stored repr:', repr(want)[:400], '\nread       :', repr(got)[:400])
        return proper_eq(got, want)
    print('nothing to replay for kind', k)
    return False


def _tuplify(x):
    if isinstance(x, list):
        if x and isinstance(x[0], str) and x[0] in ('null', 'num', 'str', 'arr', 'dict', 'obj', 'op', 'cop', 'fc', 'circ', 'list'):
            if x[0] in ('arr', 'list'):
                return (x[0], [_tuplify(y) for y in x[1]])
            if x[0] == 'dict':
                return ('dict', [(k, _tuplify(y)) for k, y in x[1]])
            if x[0] == 'obj':
                return ('obj', x[1], [(k, _tuplify(y)) for k, y in x[2]])
            if x[0] == 'cop':
                return ('cop', _tuplify(x[1]), x[2])
            if x[0] in ('fc',):
                return ('fc', [_tuplify(y) for y in x[1]], tuple(x[2]))
            if x[0] == 'circ':
                return ('circ', [_tuplify(y) for y in x[1]])
            return tuple(x)
    return x
