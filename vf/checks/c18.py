"""C18 — all views of measurement results tell the same story (DESIGN 5/C18)."""
import collections, io, json
import numpy as np
from .. import env, coq, runner

LEVEL = 'proof'
META = dict(
    text='Coq theorems (unbounded, over Z) that the digit/bit/integer conversions are mutual inverses and that every view of a result record is the stated function of the records; the Gallina model is hand-written in the shape of the code and a correspondence run evaluates it with vm_compute on the same inputs as the implementation on every run.',
    note='Trusted: Coq kernel; the Python adapters in vf/checks/c18.py (calling Cirq, printing Z literals); numpy/pandas are modelled as list functions, not verified. Theorems are closed under the global context (no axioms).',
    technique='Rocq/Coq proof over an executable Gallina model + vm_compute correspondence against the implementation',
)


def _impl_int_to_digits(cirq, v, digit_count, base):
    try:
        kw = {}
        if digit_count is not None:
            kw['digit_count'] = digit_count
        return list(cirq.big_endian_int_to_digits(v, base=base, **kw))
    except ValueError:
        return None


def _impl_digits_to_int(cirq, ds, base):
    try:
        with np.errstate(all='ignore'):
            return int(cirq.big_endian_digits_to_int(ds, base=base))
    except ValueError:
        return None


def gen_digit_cases(ctx, n):
    rng = ctx.rng
    cases = []
    for i in range(n):
        k = rng.choice([0, 1, 2, 3, 5, 8, 20, 70]) if rng.random() < 0.5 else rng.randint(0, 12)
        mode = rng.random()
        if mode < 0.35:
            bs = [2] * k
        elif mode < 0.5:
            b = rng.choice([3, 4, 10, 16, 1])
            bs = [b] * k
        else:
            bs = [rng.choice([1, 2, 2, 3, 4, 5, 7, 10]) for _ in range(k)]
        prod = 1
        for b in bs:
            prod *= b
        r = rng.random()
        if r < 0.7:
            v = rng.randrange(prod) if prod > 0 else 0
        elif r < 0.8:
            v = prod + rng.randint(0, 3)          # just out of range
        elif r < 0.9:
            v = max(prod - 1, 0)
        else:
            v = rng.choice([0, 1, prod])
        cases.append((v, bs))
    return cases


def run(ctx):
    cirq = env.import_cirq()
    ctx.rule = ('digits: random mixed-radix bases (0..70 digits, integers beyond 64 bits) with in-range, boundary and '
                'out-of-range values, int and per-digit base forms, binary fast path, plus a fixed grid for every seed: every arrangement of the '
                'dimensions 1, 2, 3 in registers of up to 4 digits with every representable value and the first one out of range, 5..6-digit '
                'registers of 1s and 2s, registers beyond 64 bits mixing 1s into 2s/3s/4s; non-trivial = >=2 digits and value>1. '
                'views: generated ResultDicts (0..17 repetitions, 1..5 keys, 1..3 instances per key, 0..70 qubits, bool/uint8/int64 '
                'binary and mixed-radix digits) observed through measurements, data frame, histogram (default, fold_base int/list, '
                'custom folds), multi_measurement_histogram (key subsets in any order), +, repetitions, JSON packing; r1 + r2 with a right operand of its own '
                'dtype and digit range (bool/uint8/int8/uint16/int32/int64, qudit digits) plus a fixed grid of every ordered dtype pair (empty and filled left '
                'operand holding bits, right operand holding the largest digits of its dtype), judged digit by digit as integers and through every view of the sum; '
                'non-trivial = >=2 repetitions, >=2 qubits, rows not all equal. large: results on both sides of the histogram '
                'batch size (fixed grid 50000, 50001, 60000 = 30000 + 30000, 100001 repetitions plus random sizes; bit, wide (40..70 bits) '
                'and mixed-radix keys whose rows come from an arithmetic generator that the model re-runs) seen through every view, '
                'r1 + r2 and JSON; _vectorized_histogram with batch sizes 1..5 on the small results. sampler: fake samplers on the base class '
                '(sync-only, async-only) and ZerosSampler through run/run_async/sample/run_sweep/run_batch(_async); cirq_google.ProcessorSampler(jobs_per_batch=1..7) '
                'on a model processor that answers a call of several programs program by program, then point by point: run_batch(_async) of lists and mappings of '
                '0..6 programs drawn with few distinct (sweep, repetitions) settings so that equal settings recur next to each other and apart, plus a fixed grid '
                '(jobs_per_batch 1..4 x settings adjacent / apart / alternating / all equal / all different); position i must hold the results of programs[i] '
                '(own repetitions, own sweep points, own bits), every program run exactly once, at most jobs_per_batch programs per call; the cut into API calls '
                'and the placement of results are compared with the model. shapes: circuits whose moments are '
                'written out by hand - several measurements of ONE moment sharing a key (parallel readout), keys repeated over moments, both, next to gates, '
                'qutrits, frozen circuits, keys whose measurements differ in qid shape (refused) - as a fixed grid for every seed plus generated ones; '
                'Sampler._get_measurement_shapes and every ZerosSampler entry point against the documented (repetitions, instances, qubits) shape, against '
                'the model, and against every view of the simulator result of the same all-zero circuit; non-trivial = some key has >= 2 instances; '
                'simrecords: circuits that keep a computational-basis state (X / qudit +1 gates, integer or swept exponents, inverted readout) whose keys are measured '
                'several times by registers reading DIFFERENT digits (dimensions 1, 2, 3 mixed), with all measurements terminal (one-shot sampling) and with gates '
                'between the measurements (one walk per repetition), a fixed grid for every seed plus generated ones, through run/run_async/run_sweep(_async/_iter)/'
                'run_batch(_async)/sample of Simulator, DensityMatrixSimulator (split_untangled_states on and off), CliffordSimulator and ClassicalStateSimulator; '
                'records[key][repetition][instance] must be what that measurement reads (reference walk over the operations; the model re-runs it), every view of the '
                'result must tell the same digits; non-trivial = >= 2 repetitions and a key whose instances read different rows; '
                'distinct by canonical input')
    ctx.assumptions += ['vf/checks/c18.py adapters calling Cirq and canonicalising outputs',
                        'Python int <-> Coq Z literal printing',
                        'numpy, pandas and collections.Counter are modelled as list functions; the .npy header is parsed by numpy',
                        'simrecords: gates are modelled by their action on basis states (X**k adds k mod 2, the qudit +1 gate to the power k adds k mod d); only such circuits are generated',
                        'record digits are integers in the model (no dtype); ProcessorSampler is driven through a model processor/job (duck-typed '
                        'run_sweep_async / results_async) that returns one result per sweep point for each program of a call, grouped by program']
    ctx.set_obligations(coq.compile_props('C18'))
    q = ctx.tier == 'quick'
    try:
        digits_stream(ctx, cirq, 400 if q else 4000)
        n = 160 if q else 1600
        for shard in range(0, n, 160):
            views_stream(ctx, cirq, min(160, n - shard), shard)
        sampler_stream(ctx, cirq, 60 if q else 600)
        cg = env.import_cirq(vendors=('cirq_google',))['cirq_google']
        n = 120 if q else 2400
        for shard in range(0, n, 240):
            procsampler_stream(ctx, cirq, cg, min(240, n - shard), shard=shard)
        n = 70 if q else 900
        for shard in range(0, n, 300):
            shapes_stream(ctx, cirq, min(300, n - shard), shard)
        n = 40 if q else 800
        for shard in range(0, n, 200):
            simrecords_stream(ctx, cirq, min(200, n - shard), shard)
        large_stream(ctx, cirq, LARGE_GRID + [ctx.rng.randint(50_002, 140_000) for _ in range(1 if q else 8)]
                     + ([150_000, 200_001] if not q else []), wide_at=(1,) if q else (1, 4, 7, 10))
    except Exception:
        import traceback
        ctx.mark_broken('harness-exception', traceback.format_exc()[-2000:])


def radix_grid():
    """(value, bases) every run judges, whatever VERIF_SEED: every arrangement of the dimensions 1, 2, 3 in registers of up to
    4 digits with every representable value and the first one out of range; binary-looking registers of 5 and 6 digits holding
    dimension-1 positions; registers wider than 64 bits mixing 1s into 2s and 3s."""
    import itertools
    out = []
    for k in range(0, 5):
        for bs in itertools.product((1, 2, 3), repeat=k):
            prod = 1
            for b in bs:
                prod *= b
            out += [(v, list(bs)) for v in range(prod + 1)]
    for k in (5, 6):
        for bs in itertools.product((1, 2), repeat=k):
            if 1 in bs and 2 in bs and sum(bs) % 3 == 0:
                prod = 2 ** bs.count(2)
                out += [(v, list(bs)) for v in sorted({0, 1, prod // 2, prod // 3, prod - 2, prod - 1, prod})]
    for bs in ([2] * 70, [2, 1] * 35, [1] + [2] * 69, [2] * 69 + [1], [3, 2] * 30, [3, 1, 2] * 20, [4, 1] * 33):
        prod = 1
        for b in bs:
            prod *= b
        out += [(v, list(bs)) for v in (0, 1, prod - 1, prod // 3, (1 << 64) % prod, (1 << 64) + 1, prod)]
    return out


def digits_stream(ctx, cirq, n):
    grid = radix_grid()
    cases = grid + gen_digit_cases(ctx, n)
    rows_i2d, rows_d2i, rows_bits = [], [], []
    for ci, (v, bs) in enumerate(cases):
        k = len(bs)
        uniform = k > 0 and all(b == bs[0] for b in bs)
        # call forms: per-digit list; int base with digit_count when uniform
        forms = [('list', None, list(bs))]
        if uniform:
            forms.append(('int', k, bs[0]))
        for form, dc, base in forms:
            out = _impl_int_to_digits(cirq, v, dc, base)
            is2 = (form == 'int' and base == 2)
            dcn = dc if dc is not None else 0
            rows_i2d.append((v, dcn, is2, bs, out))
            nontriv = k >= 2 and v > 1
            ctx.count('int_to_digits', (v, bs, form), nontriv, sample=dict(val=v, base=base, digit_count=dc, out=out))
            # property-level oracle on the real code: round trip
            if out is not None:
                back = _impl_digits_to_int(cirq, out, base if form == 'int' else bs)
                if back != v or len(out) != k or any(not (0 <= d < b) for d, b in zip(out, bs)):
                    ctx.violation('digits:int->digits->int', f'int_to_digits({v}, base={base}) = {out} does not convert back',
                                  dict(kind='digits_roundtrip', val=v, bases=bs, form=form))
            elif 0 <= v and all(b > 0 for b in bs):
                prod = 1
                for b in bs:
                    prod *= b
                if v < prod:
                    ctx.violation('digits:in-range-rejected', f'int_to_digits({v}, base={base}) raised for an in-range value',
                                  dict(kind='digits_roundtrip', val=v, bases=bs, form=form))
        # digits -> int on the digits of v when in range, plus a perturbed digit
        ds = _impl_int_to_digits(cirq, v, None, list(bs))
        if ds is None:
            ds = [ctx.rng.randint(0, max(b, 1)) for b in bs]
        elif ds and ctx.rng.random() < 0.15:
            j = ctx.rng.randrange(len(ds))
            ds = list(ds)
            ds[j] = bs[j] if ctx.rng.random() < 0.5 else -1
        out = _impl_digits_to_int(cirq, ds, list(bs))
        rows_d2i.append((ds, bs, out))
        ctx.count('digits_to_int', (ds, bs), len(bs) >= 2, sample=dict(digits=ds, base=bs, out=out))
        # the same digits as a numpy integer array (what simulators and ResultDict hand to this function)
        if out is not None and ds and all(0 <= d < 128 for d in ds):
            dt = ctx.rng.choice(['uint8', 'int8', 'int64'])
            nd = np.array(ds, dtype=dt)
            out_np = _impl_digits_to_int(cirq, nd, list(bs))
            ctx.count('digits_to_int:numpy', (ds, bs, dt), len(bs) >= 2 and out > 255)
            if out_np != out:
                numpy_digits_violation(ctx, cirq, nd, bs)
        if ctx.rng.random() < 0.2:   # length mismatch must raise
            out2 = _impl_digits_to_int(cirq, ds + [0], list(bs))
            rows_d2i.append((ds + [0], bs, out2))
            ctx.count('digits_to_int', (ds + [0], bs), False)
        # bits (alongside the generated cases only: the grid is about radices)
        if ci < len(grid):
            continue
        nb = ctx.rng.choice([0, 1, 3, 8, 64, 70])
        bits = [ctx.rng.random() < 0.5 for _ in range(nb)]
        ib = int(cirq.big_endian_bits_to_int(bits))
        sv = ctx.rng.choice([v, -v - 1, ib])
        bo = [int(x) for x in cirq.big_endian_int_to_bits(sv, bit_count=nb)]
        rows_bits.append((bits, ib, sv, nb, bo))
        ctx.count('bits', (bits, sv), nb >= 2, sample=dict(bits=[int(b) for b in bits], to_int=ib, val=sv, bit_count=nb, to_bits=bo))
    Z, ZL, O = coq.zlit, coq.zlist, coq.opt
    text = 'From Coq Require Import ZArith List Bool.\nFrom VF Require Import Base.Digits Base.Harness.\nImport ListNotations.\nOpen Scope Z_scope.\n'
    text += 'Definition i2d : list (Z * nat * bool * list Z * option (list Z)) := [\n' + ';\n'.join(
        f'({Z(v)}, {dc}%nat, {"true" if is2 else "false"}, {ZL(bs)}, {O(out, ZL)})' for v, dc, is2, bs, out in rows_i2d) + '].\n'
    text += ("Eval vm_compute in failing (fun c => match c with (v, dc, is2, bs, out) => "
             "opt_eqb zl_eqb (int_to_digits_code v dc is2 bs) out end) i2d.\n")
    text += 'Definition d2i : list (list Z * list Z * option Z) := [\n' + ';\n'.join(
        f'({ZL(ds)}, {ZL(bs)}, {O(out, Z)})' for ds, bs, out in rows_d2i) + '].\n'
    text += "Eval vm_compute in failing (fun c => match c with (ds, bs, out) => opt_eqb Z.eqb (digits_to_int ds bs) out end) d2i.\n"
    text += 'Definition bts : list (list bool * Z * Z * nat * list Z) := [\n' + ';\n'.join(
        f'({coq.blist(bits)}, {Z(ib)}, {Z(sv)}, {nb}%nat, {ZL(bo)})' for bits, ib, sv, nb, bo in rows_bits) + '].\n'
    text += ("Eval vm_compute in failing (fun c => match c with (bits, ib, sv, nb, bo) => "
             "Z.eqb (bits_to_int bits) ib && zl_eqb (int_to_bits sv nb) bo end) bts.\n")
    vals = coq.parse_evals(coq.coq_eval(f'c18_digits_{ctx.seed}', text))
    assert len(vals) == 3, vals
    for name, rows, val in zip(['int_to_digits', 'digits_to_int', 'bits'], [rows_i2d, rows_d2i, rows_bits], vals):
        for idx in coq.parse_nat_list(val):
            row = rows[idx]
            ctx.mark_broken(f'correspondence:{name}', f'model and implementation differ on {row}')
            spec_search_digits(ctx, cirq, name, row)


def spec_search_digits(ctx, cirq, name, row):
    """A disagreement with the model: decide on the real code whether the property's own statement fails."""
    if name == 'int_to_digits':
        v, dc, is2, bs, out = row
        prod = 1
        for b in bs:
            prod *= b
        expect = None
        if 0 <= v < prod or (v == 0 and prod >= 1):
            expect, x = [], v
            for b in reversed(bs):
                expect.append(x % b)
                x //= b
            expect.reverse()
        if out != expect:
            ctx.violation(f'digits:int_to_digits', f'int_to_digits({v}, bases={bs}) gave {out}, positional notation gives {expect}',
                          dict(kind='int_to_digits', val=v, bases=bs, digit_count=dc, base_is_two=is2, got=out, expected=expect))
    elif name == 'digits_to_int':
        ds, bs, out = row
        expect = None
        if len(ds) == len(bs) and all(0 <= d < b for d, b in zip(ds, bs)):
            expect = 0
            for d, b in zip(ds, bs):
                expect = expect * b + d
        if out != expect:
            ctx.violation('digits:digits_to_int', f'digits_to_int({ds}, {bs}) gave {out}, positional notation gives {expect}',
                          dict(kind='digits_to_int', digits=ds, bases=bs, got=out, expected=expect))
    else:
        bits, ib, sv, nb, bo = row
        e1 = int(''.join('1' if b else '0' for b in bits) or '0', 2)
        e2 = [(sv >> i) & 1 for i in reversed(range(nb))]
        if ib != e1 or bo != e2:
            ctx.violation('digits:bits', f'bits_to_int({bits})={ib} (expected {e1}); int_to_bits({sv},{nb})={bo} (expected {e2})',
                          dict(kind='bits', bits=bits, val=sv, bit_count=nb))


def numpy_digits_violation(ctx, cirq, digits, bases, via='direct call'):
    """big_endian_digits_to_int on an array of numpy integers: minimise to the shortest failing prefix-free suffix."""
    digits, bases = np.asarray(digits), list(bases)
    while len(digits) > 1:       # drop leading digits while the tail still fails
        d2, b2 = digits[1:], bases[1:]
        if _impl_digits_to_int(cirq, d2, b2) == spec_int([int(x) for x in d2], b2):
            break
        digits, bases = d2, b2
    got = _impl_digits_to_int(cirq, digits, bases)
    exp = spec_int([int(x) for x in digits], bases)
    ctx.violation('digits:digits_to_int:numpy-digits',
                  f'big_endian_digits_to_int(np.array({digits.tolist()}, dtype={digits.dtype}), base={bases}) = {got!r}, positional notation gives {exp} (reached via {via})',
                  dict(kind='numpy_digits', digits=digits.tolist(), dtype=str(digits.dtype), bases=bases, expected=exp))


# ------------------------------------------------------------------ result views
KEY_NAMES = ['a', 'b', 'm0', 'q(0, 1)', 'z', 'key with space', 'k5', 'out']
FOLDS = {   # named fold functions usable on both sides (values are tuples of ints)
    'sum': lambda row: (int(sum(int(x) for x in row)),),
    'id': lambda row: tuple(int(x) for x in row),
    'rev': lambda row: tuple(int(x) for x in reversed(row)),
    'par': lambda row: (int(sum(int(x) for x in row)) % 2,),
}
MFOLDS = {
    'cat': lambda rows: tuple(int(x) for row in rows for x in row),
    'sums': lambda rows: tuple(int(sum(int(x) for x in row)) for row in rows),
}
COQ_FOLDS = """
Definition zsum (row : list Z) : Z := fold_right Z.add 0 row.
Definition fold_named (n : nat) (row : list Z) : option (list Z) :=
  match n with
  | 0%nat => Some [zsum row]
  | 1%nat => Some row
  | 2%nat => Some (rev row)
  | _ => Some [zsum row mod 2]
  end.
Definition mfold_named (n : nat) (rows : list (list Z)) : option (list Z) :=
  match n with
  | 0%nat => Some (concat rows)
  | 1%nat => Some (map zsum rows)
  | _ => fold_tuple_bits rows
  end.
Definition lc_eqb := counter_eqb zl_eqb.
Definition zc_eqb := counter_eqb Z.eqb.
Definition rec_eqb (a b : rec) : bool :=
  Nat.eqb (r_inst a) (r_inst b) && Nat.eqb (r_nq a) (r_nq b) && list_eqb zll_eqb (r_data a) (r_data b).
Definition res_eqb := list_eqb (pair_eqb Z.eqb rec_eqb).
Definition meas_eqb := list_eqb (pair_eqb Z.eqb (pair_eqb Nat.eqb zll_eqb)).
Definition df_eqb := list_eqb (pair_eqb Z.eqb zl_eqb).
"""
FOLD_IDS = {'sum': 0, 'id': 1, 'rev': 2, 'par': 3}
MFOLD_IDS = {'cat': 0, 'sums': 1, 'default': 2}


def gen_record(rng, reps, force_binary=False):
    inst = rng.choice([1, 1, 1, 1, 2, 3])
    nq = rng.choice([0, 1, 1, 2, 2, 3, 3, 4, 5, 8, 9, 62, 63, 64, 65, 70])
    binary = force_binary or nq > 12 or rng.random() < 0.55
    if binary:
        bases = [2] * nq
        dtype = rng.choice(['bool', 'uint8', 'int64'])
    else:
        bases = [rng.choice([2, 3, 3, 4, 5, 7]) for _ in range(nq)]
        dtype = rng.choice(['uint8', 'int64'])
    skew = rng.choice([0.15, 0.5, 0.85])
    arr = np.zeros((reps, inst, nq), dtype=dtype)
    for r in range(reps):
        for j in range(inst):
            for i in range(nq):
                arr[r, j, i] = (rng.random() < skew) if bases[i] == 2 else rng.randrange(bases[i])
    if reps >= 2 and rng.random() < 0.3:     # duplicate rows make histograms non-trivial
        arr[rng.randrange(reps)] = arr[rng.randrange(reps)]
    return dict(inst=inst, nq=nq, bases=bases, binary=binary, arr=arr)


def gen_result(rng, reps=None, shapes=None):
    if reps is None:
        reps = rng.choice([0, 1, 2, 3, 3, 5, 9, 17])
    nkeys = rng.choice([0, 1, 1, 2, 2, 3, 5])
    names = rng.sample(KEY_NAMES, nkeys)
    recs = collections.OrderedDict()
    single = rng.random() < 0.7       # most results have only once-measured keys so that the flat views exist
    for nm in names:
        rec = gen_record(rng, reps)
        if single and rec['inst'] != 1:
            rec['arr'] = rec['arr'][:, :1, :].copy()
            rec['inst'] = 1
        recs[nm] = rec
    return reps, recs


def rec_lit(arr):
    reps, inst, nq = arr.shape
    rows = '[' + '; '.join('[' + '; '.join(coq.zlist(int(x) for x in arr[r, j]) for j in range(inst)) + ']' for r in range(reps)) + ']'
    return f'(mkRec {inst} {nq} {rows})'


def res_lit(recs, kid):
    return '[' + '; '.join(f'({kid[k]}, {rec_lit(a)})' for k, a in recs.items()) + ']'


def counter_lit(c, val):
    return '[' + '; '.join(f'({val(k)}, {int(v)}%nat)' for k, v in c.items()) + ']'


def zll(rows):
    return '[' + '; '.join(coq.zlist(int(x) for x in row) for row in rows) + ']'


def _try(f):
    try:
        return f()
    except (ValueError, KeyError):
        return None


def spec_measurements(recs):
    """Specification written directly from the documentation: the single instance of every key, or an error."""
    if any(a.shape[1] != 1 for a in recs.values()):
        return None
    return {k: [[int(x) for x in a[r, 0]] for r in range(a.shape[0])] for k, a in recs.items()}


def spec_int(row, bases=None):
    v = 0
    for i, d in enumerate(row):
        v = v * (2 if bases is None else bases[i]) + int(d)
    return v


def npy_payload(hexstr):
    """Data section of a .npy file given as hex text (header parsed by numpy, trusted)."""
    buf = io.BytesIO(bytes.fromhex(hexstr))
    ver = np.lib.format.read_magic(buf)
    (np.lib.format.read_array_header_1_0 if ver == (1, 0) else np.lib.format.read_array_header_2_0)(buf)
    return buf.read()


def str_spells_records(text, recs):
    """str(result): one line per key (sorted) and instance, one digit string per qubit running over the repetitions."""
    parsed = {}
    for line in text.split('\n'):
        kname, _, body = line.partition('=')
        cols = [(tok.split(' ') if ' ' in tok else list(tok)) for tok in body.split(', ')]
        parsed.setdefault(kname, []).append(cols)
    ok_s = sorted(parsed) == sorted(recs) and list(parsed) == sorted(recs)
    for kname, a in recs.items():
        inst_cols = parsed.get(kname, [])
        ok_s = ok_s and len(inst_cols) == a.shape[1]
        for j, cols in enumerate(inst_cols[:a.shape[1]]):
            ok_s = ok_s and len(cols) == a.shape[2] and all(
                [int(x) for x in col] == a[:, j, i].astype(np.int64).tolist() for i, col in enumerate(cols) if len(col) == a.shape[0])
            ok_s = ok_s and all(len(col) == a.shape[0] for col in cols)
    return bool(ok_s)


# ------------------------------------------------------------------ r1 + r2
ADD_DTYPES = ['bool', 'uint8', 'int8', 'uint16', 'int32', 'int64']


def gen_right_operand(rng, left_dtype, left_bases):
    """dtype and digit range of the right operand of r1 + r2 for one key.  A record array carries neither a radix nor a
    prescribed dtype (a simulator stores uint8 digits, bits come as bool, stored results as whatever was written), so the
    two operands of a sum need agree only in (instances, qubits)."""
    if rng.random() < 0.4:
        return left_dtype, left_bases
    dt = rng.choice(ADD_DTYPES)
    if dt == 'bool':
        return dt, [2] * len(left_bases)
    if rng.random() < 0.3:
        return dt, left_bases
    return dt, [rng.choice([2, 3, 3, 4, 5, 7]) for _ in left_bases]


def digits_of(arr):
    """A record array as nested Python ints: repetitions x instances x qubits."""
    return [[[int(d) for d in inst] for inst in rep] for rep in np.asarray(arr)]


def add_grid():
    """Operand pairs of r1 + r2 for every ordered pair of dtypes, two keys each.  Key m0: a left operand holding bits (0 or 2
    repetitions: the empty accumulator and a filled one) and a right operand holding the largest digits its dtype carries, in
    one- and several-instance shapes.  Key z: the dtypes the other way round, the large digits on the left."""
    top = {'bool': 1, 'uint8': 5, 'int8': 4, 'uint16': 300, 'int32': 70000, 'int64': 2 ** 40}
    out = []
    for dl in ADD_DTYPES:
        for dr in ADD_DTYPES:
            for lreps, (inst, nq) in ((0, (1, 2)), (2, (1, 2)), (2, (2, 3))):
                hi = top[dr]
                a = np.array([[[(r + j + i) % 2 for i in range(nq)] for j in range(inst)] for r in range(lreps)], dtype=dl).reshape((lreps, inst, nq))
                b = np.array([[[[hi, 1, 2 % (hi + 1), 0][(r + 2 * j + i) % 4] for i in range(nq)] for j in range(inst)] for r in range(3)], dtype=dr)
                a2 = np.array([[[top[dr]]]] * lreps, dtype=dr).reshape((lreps, 1, 1))      # key z: wide digits on the left, narrower dtype on the right
                b2 = np.array([[[min(top[dl], 3)]], [[0]], [[1]]], dtype=dl)
                out.append((collections.OrderedDict([('m0', a), ('z', a2)]), collections.OrderedDict([('m0', b), ('z', b2)])))
    return out


def add_payload(recs2):
    return {k: dict(dtype=str(a.dtype), digits=a.tolist(), shape=list(a.shape)) for k, a in recs2.items()}


def spec_add_failure(cirq, recs, recs2, tot):
    """What is wrong with tot = r1 + r2, judged by the meaning of concatenation: the sum holds, for every key, the digits of r1
    followed by the digits of r2 (as integers, whatever the dtypes), and every other view of the sum tells that story."""
    reps = next(iter(recs.values())).shape[0] if recs else 0
    reps2 = next(iter(recs2.values())).shape[0] if recs2 else 0
    if set(tot.records) != set(recs):
        return f'keys {sorted(tot.records)}'
    for k in recs:
        want = digits_of(recs[k]) + digits_of(recs2[k])
        got = digits_of(tot.records[k])
        if got != want or tuple(np.asarray(tot.records[k]).shape[1:]) != tuple(recs[k].shape[1:]):
            return f'key {k!r}: records of the sum hold {got}, the digits of r1 followed by those of r2 are {want}'
    if tot.repetitions != (reps + reps2 if recs else 0):
        return f'repetitions {tot.repetitions} for {reps} + {reps2}'
    mk = lambda rr: cirq.ResultDict(params=cirq.ParamResolver({'p': 0.25}), records={k: a.copy() for k, a in rr.items()})
    sm1, sm2 = spec_measurements(recs), spec_measurements(recs2)
    if sm1 is not None and sm2 is not None:
        meas = {k: [[int(x) for x in row] for row in v] for k, v in tot.measurements.items()}
        if meas != {k: sm1[k] + sm2[k] for k in recs}:
            return f'measurements of the sum {meas}'
        r1, r2 = mk(recs), mk(recs2)
        for k in recs:
            if list(tot.data[k]) != list(r1.data[k]) + list(r2.data[k]):
                return f'data frame column {k!r} of the sum {list(tot.data[k])} is not that of r1 followed by that of r2'
            if tot.histogram(key=k, fold_func=FOLDS['id']) != r1.histogram(key=k, fold_func=FOLDS['id']) + r2.histogram(key=k, fold_func=FOLDS['id']):
                return f'histogram of key {k!r} of the sum is not the sum of the histograms'
            nq = recs[k].shape[2]
            top = max([2] + [d for rows in (sm1[k], sm2[k]) for row in rows for d in row]) + 1
            if 0 < nq <= 12:
                h = tot.histogram(key=k, fold_base=top)
                exp = collections.Counter(spec_int(row, [top] * nq) for row in sm1[k] + sm2[k])
                if dict(h) != dict(exp):
                    return f'histogram(key={k!r}, fold_base={top}) of the sum is {dict(h)}, counting the rows of r1 and r2 gives {dict(exp)}'
    both = collections.OrderedDict((k, np.array(digits_of(recs[k]) + digits_of(recs2[k]), dtype=np.int64).reshape((reps + reps2,) + recs[k].shape[1:])) for k in recs)
    if recs and all(a.shape[0] > 0 and a.shape[2] > 0 for a in both.values()) and not str_spells_records(str(tot), both):
        return f'str of the sum {str(tot)[:300]!r}'
    back = cirq.read_json(json_text=cirq.to_json(tot))
    for k in recs:
        if digits_of(back.records[k]) != digits_of(both[k]):
            return f'JSON round trip of the sum holds {digits_of(back.records[k])} under key {k!r}'
    return None


def judge_add(ctx, cirq, recs, recs2, R, kid, nontriv):
    reps = next(iter(recs.values())).shape[0] if recs else 0
    reps2 = next(iter(recs2.values())).shape[0] if recs2 else 0
    desc = {k: dict(shape=list(a.shape), dtype=str(a.dtype), digits=a.tolist() if a.size <= 24 else '...') for k, a in recs.items()}
    desc2 = {k: dict(shape=list(a.shape), dtype=str(a.dtype), digits=a.tolist() if a.size <= 24 else '...') for k, a in recs2.items()}
    rp = dict(kind='views', records={k: dict(dtype=str(a.dtype), shape=list(a.shape), digits=a.tolist()) for k, a in recs.items()}, other=add_payload(recs2))
    res = cirq.ResultDict(params=cirq.ParamResolver({'p': 0.25}), records={k: a.copy() for k, a in recs.items()})
    res2 = cirq.ResultDict(params=cirq.ParamResolver({'p': 0.25}), records={k: a.copy() for k, a in recs2.items()})
    tot = _try(lambda: res + res2)
    t_out = None if tot is None else collections.OrderedDict((k, np.asarray(v)) for k, v in tot.records.items())
    R['add'].append((res_lit(recs, kid), res_lit(recs2, kid), None if t_out is None else res_lit(t_out, kid)))
    mixed = any(k in recs2 and recs[k].dtype != recs2[k].dtype for k in recs)
    ctx.count('views:add', [[(k, str(a.dtype), a.tolist()) for k, a in recs.items()], [(k, str(a.dtype), a.tolist()) for k, a in recs2.items()]],
              nontriv and tot is not None and reps2 > 0,
              sample=dict(r1=desc, r2=desc2, sum=None if t_out is None else {k: a.tolist() if a.size <= 24 else '...' for k, a in t_out.items()}))
    if mixed and tot is not None and reps2 > 0:
        ctx.count('views:add:mixed_dtypes', [[(k, str(a.dtype), a.tolist()) for k, a in recs.items()], [(k, str(a.dtype), a.tolist()) for k, a in recs2.items()]],
                  any((int(recs2[k].max(initial=0)) > (1 if recs[k].dtype == bool else np.iinfo(recs[k].dtype).max)) for k in recs if k in recs2))
    same = set(recs) == set(recs2) and all(recs[k].shape[1:] == recs2[k].shape[1:] for k in recs)
    if same != (tot is not None):
        ctx.violation('views:add', f'r1 + r2 {"raised" if tot is None else "succeeded"} for shapes {desc} + { {k: list(a.shape) for k, a in recs2.items()} }', rp)
    elif tot is not None:
        why = spec_add_failure(cirq, recs, recs2, tot)
        if why is not None:
            ctx.violation('views:add', f'r1 + r2 does not describe the repetitions of r1 followed by those of r2: {why}; r1 = {desc}, r2 = {desc2}', rp)


def views_stream(ctx, cirq, n, shard=0):
    rng = ctx.rng
    R = dict(meas=[], df=[], hist=[], histf=[], multi=[], add=[], json=[])
    kid = {k: i for i, k in enumerate(KEY_NAMES)}
    kid['missing'] = 99
    for case in range(n):
        reps, spec = gen_result(rng)
        recs = collections.OrderedDict((k, v['arr']) for k, v in spec.items())
        # a fresh object per view: a failed access to .measurements leaves a partially filled cache behind
        mk = lambda: cirq.ResultDict(params=cirq.ParamResolver({'p': 0.25}), records={k: a.copy() for k, a in recs.items()})
        res = mk()
        lit = res_lit(recs, kid)
        nontriv = reps >= 2 and any(a.shape[2] >= 2 and len({tuple(map(int, a[r].ravel())) for r in range(reps)}) > 1 for a in recs.values())
        desc = {k: dict(shape=list(a.shape), dtype=str(a.dtype), digits=a.tolist() if a.size <= 24 else '...') for k, a in recs.items()}
        canon_in = [(k, str(a.dtype), a.tolist()) for k, a in recs.items()]
        rp = dict(kind='views', records={k: dict(dtype=str(a.dtype), shape=list(a.shape), digits=a.tolist()) for k, a in recs.items()})
        # -- repetitions + measurements
        meas = _try(lambda: {k: v.tolist() for k, v in mk().measurements.items()})
        m_out = None if meas is None else [(kid[k], (recs[k].shape[2], [[int(x) for x in row] for row in rows])) for k, rows in meas.items()]
        R['meas'].append((lit, int(res.repetitions), m_out))
        ctx.count('views:measurements', canon_in, nontriv, sample=dict(records=desc, measurements=meas if meas is None or sum(map(len, meas.values())) < 20 else '...'))
        sm = spec_measurements(recs)
        if meas != sm or res.repetitions != (next(iter(recs.values())).shape[0] if recs else 0):
            ctx.violation('views:measurements', f'measurements/repetitions of records {desc} = {meas}/{res.repetitions}, expected {sm}', rp)
        # -- data frame
        df = _try(lambda: mk().data)
        d_out = None if df is None else [(kid[k], [int(x) for x in df[k]]) for k in df.columns]
        R['df'].append((lit, d_out))
        ctx.count('views:dataframe', canon_in, nontriv and sm is not None)
        if sm is not None:
            exp = [(kid[k], [sum(int(d) << (len(row) - 1 - i) for i, d in enumerate(row)) for row in rows]) for k, rows in sm.items()]
            if d_out != exp or (df is not None and len(df) != (reps if recs else 0)):
                ctx.violation('views:dataframe', f'data frame of {desc} has columns {d_out}, big-endian integers are {exp}', rp)
        elif df is not None:
            ctx.violation('views:dataframe', f'data frame exists although a key is repeated: {desc}', rp)
        # -- histograms per key
        for k in list(recs)[:3] + (['missing'] if rng.random() < 0.1 else []):
            sp = spec.get(k)
            modes = ['none', 'func']
            if sp is not None:
                modes += ['int', 'list', 'badlist'] if sp['nq'] <= 70 else []
            mode = rng.choice(modes)
            extra = None
            if mode == 'none':
                h = _try(lambda: mk().histogram(key=k))
                R['hist'].append((lit, kid[k], 'BaseNone', h, None))
                exp = None if (sm is None or k not in sm) else collections.Counter(spec_int([1 if d else 0 for d in row]) for row in sm[k])
                binary = sp is None or sp['binary']
            elif mode in ('int', 'list', 'badlist'):
                if mode == 'int':
                    b = max(sp['bases'] + [2]) + rng.choice([0, 0, 1])
                    fb, fbl, bl = b, f'(BaseInt {b})', [b] * sp['nq']
                elif mode == 'list':
                    bl = [x + rng.choice([0, 0, 0, 2]) for x in sp['bases']]
                    fb, fbl = list(bl), f'(BaseList {coq.zlist(bl)})'
                else:
                    bl = sp['bases'] + [2]
                    fb, fbl = list(bl), f'(BaseList {coq.zlist(bl)})'
                h = _try(lambda: mk().histogram(key=k, fold_base=fb))
                R['hist'].append((lit, kid[k], fbl, h, (recs[k], bl)))
                exp = None if (sm is None or mode == 'badlist') else collections.Counter(spec_int(row, bl) for row in sm[k])
                binary, extra = True, fb
            else:
                fname = rng.choice(sorted(FOLDS))
                h = _try(lambda: mk().histogram(key=k, fold_func=FOLDS[fname]))
                R['histf'].append((lit, kid[k], FOLD_IDS[fname], h))
                exp = None if (sm is None or k not in sm) else collections.Counter(FOLDS[fname](row) for row in sm[k])
                binary, extra = True, fname
            ctx.count('views:histogram', [canon_in, k, mode, extra], nontriv and h is not None,
                      sample=dict(records=desc, key=k, mode=mode, histogram=None if h is None else {str(a): b for a, b in h.items()}))
            if binary and (None if h is None else dict(h)) != (None if exp is None else dict(exp)):
                bad_row = None
                if mode in ('int', 'list') and sm is not None:      # attribute to the call site: digits_to_int on numpy digits
                    for r_ in range(reps):
                        if _impl_digits_to_int(cirq, recs[k][r_, 0], bl) != spec_int(sm[k][r_], bl):
                            bad_row = r_
                if bad_row is not None:
                    numpy_digits_violation(ctx, cirq, recs[k][bad_row, 0], bl, via=f'histogram(key={k!r}, fold_base=...) beyond int64')
                else:
                    ctx.violation('views:histogram', f'histogram(key={k!r}, mode={mode}) of {desc} = {h}, counting rows gives {exp}', dict(rp, key=k, mode=mode))
            # -- the vectorised path with an explicit batch size: any positive batch size must give the same counts
            bsz = rng.choice([1, 2, 3, 5])
            if mode in ('none', 'int', 'list') and h is not None and exp is not None and binary and hasattr(cirq.Result, '_vectorized_histogram'):
                fbv = None if mode == 'none' else fb
                hb = _try(lambda: mk()._vectorized_histogram(key=k, fold_base=fbv, batch_size=bsz))
                ctx.count('views:histogram:batch_size', [canon_in, k, mode, extra, bsz], nontriv and hb is not None and reps > bsz)
                if hb is not None and dict(hb) != dict(exp):      # None: the values do not fit an int64
                    ctx.violation('views:histogram:batch_size', f'_vectorized_histogram(key={k!r}, fold_base={fbv}, batch_size={bsz}) of {desc} = {dict(hb)}, '
                                  f'counting rows gives {dict(exp)} (counts sum to {sum(hb.values())} for {reps} repetitions)',
                                  dict(rp, key=k, mode=mode, batch_size=bsz))
        # -- multi-key histograms: subsets in any order (with an occasional repeated or unknown key)
        for _ in range(2):
            pool = list(recs)
            ks = [rng.choice(pool) for _ in range(rng.choice([0, 1, 2, 2, 3]))] if pool else []
            if pool and rng.random() < 0.5:
                ks = rng.sample(pool, rng.randint(0, len(pool)))
            if rng.random() < 0.07:
                ks.append('missing')
            mname = rng.choice(['default', 'default', 'cat', 'sums'])
            if mname == 'default':
                h = _try(lambda: mk().multi_measurement_histogram(keys=ks))
            else:
                h = _try(lambda: mk().multi_measurement_histogram(keys=ks, fold_func=MFOLDS[mname]))
            R['multi'].append((lit, [kid[k] for k in ks], MFOLD_IDS[mname], h))
            ctx.count('views:multi_histogram', [canon_in, ks, mname], nontriv and h is not None and len(ks) >= 2,
                      sample=dict(records=desc, keys=ks, fold=mname, histogram=None if h is None else {str(a): b for a, b in h.items()}))
            f = None
            if not ks:            # no key is looked at: one empty sample per repetition, whatever the records are
                f = MFOLDS.get(mname, lambda rows: ())
                exp = collections.Counter(f(()) for r in range(reps if recs else 0))
            elif sm is None or 'missing' in ks:
                exp = None
            else:
                f = MFOLDS.get(mname, lambda rows: tuple(spec_int([1 if d else 0 for d in row]) for row in rows))
                exp = collections.Counter(f(tuple(sm[k][r] for k in ks)) for r in range(reps if recs else 0))
            if (None if h is None else dict(h)) != (None if exp is None else dict(exp)):
                ctx.violation('views:multi_histogram', f'multi_measurement_histogram(keys={ks}, fold={mname}) of {desc} = {h}, counting rows in key order gives {exp}',
                              dict(rp, keys=ks, fold=mname))
        # -- concatenation: the right operand has its own dtype and its own digits (records carry no radix)
        reps2 = rng.choice([0, 1, 2, 4])
        recs2 = collections.OrderedDict()
        order = list(recs)
        if rng.random() < 0.4:
            rng.shuffle(order)
        bad = rng.random() < 0.2
        for k in order:
            a = recs[k]
            dt2, bases2 = gen_right_operand(rng, str(a.dtype), spec[k]['bases'])
            b = np.zeros((reps2,) + a.shape[1:], dtype=dt2)
            for idx in np.ndindex(b.shape):
                b[idx] = rng.randrange(bases2[idx[2]])
            recs2[k] = b
        if bad and recs2:
            k = rng.choice(list(recs2))
            how = rng.choice(['drop', 'inst', 'nq', 'extra'])
            if how == 'drop':
                del recs2[k]
            elif how == 'inst':
                recs2[k] = np.zeros((reps2, recs2[k].shape[1] + 1, recs2[k].shape[2]), dtype=recs2[k].dtype)
            elif how == 'nq':
                recs2[k] = np.zeros((reps2, recs2[k].shape[1], recs2[k].shape[2] + 1), dtype=recs2[k].dtype)
            else:
                recs2['missing'] = np.zeros((reps2, 1, 1), dtype=bool)
        judge_add(ctx, cirq, recs, recs2, R, kid, nontriv)
        if shard == 0 and case == 0:        # the fixed grid of dtype pairs, the same for every seed
            for g1, g2 in add_grid():
                judge_add(ctx, cirq, g1, g2, R, kid, True)
        # -- string form: one line per key (sorted) and instance, one digit string per qubit running over the repetitions
        if recs and all(a.shape[0] > 0 and a.shape[2] > 0 for a in recs.values()):
            ok_s = str_spells_records(str(mk()), recs)
            ctx.count('views:str', canon_in, nontriv, sample=dict(records=desc, text=str(mk())[:300]))
            if not ok_s:
                ctx.violation('views:str', f'str(result) does not spell the records: {str(mk())!r} for {desc}', rp)
        # -- JSON storage
        txt = cirq.to_json(res)
        back = cirq.read_json(json_text=txt)
        jd = json.loads(txt)['records']
        okj = back == res and list(back.records) == list(recs) and all(
            back.records[k].shape == recs[k].shape and back.records[k].dtype == recs[k].dtype for k in recs)
        if not okj:
            ctx.violation('views:json', f'read_json(to_json(r)) != r for {desc}', rp)
        for k, a in recs.items():
            e = jd[k]
            item = a.dtype.itemsize
            if e['binary']:
                nibbles = [int(c, 16) for c in e['packed_digits']]
            else:
                nibbles = [int(c, 16) for c in npy_payload(e['packed_digits']).hex()]
            un = cirq.study.result._unpack_digits(**e)
            R['json'].append((item, [int(x) for x in a.ravel()], nibbles, bool(e['binary']), list(a.shape), [int(x) for x in np.asarray(un).ravel()]))
            ctx.count('views:json', [k, str(a.dtype), a.tolist()], a.size >= 2 and len(set(a.ravel().tolist())) > 1,
                      sample=dict(digits=a.tolist() if a.size <= 24 else '...', dtype=str(a.dtype), binary=e['binary'], packed=e['packed_digits'][-32:]))
    # ---- evaluate the model on the same cases
    O, ZL = coq.opt, coq.zlist
    hdr = ('From Coq Require Import ZArith List Bool.\nFrom VF Require Import Base.Digits Base.Harness Codec.ResultViews.\n'
           'Import ListNotations.\nOpen Scope Z_scope.\n' + COQ_FOLDS)
    m_lit = lambda m: '[' + '; '.join(f'({k}, ({nq}%nat, {zll(rows)}))' for k, (nq, rows) in m) + ']'
    d_lit = lambda d: '[' + '; '.join(f'({k}, {ZL(col)})' for k, col in d) + ']'
    tl = lambda t: ZL(t)
    text = hdr
    text += 'Definition c_meas : list (result * nat * option (list (Z * (nat * list (list Z))))) := [\n' + ';\n'.join(
        f'({l}, {r}%nat, {O(m, m_lit)})' for l, r, m in R['meas']) + '].\n'
    text += ('Eval vm_compute in failing (fun c => match c with (r, n, m) => Nat.eqb (repetitions r) n && '
             'opt_eqb meas_eqb (measurements r) m end) c_meas.\n')
    text += 'Definition c_df : list (result * option (list (Z * list Z))) := [\n' + ';\n'.join(
        f'({l}, {O(d, d_lit)})' for l, d in R['df']) + '].\n'
    text += 'Eval vm_compute in failing (fun c => opt_eqb df_eqb (dataframe (fst c)) (snd c)) c_df.\n'
    text += 'Definition c_hist : list (result * Z * fold_base * option (list (Z * nat))) := [\n' + ';\n'.join(
        f'({l}, {k}, {fb}, {O(h, lambda c: counter_lit(c, coq.zlit))})' for l, k, fb, h, _ in R['hist']) + '].\n'
    text += 'Eval vm_compute in failing (fun c => match c with (r, k, fb, h) => opt_eqb zc_eqb (histogram r k fb) h end) c_hist.\n'
    text += 'Definition c_histf : list (result * Z * nat * option (list (list Z * nat))) := [\n' + ';\n'.join(
        f'({l}, {k}, {f}%nat, {O(h, lambda c: counter_lit(c, tl))})' for l, k, f, h in R['histf']) + '].\n'
    text += ('Eval vm_compute in failing (fun c => match c with (r, k, f, h) => '
             'opt_eqb lc_eqb (histogram_fold zl_eqb r k (fold_named f)) h end) c_histf.\n')
    text += 'Definition c_multi : list (result * list Z * nat * option (list (list Z * nat))) := [\n' + ';\n'.join(
        f'({l}, {ZL(ks)}, {f}%nat, {O(h, lambda c: counter_lit(c, tl))})' for l, ks, f, h in R['multi']) + '].\n'
    text += ('Eval vm_compute in failing (fun c => match c with (r, ks, f, h) => '
             'opt_eqb lc_eqb (multi_hist zl_eqb r ks (mfold_named f)) h end) c_multi.\n')
    text += 'Definition c_add : list (result * result * option result) := [\n' + ';\n'.join(
        f'({a}, {b}, {O(t)})' for a, b, t in R['add']) + '].\n'
    text += 'Eval vm_compute in failing (fun c => match c with (a, b, t) => opt_eqb res_eqb (result_add a b) t end) c_add.\n'
    text += 'Definition c_json : list (nat * list Z * list Z * bool * nat * list Z) := [\n' + ';\n'.join(
        f'({item}%nat, {ZL(flat)}, {ZL(nib)}, {"true" if b else "false"}, {int(np.prod(shape))}%nat, {ZL(un)})'
        for item, flat, nib, b, shape, un in R['json']) + '].\n'
    text += ('Eval vm_compute in failing (fun c => match c with (item, flat, nib, b, cnt, un) => '
             'pair_eqb zl_eqb Bool.eqb (pack_digits item flat) (nib, b) && zl_eqb (unpack_digits item cnt (nib, b)) un end) c_json.\n')
    vals = coq.parse_evals(coq.coq_eval(f'c18_views_{ctx.seed}_{shard}', text))
    names = ['meas', 'df', 'hist', 'histf', 'multi', 'add', 'json']
    assert len(vals) == len(names), vals
    for name, val in zip(names, vals):
        for idx in coq.parse_nat_list(val):
            label = f'correspondence:views:{name}'
            if name == 'hist' and R[name][idx][4] is not None:
                arr, bl = R[name][idx][4]
                if any(_impl_digits_to_int(cirq, arr[r_, 0], bl) != _impl_digits_to_int(cirq, [int(x) for x in arr[r_, 0]], bl) for r_ in range(arr.shape[0])):
                    # the known finding digits:digits_to_int:numpy-digits (reported through ctx.violation above) explains this row
                    ctx.cov['model_disagreements_explained_by_known_finding'] = ctx.cov.get('model_disagreements_explained_by_known_finding', 0) + 1
                    continue
            ctx.mark_broken(label, f'model and implementation differ on {str(R[name][idx][:4])[:1500]}')


# ------------------------------------------------------------------ results on both sides of the histogram batch size
# Rows of a large record are produced by an arithmetic generator over a small table of digit rows:
#   row(r) = table[(a*r*r + b*r + c) mod (m0 + r div step)]
# so later repetitions reach table entries that earlier ones cannot (batches differ), the sequence is not periodic, and the
# model can rebuild the same 10^5 rows from a handful of numbers instead of a literal.
LARGE_GRID = [50_000, 50_001, 60_000, 100_001]
COQ_LARGE = """
(* the generator, segment by segment: inside a segment the modulus m is fixed and the quadratic is advanced by its
   first and second differences, all kept reduced mod m (same values as the closed form the harness uses) *)
Definition red (x m : Z) : Z := if x <? m then x else x - m.
Fixpoint gen_seg (fuel : nat) (x d e m : Z) (table : list (list Z)) (rest : list (list (list Z))) : list (list (list Z)) :=
  match fuel with
  | O => rest
  | S f => [nth (Z.to_nat x) table []] :: gen_seg f (red (x + d) m) (red (d + e) m) e m table rest
  end.
Fixpoint gen_rows (segs : nat) (r0 n a b c m0 step : Z) (table : list (list Z)) : list (list (list Z)) :=
  match segs with
  | O => []
  | S s => if n <=? r0 then [] else
           let m := m0 + r0 / step in
           gen_seg (Z.to_nat (Z.min step (n - r0))) ((a * r0 * r0 + b * r0 + c) mod m) ((a * (2 * r0 + 1) + b) mod m) ((2 * a) mod m) m
                   table (gen_rows s (r0 + step) n a b c m0 step table)
  end.
Definition gen_rec (n a b c m0 step : Z) (nq : nat) (table : list (list Z)) : rec :=
  mkRec 1 nq (gen_rows (Z.to_nat (n / step + 1)) 0 n a b c m0 step table).
(* r[:k] and r[k:] of every record *)
Definition res_slice (cut : list (list (list Z)) -> list (list (list Z))) (r : result) : result :=
  map (fun kr => (fst kr, mkRec (r_inst (snd kr)) (r_nq (snd kr)) (cut (r_data (snd kr))))) r.
"""
LARGE_NAMES = dict(bits='b', qudit='q(0, 1)', wide='out')


def gen_large_key(rng, n, kind):
    step = rng.choice([20_000, 30_000, 45_000])
    m0 = rng.randint(2, 5)
    tlen = m0 + (n - 1) // step + 1
    if kind == 'bits':
        nq = rng.choice([1, 2, 3, 4])
        bases, dtype = [2] * nq, rng.choice(['bool', 'uint8', 'int8', 'int64'])
    elif kind == 'wide':
        nq = rng.choice([40, 62, 63, 63, 64, 70])       # up to 63 bits the vectorised path is taken, beyond it the generic one
        bases, dtype = [2] * nq, rng.choice(['bool', 'uint8', 'int8'])
    else:
        nq = rng.choice([2, 3, 4])
        bases = [rng.choice([2, 3, 4, 5, 7]) for _ in range(nq)]
        bases[rng.randrange(nq)] = rng.choice([3, 5])          # never all binary, usually asymmetric
        dtype = rng.choice(['uint8', 'int8', 'int64'])
    skew = rng.choice([0.2, 0.5, 0.8])
    table = [[(1 if rng.random() < skew else 0) if b == 2 else rng.randrange(b) for b in bases] for _ in range(tlen)]
    if tlen >= 3 and rng.random() < 0.5:            # two table entries with the same row: an outcome reached two ways
        table[tlen - 1] = list(table[0])
    return dict(kind=kind, nq=nq, bases=bases, dtype=dtype, a=rng.randint(1, 97), b=rng.randint(0, 997), c=rng.randint(0, 997),
                m0=m0, step=step, table=table)


def gen_large_case(rng, n, with_wide):
    kinds = ['qudit', 'bits'] + (['wide'] if with_wide else [])
    rng.shuffle(kinds)
    keys = collections.OrderedDict((LARGE_NAMES[kd], gen_large_key(rng, n, kd)) for kd in kinds)
    q = keys[LARGE_NAMES['qudit']]
    calls = [('b', 'none', None), ('b', 'int', rng.choice([2, 3])), ('b', 'func', rng.choice(sorted(FOLDS))),
             ('q(0, 1)', 'list', [x + rng.choice([0, 0, 2]) for x in q['bases']]),
             ('q(0, 1)', 'int', max(q['bases']) + rng.choice([0, 1]))]
    if with_wide:       # fold_base beyond 63 bits goes digit by digit through big_endian_digits_to_int (0.2 ms per row): small streams only
        calls += [('out', 'none', None)] + ([('out', 'int', 2)] if keys['out']['nq'] <= 63 else [])
    return dict(n=n, split=(n // 2 if n % 1000 == 0 else rng.randint(1, n - 1)), keys=keys, calls=calls,
                multi=[(['q(0, 1)', 'b'], 'default'), (['b'], rng.choice(['cat', 'sums']))])


def large_idx(ks, n, start=0):
    r = np.arange(start, start + n, dtype=np.int64)
    return (ks['a'] * r * r + ks['b'] * r + ks['c']) % (ks['m0'] + r // ks['step'])


def large_counter(idx, vals):
    """Counter of vals[i] over the table indices idx (counting rows, outcome by outcome)."""
    c = collections.Counter()
    for i, m in enumerate(np.bincount(idx, minlength=len(vals)).tolist()):
        if m:
            c[vals[i]] += m
    return c


def large_call(res, key, mode, arg):
    if mode == 'none':
        return res.histogram(key=key)
    if mode == 'func':
        return res.histogram(key=key, fold_func=FOLDS[arg])
    return res.histogram(key=key, fold_base=arg)


def large_vals(ks, mode, arg):
    """The value the histogram call must count for each table row (positional notation / the named fold)."""
    if mode == 'none':
        return [spec_int([1 if d else 0 for d in row]) for row in ks['table']]
    if mode == 'func':
        return [FOLDS[arg](row) for row in ks['table']]
    bl = [arg] * ks['nq'] if isinstance(arg, int) else list(arg)
    return [spec_int(row, bl) for row in ks['table']]


def large_python(ctx, cirq, case):
    """Specification-level oracles on one large result; returns what the model needs for the correspondence."""
    n, keys = case['n'], case['keys']
    idx = {k: large_idx(ks, n) for k, ks in keys.items()}
    recs = collections.OrderedDict((k, np.array(ks['table'], dtype=ks['dtype'])[idx[k]][:, np.newaxis, :]) for k, ks in keys.items())
    pr = cirq.ParamResolver({'p': 0.25})
    mk = lambda lo=0, hi=n: cirq.ResultDict(params=pr, records={k: a[lo:hi].copy() for k, a in recs.items()})
    res = mk()
    shape = {k: dict(shape=list(a.shape), dtype=str(a.dtype), generator={x: ks[x] for x in ('a', 'b', 'c', 'm0', 'step')}, table=ks['table'])
             for (k, a), ks in zip(recs.items(), keys.values())}
    rp = dict(kind='large', case=case)
    ckey = [n, [(k, ks['dtype'], ks['a'], ks['b'], ks['c'], ks['m0'], ks['step'], ks['table']) for k, ks in keys.items()]]
    big = n > 50_000
    # -- repetitions, measurements, data frame
    meas = res.measurements
    ok = res.repetitions == n and list(meas) == list(recs) and all(np.array_equal(meas[k], recs[k][:, 0, :]) and meas[k].shape == (n, keys[k]['nq']) for k in recs)
    ctx.count('large:measurements', ckey, big, sample=dict(repetitions=n, records=shape))
    if not ok:
        ctx.violation('views:measurements', f'measurements/repetitions of {n} generated repetitions {shape} do not show the records', rp)
    df = mk().data
    ctx.count('large:dataframe', ckey, big)
    for k, ks in keys.items():
        col = [sum(int(d) << (ks['nq'] - 1 - i) for i, d in enumerate(row)) for row in ks['table']]
        exp_col = [col[i] for i in idx[k].tolist()]
        got_col = [int(x) for x in df[k]] if k in df.columns else None
        if got_col != exp_col or len(df) != n or list(df.columns) != list(recs):
            bad = None if got_col is None else next((r for r in range(min(n, len(got_col))) if got_col[r] != exp_col[r]), None)
            ctx.violation('views:dataframe', f'data frame column {k!r} of {n} generated repetitions {shape[k]} differs from the big-endian integers of the rows '
                          f'(length {len(df)}, first differing repetition {bad})', rp)
    # -- histograms
    hist_out = []
    for (k, mode, arg) in case['calls']:
        ks = keys[k]
        vals = large_vals(ks, mode, arg)
        h = _try(lambda: large_call(mk(), k, mode, arg))
        exp = large_counter(idx[k], vals)
        hist_out.append(h)
        ctx.count('large:histogram', [ckey, k, mode, arg], big and h is not None,
                  sample=dict(repetitions=n, key=k, mode=mode, arg=arg, record=shape[k], histogram=None if h is None else {str(a): b for a, b in h.items()}))
        if (None if h is None else dict(h)) != dict(exp):
            def fails(m):
                hm = _try(lambda: large_call(mk(0, m), k, mode, arg))
                return (None if hm is None else dict(hm)) != dict(large_counter(idx[k][:m], vals))
            lo, hi = 0, n
            while hi - lo > 1:
                mid = (lo + hi) // 2
                lo, hi = (lo, mid) if fails(mid) else (mid, hi)
            m = hi if fails(hi) else n
            hm = _try(lambda: large_call(mk(0, m), k, mode, arg))
            em = large_counter(idx[k][:m], vals)
            ctx.violation('views:histogram', f'histogram(key={k!r}, mode={mode}, arg={arg}) of the first {m} of {n} generated repetitions {shape[k]} = '
                          f'{None if hm is None else dict(sorted(hm.items()))} (counts sum to {None if hm is None else sum(hm.values())}), '
                          f'counting rows gives {dict(sorted(em.items()))} (sum {m})', dict(rp, key=k, mode=mode, arg=arg, prefix=m))
    # -- multi-key histograms
    multi_out = []
    for ks_, mname in case['multi']:
        kw = {} if mname == 'default' else dict(fold_func=MFOLDS[mname])
        h = _try(lambda: mk().multi_measurement_histogram(keys=ks_, **kw))
        f = MFOLDS.get(mname, lambda rows: tuple(spec_int([1 if d else 0 for d in row]) for row in rows))
        sizes = [len(keys[k]['table']) for k in ks_]
        joint = np.zeros(n, dtype=np.int64)
        for k, sz in zip(ks_, sizes):
            joint = joint * sz + idx[k]
        exp = collections.Counter()
        for j, m in enumerate(np.bincount(joint).tolist()):
            if m:
                parts = []
                for sz in reversed(sizes):
                    parts.append(j % sz)
                    j //= sz
                exp[f(tuple(tuple(keys[k]['table'][i]) for k, i in zip(ks_, reversed(parts))))] += m
        multi_out.append(h)
        ctx.count('large:multi_histogram', [ckey, ks_, mname], big and h is not None)
        if (None if h is None else dict(h)) != dict(exp):
            ctx.violation('views:multi_histogram', f'multi_measurement_histogram(keys={ks_}, fold={mname}) of {n} generated repetitions {shape} = {h}, '
                          f'counting rows in key order gives {dict(exp)}', dict(rp, keys=ks_, fold=mname))
    # -- r1 + r2: every view of the sum is the view of the whole
    sp = case['split']
    r1, r2 = mk(0, sp), mk(sp, n)
    tot = _try(lambda: r1 + r2)
    add_out = []
    ok = tot is not None and tot == res and tot.repetitions == n and list(tot.records) == list(recs) and all(
        np.array_equal(np.asarray(tot.records[k]), recs[k]) for k in recs)
    ctx.count('large:add', [ckey, sp], big)
    if ok:
        for (k, mode, arg) in case['calls']:
            h = _try(lambda: large_call(tot, k, mode, arg))
            add_out.append(h)
            if (None if h is None else dict(h)) != dict(large_counter(idx[k], large_vals(keys[k], mode, arg))):
                ok = False
                ctx.violation('views:add', f'histogram(key={k!r}, mode={mode}, arg={arg}) of r1 + r2 ({sp} + {n - sp} generated repetitions {shape[k]}) = {h}: '
                              f'not the counts of the rows of r1 followed by the rows of r2', dict(rp, key=k, mode=mode, arg=arg))
        if ok and not all([int(x) for x in tot.data[k]] == [int(x) for x in df[k]] for k in recs):
            ok = False
    if not ok:
        ctx.violation('views:add', f'views of r1 + r2 ({sp} + {n - sp} generated repetitions {shape}) are not the views of the concatenated records', rp)
    # -- JSON storage and string form
    back = cirq.read_json(json_text=cirq.to_json(res))
    ctx.count('large:json', ckey, big)
    if not (back == res and list(back.records) == list(recs) and all(
            back.records[k].shape == recs[k].shape and back.records[k].dtype == recs[k].dtype and np.array_equal(back.records[k], recs[k]) for k in recs)):
        ctx.violation('views:json', f'read_json(to_json(r)) != r for {n} generated repetitions {shape}', rp)
    if sum(a.size for a in recs.values()) > 1_500_000:       # str() of millions of digits takes seconds; the narrow cases cover it
        return hist_out, multi_out, (add_out if tot is not None and len(add_out) == len(case['calls']) else None)
    ctx.count('large:str', ckey, big)
    if not str_spells_records(str(mk()), recs):
        ctx.violation('views:str', f'str(result) does not spell the records of {n} generated repetitions {shape}', rp)
    return hist_out, multi_out, (add_out if tot is not None and len(add_out) == len(case['calls']) else None)


def large_coq_text(case, outs, kid):
    hist_out, multi_out, add_out = outs
    n, sp, keys = case['n'], case['split'], case['keys']
    Z, ZL = coq.zlit, coq.zlist
    text = ('From Coq Require Import ZArith List Bool.\nFrom VF Require Import Base.Digits Base.Harness Codec.ResultViews.\n'
            'Import ListNotations.\nOpen Scope Z_scope.\n' + COQ_FOLDS + COQ_LARGE)
    text += 'Definition whole : result := [' + '; '.join(
        f'({kid[k]}, gen_rec {n} {ks["a"]} {ks["b"]} {ks["c"]} {ks["m0"]} {ks["step"]} {ks["nq"]}%nat {zll(ks["table"])})'
        for k, ks in keys.items()) + '].\n'
    zc = lambda c: counter_lit(c, Z)
    lc = lambda c: counter_lit(c, ZL)
    def call(r, k, mode, arg, h):
        if mode == 'func':
            return f'opt_eqb lc_eqb (histogram_fold zl_eqb {r} {kid[k]} (fold_named {FOLD_IDS[arg]}%nat)) {coq.opt(h, lc)}'
        fb = 'BaseNone' if mode == 'none' else (f'(BaseInt {Z(arg)})' if isinstance(arg, int) else f'(BaseList {ZL(arg)})')
        return f'opt_eqb zc_eqb (histogram {r} {kid[k]} {fb}) {coq.opt(h, zc)}'
    checks = [f'Nat.eqb (repetitions r) (Z.to_nat {n})']
    checks += [call('r', k, mode, arg, h) for (k, mode, arg), h in zip(case['calls'], hist_out)]
    checks += [f'opt_eqb lc_eqb (multi_hist zl_eqb r {ZL([kid[k] for k in ks_])} (mfold_named {MFOLD_IDS[mname]}%nat)) {coq.opt(h, lc)}'
               for (ks_, mname), h in zip(case['multi'], multi_out)]
    if add_out is None:
        checks.append('match result_add r1 r2 with None => true | Some _ => false end')
    else:
        checks.append('opt_eqb res_eqb (result_add r1 r2) (Some r)')
        checks += ['match result_add r1 r2 with Some t => ' + call('t', k, mode, arg, h) + ' | None => false end'
                   for (k, mode, arg), h in zip(case['calls'], add_out)]
    labels = (['repetitions'] + [f'histogram{c}' for c in case['calls']] + [f'multi_histogram{m}' for m in case['multi']]
              + ['add'] + ([] if add_out is None else [f'add;histogram{c}' for c in case['calls']]))
    text += ('Eval vm_compute in (let r := whole in let r1 := res_slice (firstn (Z.to_nat ' + str(sp) + ')) r in let r2 := res_slice (skipn (Z.to_nat ' + str(sp) + ')) r in failing (fun x : bool => x) [\n  '
             + ';\n  '.join(checks) + ']).\n')
    return text, labels


def large_stream(ctx, cirq, sizes, wide_at):
    kid = {k: i for i, k in enumerate(KEY_NAMES)}
    items, metas = [], []
    for ci, n in enumerate(sizes):
        case = gen_large_case(ctx.rng, n, with_wide=(ci in wide_at))
        outs = large_python(ctx, cirq, case)
        text, labels = large_coq_text(case, outs, kid)
        items.append((f'c18_large_{ctx.seed}_{ci}', text))
        metas.append((case, labels))
    for (case, labels), out in zip(metas, coq.coq_eval_many(items, workers=3)):
        vals = coq.parse_evals(out)
        assert len(vals) == 1, vals
        for idx in coq.parse_nat_list(vals[0]):
            ctx.mark_broken('correspondence:large:' + labels[idx].split('(')[0].split(';')[0],
                            f'model and implementation differ on {labels[idx]} of the generated result n={case["n"]} split={case["split"]} '
                            f'{ {k: {x: ks[x] for x in ("a", "b", "c", "m0", "step", "table", "dtype")} for k, ks in case["keys"].items()} }')


# ------------------------------------------------------------------ records built from shapes (Sampler._get_measurement_shapes, ZerosSampler)
SHAPE_KEYS = ['ro', 'a', 'b', 'm0', 'q(0, 1)', 'z']
SHAPE_FORMS = [(2,), (2,), (2, 2), (2, 2, 2), (3,), (2, 3)]      # qid shapes a key may have (qubits and qutrits)


def spec_shapes(cirq, program):
    """The documentation of the record shape, operation by operation: key -> list of the qid shapes of the measurement
    operations that carry it, in circuit order (keys in the order of their first measurement); plus the circuit as the
    model sees it (moments of None / (key, qid shape))."""
    per_key, moments = collections.OrderedDict(), []
    for moment in program.moments:
        row = []
        for op in moment.operations:
            if isinstance(op.gate, cirq.MeasurementGate):
                shape = tuple(int(d) for d in cirq.qid_shape(op))
                per_key.setdefault(str(op.gate.key), []).append(shape)
                row.append((str(op.gate.key), shape))
            else:
                row.append(None)
        moments.append(row)
    return per_key, moments


def spec_record_shapes(cirq, program, repetitions):
    """{key: (repetitions, instances, qubits)}; ValueError when two measurements of a key differ in qid shape (as documented)."""
    per_key, _ = spec_shapes(cirq, program)
    for k, shapes in per_key.items():
        if len(set(shapes)) != 1:
            raise ValueError(f'measurements of key {k!r} differ in qid shape: {shapes}')
    return collections.OrderedDict((k, (repetitions, len(shapes), len(shapes[0]))) for k, shapes in per_key.items())


def shape_qubits(cirq):
    return [cirq.LineQubit(i) for i in range(6)], [cirq.LineQid(10 + i, dimension=3) for i in range(3)]


def shape_grid(cirq):
    """Circuits every run judges, whatever VERIF_SEED: keys shared by the measurements of ONE moment (parallel readout),
    keys repeated over moments, both at once, next to gates, behind measurement-free moments, qutrits, frozen circuits,
    default insertion, and keys whose measurements differ in qid shape (must be refused)."""
    import sympy
    qs, qt = shape_qubits(cirq)
    M, meas, t = cirq.Moment, cirq.measure, sympy.Symbol('t')
    out = []
    for n in (2, 3, 4, 6):            # parallel readout of n qubits under one key, behind 0 / 5 measurement-free moments
        for depth in (0, 5):
            out.append((f'parallel readout of {n} qubits under one key, depth {depth}',
                        cirq.Circuit([M(cirq.Z.on_each(*qs[:n])) for _ in range(depth)], M(meas(x, key='ro') for x in qs[:n]))))
    out.append(('two-qubit measurements sharing a key inside each of two moments, second key alongside',
                cirq.Circuit(M(meas(qs[0], qs[1], key='a'), meas(qs[2], qs[3], key='a')),
                             M(meas(qs[0], qs[1], key='a'), meas(qs[2], key='b')))))
    out.append(('two keys, each twice in one moment, then one of them again',
                cirq.Circuit(M(meas(qs[0], key='a'), meas(qs[1], key='b'), meas(qs[2], key='a'), meas(qs[3], key='b')), M(meas(qs[4], key='b')))))
    out.append(('shared key next to gates in one moment',
                cirq.Circuit(M(cirq.Z(qs[0]) ** t, meas(qs[1], key='m0'), cirq.CZ(qs[2], qs[3]), meas(qs[4], key='m0')), M(meas(qs[0], key='z')))))
    out.append(('parallel readout repeated in three moments with gates between',
                cirq.Circuit(M(meas(x, key='ro') for x in qs[:3]), M(cirq.S.on_each(*qs[:3])), M(meas(x, key='ro') for x in qs[:3]),
                             M(cirq.Z(qs[0]) ** t), M(meas(x, key='ro') for x in qs[:2]))))
    for k in (2, 3, 4):
        out.append((f'one key in {k} successive moments', cirq.Circuit(M(meas(qs[0], qs[1], key='a')) for _ in range(k))))
    out.append(('one key per operation', cirq.Circuit(meas(qs[0], key='a'), meas(qs[1], qs[2], key='b'), meas(qs[3], key='q(0, 1)'))))
    out.append(('default insertion of a repeated key (one instance per moment)',
                cirq.Circuit(meas(qs[0], key='a'), meas(qs[0], key='a'), meas(qs[1], qs[2], key='b'))))
    out.append(('qutrit parallel readout under one key', cirq.Circuit(M(meas(x, key='ro') for x in qt), M(meas(qt[0], key='ro'), meas(qs[0], key='b')))))
    out.append(('mixed qubit/qutrit measurements sharing a key', cirq.Circuit(M(meas(qs[0], qt[0], key='z'), meas(qs[1], qt[1], key='z'), meas(qs[2], key='a')))))
    out.append(('frozen circuit, parallel readout', cirq.Circuit(M(cirq.Z.on_each(*qs[:4])), M(meas(x, key='ro') for x in qs[:4])).freeze()))
    out.append(('frozen circuit, shared key in two moments',
                cirq.Circuit(M(meas(qs[0], key='a'), meas(qs[1], key='a')), M(meas(qs[0], key='a'), meas(qs[1], key='a'))).freeze()))
    # a key whose measurements differ in qid shape is refused (ValueError), inside one moment and across moments
    out.append(('one moment, one key, widths 2 and 1', cirq.Circuit(M(meas(qs[0], qs[1], key='a'), meas(qs[2], key='a')))))
    out.append(('two moments, one key, widths 1 and 2', cirq.Circuit(M(meas(qs[0], key='a')), M(meas(qs[1], qs[2], key='a')))))
    out.append(('one moment, one key, a qubit and a qutrit', cirq.Circuit(M(meas(qs[0], key='a'), meas(qt[0], key='a'), meas(qs[1], key='b')))))
    return out


def gen_shape_circuit(cirq, rng):
    """Moments written out by hand (not by an insertion strategy): each holds gates that keep |0..0>, measurements, or both;
    a key keeps the qid shape of its first measurement (5 % of the circuits break that on purpose) and is reused freely,
    inside a moment and across moments."""
    import sympy
    qs, qt = shape_qubits(cirq)
    t = sympy.Symbol('t')
    pool = rng.sample(SHAPE_KEYS, rng.choice([1, 1, 2, 2, 3, 4]))
    form = {k: rng.choice(SHAPE_FORMS) for k in pool}
    breaks = rng.random() < 0.05
    distinct = rng.random() < 0.2         # every measurement under a key of its own: the flat views and sample() exist
    unused = [k for k in SHAPE_KEYS]
    rng.shuffle(unused)
    moments = []
    for _ in range(rng.choice([1, 1, 2, 2, 3, 4, 6])):
        kind = rng.choice(['readout', 'readout', 'readout', 'mixed', 'gates'])
        free2, free3 = list(qs), list(qt)
        rng.shuffle(free2)
        rng.shuffle(free3)
        ops = []
        if kind in ('gates', 'mixed'):
            for _ in range(rng.randint(1, 3)):
                g = rng.choice(['Z', 'S', 'Zt', 'CZ', 'I'])
                if g == 'CZ' and len(free2) >= 2:
                    ops.append(cirq.CZ(free2.pop(), free2.pop()))
                elif free2:
                    x = free2.pop()
                    ops.append({'Z': cirq.Z(x), 'S': cirq.S(x), 'Zt': cirq.Z(x) ** t, 'I': cirq.I(x), 'CZ': cirq.Z(x)}[g])
        if kind in ('readout', 'mixed'):
            same = rng.random() < 0.5          # parallel readout: every measurement of the moment under one key
            key0 = rng.choice(pool)
            for _ in range(rng.choice([1, 2, 2, 3, 4])):
                key = key0 if same else rng.choice(pool)
                if distinct:
                    if not unused:
                        break
                    key = unused.pop()
                shape = form.setdefault(key, rng.choice(SHAPE_FORMS))
                if breaks and rng.random() < 0.4:
                    shape = rng.choice([f for f in SHAPE_FORMS if f != form[key]])
                if sum(d == 2 for d in shape) > len(free2) or sum(d == 3 for d in shape) > len(free3):
                    continue
                ops.append(cirq.measure(*[(free2 if d == 2 else free3).pop() for d in shape], key=key))
        rng.shuffle(ops)
        moments.append(cirq.Moment(ops))
    circuit = cirq.Circuit(moments)
    if not any(isinstance(op.gate, cirq.MeasurementGate) for op in circuit.all_operations()):
        circuit.append(cirq.Moment(cirq.measure(x, key=k_) for x, k_ in zip(qs[:2], [pool[0], pool[0]] if not distinct else ['a', 'b'])))
    return circuit.freeze() if rng.random() < 0.15 else circuit


def result_views(cirq, res):
    """Every view of a result as plain data (an exception by its type); a fresh object per view, because a failed
    access to .measurements leaves a partially filled cache behind."""
    recs = collections.OrderedDict((k, np.array(v)) for k, v in res.records.items())
    mk = lambda: cirq.ResultDict(params=res.params, records={k: a.copy() for k, a in recs.items()})

    def view(f):
        try:
            return f(mk())
        except (ValueError, KeyError) as e:
            return 'raises ' + type(e).__name__
    keys = sorted(recs)
    out = collections.OrderedDict()
    out['records'] = {k: (tuple(a.shape), a.astype(np.int64).ravel().tolist()) for k, a in recs.items()}
    out['repetitions'] = view(lambda r: int(r.repetitions))
    out['params'] = sorted((str(k), float(v)) for k, v in res.params.param_dict.items())
    out['measurements'] = view(lambda r: {k: (tuple(v.shape), np.asarray(v).astype(np.int64).ravel().tolist()) for k, v in r.measurements.items()})
    out['data'] = view(lambda r: (sorted(map(str, r.data.columns)), {str(c): [int(x) for x in r.data[c]] for c in r.data.columns}, [int(i) for i in r.data.index]))
    for k in keys:
        out[f'histogram({k!r})'] = view(lambda r: dict(r.histogram(key=k)))
    out['multi_measurement_histogram'] = view(lambda r: dict(r.multi_measurement_histogram(keys=keys)))
    out['str'] = view(str)
    return out


def frame_view(df):
    return (sorted(map(str, df.columns)), {str(c): [float(x) for x in df[c]] for c in df.columns}, [int(i) for i in df.index])


def judge_shapes_case(ctx, cirq, label, circuit, sweep, reps, rows=None, kid=None):
    """One circuit through every entry point of ZerosSampler, judged by the documented record shape
    (repetitions, instances of the key, qubits of the measurement), by Sampler._get_measurement_shapes' own contract,
    and by the simulator's results for the same circuit (all outcomes are 0) in every view."""
    import duet
    rp = dict(kind='shapes', label=label, circuit=cirq.to_json(circuit), sweep=cirq.to_json(sweep) if sweep is not None else None, repetitions=reps)
    per_key, moments = spec_shapes(cirq, circuit)
    try:
        want = spec_record_shapes(cirq, circuit, reps)
    except ValueError:
        want = None
    cs = str(circuit)
    desc = f'{label}:\n{cs}\n'
    ckey = [cs, repr(sweep), reps]
    zs = cirq.ZerosSampler()
    resolvers = list(cirq.to_resolvers(sweep))
    nontriv = want is not None and any(len(v) >= 2 for v in per_key.values())
    parallel = any(len([o for o in m if o is not None and o[0] == k]) >= 2 for m in moments for k in per_key)
    ctx.count('shapes:circuit', ckey, nontriv,
              sample=dict(circuit=cs, repetitions=reps, documented_shapes=None if want is None else {k: list(v) for k, v in want.items()}))
    ctx.count('shapes:key-shared-inside-a-moment', ckey, parallel and want is not None)
    # -- the helper itself: {key: (instances, qid shape)}, keys in the order of their first measurement
    try:
        got_shapes = cirq.Sampler._get_measurement_shapes(circuit)
        got_shapes = [(str(k), (int(n), tuple(int(d) for d in s))) for k, (n, s) in got_shapes.items()]
    except ValueError:
        got_shapes = None
    exp_shapes = None if want is None else [(k, (len(v), v[0])) for k, v in per_key.items()]
    if rows is not None:
        rows['shapes'].append((moments, got_shapes))
    if (None if got_shapes is None else dict(got_shapes)) != (None if exp_shapes is None else dict(exp_shapes)):
        ctx.violation('sampler:measurement-shapes', f'Sampler._get_measurement_shapes gives (instances, qid shape) = {None if got_shapes is None else dict(got_shapes)}, '
                      f'the circuit holds {None if exp_shapes is None else dict(exp_shapes)} (ValueError expected exactly when the measurements of a key differ in qid shape) for {desc}', rp)
    # -- every entry point of ZerosSampler
    def entry(f):
        try:
            return f()
        except ValueError:
            return None
    pr0 = resolvers[0]
    entries = collections.OrderedDict()
    entries['run'] = entry(lambda: [zs.run(circuit, pr0, reps)])
    entries['run_async'] = entry(lambda: [duet.run(zs.run_async, circuit, pr0, reps)])
    entries['run_sweep'] = entry(lambda: list(zs.run_sweep(circuit, sweep, reps)))
    entries['run_sweep_async'] = entry(lambda: list(duet.run(zs.run_sweep_async, circuit, sweep, reps)))
    entries['run_batch'] = entry(lambda: list(zs.run_batch([circuit, circuit], [sweep, pr0], reps)[0]))
    entries['run_batch_async'] = entry(lambda: list(duet.run(zs.run_batch_async, [circuit], [sweep], [reps])[0]))
    entries['run_sweep_iter'] = entry(lambda: list(zs.run_sweep_iter(circuit, sweep, reps))) if hasattr(zs, 'run_sweep_iter') else entries['run_sweep']
    bad_entry = None
    for how, results in entries.items():
        ctx.count('shapes:zeros:' + how, ckey, nontriv)
        prs = [pr0] if how in ('run', 'run_async') else resolvers
        if want is None:
            if results is not None:
                ctx.violation('sampler:zeros:record-shape', f'ZerosSampler.{how} accepts a key whose measurements differ in qid shape {dict(per_key)} for {desc}', dict(rp, entry=how))
            continue
        got = None if results is None else [{k: tuple(v.shape) for k, v in r.records.items()} for r in results]
        ok = results is not None and len(results) == len(prs) and all(g == dict(want) for g in got) and all(
            r.params == p and not any(np.asarray(v).any() for v in r.records.values()) for r, p in zip(results, prs))
        if not ok:
            bad_entry = bad_entry or how
            ctx.violation('sampler:zeros:record-shape', f'ZerosSampler.{how}(repetitions={reps}) returned record shapes {None if got is None else got[0]} '
                          f'({None if got is None else len(got)} results for {len(prs)} resolvers), but the circuit has (repetitions, instances, qubits) = {dict(want)} '
                          f'(instances = measurement operations carrying the key, wherever they stand) for {desc}', dict(rp, entry=how))
    if rows is not None and want is not None and entries['run_sweep']:
        rows['zeros'].append((moments, reps, collections.OrderedDict((k, np.asarray(v)) for k, v in entries['run_sweep'][0].records.items())))
    # -- the simulator on the same circuit: every outcome is 0, so every view of every result must coincide
    sim = cirq.Simulator(seed=ctx.rng.randrange(2 ** 31))
    sim_entries = collections.OrderedDict()
    sim_entries['run'] = entry(lambda: [sim.run(circuit, pr0, reps)])
    sim_entries['run_sweep'] = entry(lambda: list(sim.run_sweep(circuit, sweep, reps)))
    sim_entries['run_batch'] = entry(lambda: list(sim.run_batch([circuit, circuit], [sweep, pr0], reps)[0]))
    for how, ref in sim_entries.items():
        ctx.count('shapes:zeros-vs-simulator:' + how, ckey, nontriv and reps >= 1)
        mine = entries[how]
        if want is None:
            continue           # refused by ZerosSampler as documented; what a simulator makes of such a circuit is not this property's business
        if ref is None or mine is None or len(ref) != len(mine):
            ctx.violation('sampler:zeros-vs-simulator', f'{how}(repetitions={reps}): ZerosSampler gives {None if mine is None else len(mine)} results, the simulator '
                          f'{None if ref is None else len(ref)} for {desc}', dict(rp, entry=how))
            continue
        for i, (a, b) in enumerate(zip(mine, ref)):
            sim_shapes = {k: tuple(np.asarray(v).shape) for k, v in b.records.items()}
            if sim_shapes != dict(want):       # the reference itself departs from the documented shape
                sig = 'simulator:zero-repetitions-record-shape' if reps == 0 else 'simulator:record-shape'
                ctx.violation(sig, f'Simulator.{how}(repetitions={reps}) returned record shapes {sim_shapes}, but the circuit has (repetitions, instances, qubits) = {dict(want)} '
                              f'for {desc}', dict(rp, entry=how))
                continue
            va, vb = result_views(cirq, a), result_views(cirq, b)
            diff = [v for v in va if va[v] != vb.get(v)]
            if diff or not (a == b):
                ctx.violation('sampler:zeros-vs-simulator', f'{how}(repetitions={reps}) result {i}: ZerosSampler and the simulator differ in {diff or ["=="]}: '
                              f'{ {v: (va[v], vb.get(v)) for v in diff[:2]} } for {desc}', dict(rp, entry=how))
    # -- sample: the data frame of the zero sampler and of the simulator (both refuse a repeated key)
    def frame(s):
        try:
            return frame_view(s.sample(circuit, repetitions=max(reps, 1), params=sweep))
        except ValueError as e:
            return 'raises ValueError'
    fz, fs = frame(zs), frame(sim)
    ctx.count('shapes:sample', ckey, want is not None and all(len(v) == 1 for v in per_key.values()))
    if want is not None:
        single = all(len(v) == 1 for v in per_key.values())
        exp_cols = sorted(set(per_key) | {str(k) for p in resolvers for k in p.param_dict}) if single else None
        if (fz == 'raises ValueError') != (not single) or (single and (fz[0] != exp_cols or any(fz[1][k] != [0.0] * (max(reps, 1) * len(resolvers)) for k in per_key))):
            ctx.violation('sampler:zeros:sample', f'ZerosSampler.sample(repetitions={max(reps, 1)}) = {fz}; expected '
                          f'{"a refusal (a key is measured more than once)" if not single else f"columns {exp_cols}, one all-zero row per resolver and repetition"} for {desc}', dict(rp, entry='sample'))
        elif fz != fs:
            ctx.violation('sampler:zeros-vs-simulator', f'sample(repetitions={max(reps, 1)}): ZerosSampler gives {fz}, the simulator {fs} for {desc}', dict(rp, entry='sample'))
    return want


def gen_shape_sweep(cirq, rng):
    r = rng.random()
    if r < 0.4:
        return None
    if r < 0.6:
        return cirq.ParamResolver({'t': rng.choice([0, 0.5, 1])})
    if r < 0.8:
        return cirq.Points('t', [rng.choice([0, 0.25, 1]) for _ in range(rng.randint(1, 3))])
    return cirq.Product(cirq.Points('t', [0, 1]), cirq.Points('u', [0.25, 0.75][:rng.randint(1, 2)]))


def shapes_stream(ctx, cirq, n, shard=0):
    rng = ctx.rng
    kid = {k: i for i, k in enumerate(SHAPE_KEYS)}
    rows = dict(shapes=[], zeros=[])
    cases = []
    for i, (label, circuit) in enumerate(shape_grid(cirq) if shard == 0 else []):
        cases.append((label, circuit, cirq.Points('t', [0.5, 1]) if i % 3 == 0 else None, 3))
        if i % 4 == 0:
            cases.append((label, circuit, None, [0, 1, 2][(i // 4) % 3]))
    for _ in range(n):
        cases.append(('generated circuit', gen_shape_circuit(cirq, rng), gen_shape_sweep(cirq, rng), rng.choice([0, 1, 2, 3, 3, 5])))
    for label, circuit, sweep, reps in cases:
        if sweep is None and cirq.is_parameterized(circuit):
            sweep = cirq.ParamResolver({'t': 0.25})
        judge_shapes_case(ctx, cirq, label, circuit, sweep, reps, rows, kid)
    # ---- the model (Codec/SamplerShapes.v) on the same circuits
    ZL = coq.zlist
    op_lit = lambda o: 'None' if o is None else f'Some ({kid[o[0]]}, {ZL(o[1])})'
    circ_lit = lambda ms: '[' + '; '.join('[' + '; '.join(op_lit(o) for o in m) + ']' for m in ms) + ']'
    sh_lit = lambda l: '[' + '; '.join(f'({kid[k]}, ({n_}%nat, {ZL(s_)}))' for k, (n_, s_) in l) + ']'
    text = ('From Coq Require Import ZArith List Bool.\nFrom VF Require Import Base.Harness Codec.ResultViews Codec.SamplerShapes.\n'
            'Import ListNotations.\nOpen Scope Z_scope.\n' + COQ_FOLDS)
    text += 'Definition c_shapes : list (mcircuit * option (list (Z * (nat * list Z)))) := [\n' + ';\n'.join(
        f'({circ_lit(ms)}, {coq.opt(out, sh_lit)})' for ms, out in rows['shapes']) + '].\n'
    text += ('Eval vm_compute in failing (fun c => opt_eqb (list_eqb (pair_eqb Z.eqb (pair_eqb Nat.eqb zl_eqb))) '
             '(measurement_shapes (fst c)) (snd c)) c_shapes.\n')
    text += 'Definition c_zeros : list (mcircuit * nat * result) := [\n' + ';\n'.join(
        f'({circ_lit(ms)}, {reps}%nat, {res_lit(recs, kid)})' for ms, reps, recs in rows['zeros']) + '].\n'
    text += ('Eval vm_compute in failing (fun c => match c with (m, reps, r) => opt_eqb res_eqb (zeros_result reps m) (Some r) '
             '&& res_eqb (reference_result reps m) r end) c_zeros.\n')
    vals = coq.parse_evals(coq.coq_eval(f'c18_shapes_{ctx.seed}_{shard}', text))
    assert len(vals) == 2, vals
    for name, val in zip(['shapes', 'zeros'], vals):
        for idx in coq.parse_nat_list(val):
            ctx.mark_broken(f'correspondence:sampler:{name}', f'model and implementation differ on {str(rows[name][idx])[:1500]}')



# ------------------------------------------------------------------ simulators on circuits that keep a basis state
# A circuit is written down abstractly: dims (the dimension of every qid) and moments of operations
#   ['S', qid, amount, symbol-or-None]   add `amount` to the digit of the qid (X / the qudit +1 gate, to the power amount or symbol)
#   ['M', key, [qid, ...], [inverted?, ...]]   measure the qids under the key
# so that what every measurement reads is known from the circuit alone, for every repetition.
BASIS_KEYS = ['m', 'single', 'ro', 'a', 'b', 'z']
BASIS_SIMS = ['sv', 'sv-joint', 'dm', 'dm-joint', 'clifford', 'classical']


def basis_sim(cirq, kind, seed):
    return {'sv': lambda: cirq.Simulator(seed=seed), 'sv-joint': lambda: cirq.Simulator(seed=seed, split_untangled_states=False),
            'dm': lambda: cirq.DensityMatrixSimulator(seed=seed), 'dm-joint': lambda: cirq.DensityMatrixSimulator(seed=seed, split_untangled_states=False),
            'clifford': lambda: cirq.CliffordSimulator(seed=seed), 'classical': lambda: cirq.ClassicalStateSimulator()}[kind]()


def basis_sim_name(kind):
    return {'sv': 'Simulator', 'sv-joint': 'Simulator(split_untangled_states=False)', 'dm': 'DensityMatrixSimulator',
            'dm-joint': 'DensityMatrixSimulator(split_untangled_states=False)', 'clifford': 'CliffordSimulator', 'classical': 'ClassicalStateSimulator'}[kind]


def basis_circuit(cirq, spec):
    import sympy
    qid = lambda i: cirq.LineQubit(i) if spec['dims'][i] == 2 else cirq.LineQid(i, dimension=spec['dims'][i])
    moments = []
    for m in spec['moments']:
        ops = []
        for op in m:
            if op[0] == 'S':
                _, i, amt, sym = op
                d = spec['dims'][i]
                e = sympy.Symbol(sym) if sym else amt
                if d == 1:
                    ops.append(cirq.IdentityGate(qid_shape=(1,))(qid(i)))
                elif d == 2:
                    ops.append(cirq.X(qid(i)) if e == 1 and not sym else cirq.X(qid(i)) ** e)
                else:
                    ops.append(cirq.XPowGate(dimension=d)(qid(i)) ** e)
            else:
                _, key, qs, inv = op
                if any(inv):
                    ops.append(cirq.MeasurementGate(len(qs), key=key, qid_shape=tuple(spec['dims'][i] for i in qs),
                                                    invert_mask=tuple(bool(x) for x in inv)).on(*[qid(i) for i in qs]))
                else:
                    ops.append(cirq.measure(*[qid(i) for i in qs], key=key))
        moments.append(cirq.Moment(ops))
    return cirq.Circuit(moments)


def basis_flat_ops(spec, values):
    """The operations in circuit order with the symbols replaced by their values (what the model is given)."""
    out = []
    for m in spec['moments']:
        for op in m:
            if op[0] == 'S':
                out.append(('S', op[1], int(values[op[3]]) if op[3] else int(op[2])))
            else:
                out.append(('M', op[1], list(op[2]), [bool(x) for x in op[3]]))
    return out


def spec_basis_records(spec, values, reps):
    """Reference semantics: walk the operations once per repetition; a measurement appends the digits it reads to its key.
    Returns key -> repetitions x instances x qubits (keys in the order of their first measurement)."""
    per_rep = collections.OrderedDict()
    st = [0] * len(spec['dims'])
    for op in basis_flat_ops(spec, values):
        if op[0] == 'S':
            st[op[1]] = (st[op[1]] + op[2]) % spec['dims'][op[1]]
        else:
            per_rep.setdefault(op[1], []).append([(1 - st[i]) if inv else st[i] for i, inv in zip(op[2], op[3])])
    return collections.OrderedDict((k, [[list(row) for row in rows] for _ in range(reps)]) for k, rows in per_rep.items())


def basis_is_terminal(spec):
    flat = [op[0] for m in spec['moments'] for op in m]
    return 'M' in flat and all(x == 'M' for x in flat[flat.index('M'):])


def basis_grid():
    """Circuits every run judges, whatever VERIF_SEED: a key measured several times whose instances read different digits
    (in one moment and over several), next to a key measured once; qutrits; registers mixing dimensions 1, 2 and 3;
    inverted readout; a swept preparation - each with all measurements terminal and with a gate between the measurements."""
    S, M = (lambda q, a=1, sym=None: ['S', q, a, sym]), (lambda k, qs, inv=None: ['M', k, list(qs), list(inv or [0] * len(qs))])
    out = []
    def both(label, dims, prep, meas, sims, sweep=None, later=None):
        out.append((label + ', all measurements terminal', dict(dims=dims, moments=[prep] + meas), sims, sweep))
        out.append((label + ', a gate between the measurements', dict(dims=dims, moments=[prep, meas[0], later or [S(0, 0)]] + meas[1:]), sims, sweep))
    every = BASIS_SIMS
    dense = ['sv', 'sv-joint', 'dm', 'dm-joint']
    both('two-qubit registers under one key reading 01 and 11, a second key measured once', [2, 2, 2, 2], [S(1), S(2), S(3)],
         [[M('m', [0, 1])], [M('m', [2, 3]), M('single', [1])]], every)
    both('parallel readout of three qubits under one key reading 1, 0, 1, then again', [2, 2, 2], [S(0), S(2)],
         [[M('ro', [0]), M('ro', [1]), M('ro', [2])], [M('ro', [1]), M('ro', [0])]], every)
    both('one qubit under one key four times, flipped in between', [2, 2], [S(0)], [[M('a', [0])], [M('a', [1])], [M('a', [0])], [M('a', [1])]], every,
         later=[S(0), S(1)])
    both('qutrits reading 1 and 2 under one key', [3, 3], [S(0, 1), S(1, 2)], [[M('z', [0])], [M('z', [1])]], dense)
    both('qubit+qutrit registers under one key reading (1, 2) and (0, 1)', [2, 3, 2, 3], [S(0), S(1, 2), S(3, 1)],
         [[M('m', [0, 1]), M('m', [2, 3])], [M('b', [3, 0])]], dense)
    both('registers of dimensions (2, 1, 2) under one key reading 100 and 001', [2, 1, 2, 2, 2], [S(0), S(1, 0), S(4)],
         [[M('m', [0, 1, 2])], [M('m', [3, 1, 4])]], dense)
    both('registers of dimensions (1, 2, 2, 1) reading 0100 then 0010', [1, 2, 2, 1, 2], [S(1), S(0, 0)],
         [[M('a', [0, 1, 2, 3])], [M('a', [0, 2, 1, 3]), M('single', [4])]], dense)
    both('inverted readout under a repeated key', [2, 2, 2], [S(0)], [[M('m', [0, 1], [1, 0])], [M('m', [1, 2], [0, 1])], [M('m', [0, 2], [1, 1])]], every)
    both('swept preparation, key measured twice', [2, 2, 2], [S(0, 1, 't'), S(1)], [[M('m', [0, 1])], [M('m', [1, 2]), M('z', [0])]], every, sweep=('t', [0, 1, 1]))
    both('keys measured once only', [2, 2, 3], [S(0), S(2, 2)], [[M('a', [0, 1])], [M('b', [2]), M('z', [1, 0])]], dense)
    return out


def gen_basis_case(rng):
    kind = rng.choice(BASIS_SIMS)
    qubit_only = kind in ('clifford', 'classical')
    n2, n3 = rng.randint(1, 5), (0 if qubit_only else rng.choice([0, 0, 1, 2]))
    n1 = 0 if qubit_only else rng.choice([0, 0, 0, 1, 2])
    dims = [2] * n2 + [3] * n3 + [1] * n1
    rng.shuffle(dims)
    by_dim = {d: [i for i, x in enumerate(dims) if x == d] for d in (1, 2, 3)}
    forms = [f for f in [(2,), (2,), (2, 2), (2, 2, 2), (3,), (2, 3), (3, 2), (2, 1), (1, 2), (2, 1, 2), (1, 2, 2), (3, 1, 2), (1,)]
             if all(f.count(d) <= len(by_dim[d]) for d in (1, 2, 3))]
    pool = rng.sample(BASIS_KEYS, rng.choice([1, 1, 2, 3]))
    form = {k: rng.choice(forms) for k in pool}
    distinct = rng.random() < 0.15        # every measurement under a key of its own: the flat views and sample() exist
    unused = list(BASIS_KEYS)
    rng.shuffle(unused)
    sym = rng.random() < 0.3
    terminal = rng.random() < 0.6

    def shifts(p):
        m = []
        for i in range(len(dims)):
            if rng.random() < p:
                if dims[i] == 2 and sym and rng.random() < 0.5:
                    m.append(['S', i, 1, rng.choice(['t', 'u'])])
                else:
                    m.append(['S', i, rng.randrange(max(dims[i], 1)) if dims[i] != 2 else 1, None])
        return m

    def readout():
        free = {d: rng.sample(by_dim[d], len(by_dim[d])) for d in (1, 2, 3)}
        m, key0, same = [], rng.choice(pool), rng.random() < 0.5
        for _ in range(rng.choice([1, 1, 2, 2, 3])):
            key = key0 if same else rng.choice(pool)
            if distinct:
                if not unused:
                    break
                key = unused.pop()
                form.setdefault(key, rng.choice(forms))
            f = form[key]
            if any(f.count(d) > len(free[d]) for d in (1, 2, 3)):
                continue
            qs = [free[d].pop() for d in f]
            inv = [int(rng.random() < 0.5) for _ in f] if all(d == 2 for d in f) and rng.random() < 0.2 else [0] * len(f)
            m.append(['M', key, qs, inv])
        return m

    moments = [shifts(0.6)]
    if rng.random() < 0.3:
        moments.append(shifts(0.4))
    for j in range(rng.choice([1, 2, 2, 3, 4])):
        if j and not terminal:
            moments.append(shifts(0.5) or [['S', 0, 0 if dims[0] != 2 else 1, None]])
        moments.append(readout())
    if not any(op[0] == 'M' for m in moments for op in m):
        moments.append([['M', pool[0], [by_dim[d].pop() for d in form[pool[0]]], [0] * len(form[pool[0]])]])
    syms = sorted({op[3] for m in moments for op in m if op[0] == 'S' and op[3]})
    sweep = None
    if syms:
        sweep = [(s, [rng.choice([0, 1]) for _ in range(3)]) for s in syms]
    return kind, dict(dims=dims, moments=[m for m in moments if m]), sweep


def judge_basis_case(ctx, cirq, label, spec, kind, sweep, reps, rows=None):
    """One basis-state circuit through every run entry point of one simulator, judged by what the circuit's measurements
    read (reference walk), repetition by repetition and instance by instance, and through every view of the result."""
    import duet
    circuit = basis_circuit(cirq, spec)
    if sweep is None:
        sw, values = None, [{}]
    else:
        pairs = sweep if isinstance(sweep, list) else [sweep]
        npts = len(pairs[0][1])
        sw = cirq.Zip(*[cirq.Points(s, list(v)) for s, v in pairs])
        values = [{s: v[i] for s, v in pairs} for i in range(npts)]
    resolvers = list(cirq.to_resolvers(sw))
    sim = basis_sim(cirq, kind, ctx.rng.randrange(2 ** 31))
    name = basis_sim_name(kind)
    want = [spec_basis_records(spec, vals, reps) for vals in values]
    shape_of = {k: (len(v[0]), len(v[0][0])) for k, v in spec_basis_records(spec, values[0], 1).items()}      # (instances, qubits) of every key
    terminal = basis_is_terminal(spec)
    cs = str(circuit)
    rp = dict(kind='simrecords', label=label, spec=spec, sim=kind, sweep=sweep, repetitions=reps)
    ckey = [kind, spec['dims'], spec['moments'], sweep, reps]
    repeated = any(len(v[0]) >= 2 and any(r != v[0][0] for r in v[0]) for w in want for v in w.values() if v)
    ctx.count('simrecords:circuit', ckey, reps >= 2 and repeated,
              sample=dict(simulator=name, circuit=cs, repetitions=reps, terminal=terminal, reads={k: v[0] if v else [] for k, v in want[0].items()}))
    if terminal:
        ctx.count('simrecords:repeated-key-terminal', ckey, reps >= 2 and repeated)
    if 1 in spec['dims']:
        ctx.count('simrecords:dimension-1-qid', ckey, any(1 in [spec['dims'][i] for i in op[2]] and len(op[2]) >= 2 for m in spec['moments'] for op in m if op[0] == 'M'))
    pr0 = resolvers[0]
    entries = collections.OrderedDict()
    entries['run'] = lambda: ([sim.run(circuit, pr0, reps)], [0])
    entries['run_async'] = lambda: ([duet.run(sim.run_async, circuit, pr0, reps)], [0])
    entries['run_sweep'] = lambda: (list(sim.run_sweep(circuit, sw, reps)), list(range(len(resolvers))))
    entries['run_sweep_async'] = lambda: (list(duet.run(sim.run_sweep_async, circuit, sw, reps)), list(range(len(resolvers))))
    entries['run_sweep_iter'] = lambda: (list(sim.run_sweep_iter(circuit, sw, reps)), list(range(len(resolvers))))
    entries['run_batch'] = lambda: ((lambda b: list(b[0]) + list(b[1]))(sim.run_batch([circuit, circuit], [sw, pr0], reps)), list(range(len(resolvers))) + [0])
    entries['run_batch_async'] = lambda: ((lambda b: list(b[1]) + list(b[0]))(duet.run(sim.run_batch_async, [circuit, circuit], [pr0, sw], [reps, reps])),
                                          list(range(len(resolvers))) + [0])
    for how, call in entries.items():
        if how == 'run_sweep_iter' and not hasattr(sim, 'run_sweep_iter'):
            continue
        ctx.count('simrecords:' + how, ckey, reps >= 2 and repeated)
        try:
            results, which = call()
        except ValueError as e:
            ctx.violation('simulator:basis-records', f'{name}.{how}(repetitions={reps}) raised ValueError({str(e)[:120]!r}) for {label}:\n{cs}\n', dict(rp, entry=how))
            continue
        if len(results) != len(which):
            ctx.violation('simulator:basis-records', f'{name}.{how}(repetitions={reps}) returned {len(results)} results for {len(which)} sweep points for {label}:\n{cs}\n', dict(rp, entry=how))
            continue
        for res, wi in zip(results, which):
            exp = want[wi]
            got = collections.OrderedDict((str(k), np.asarray(v)) for k, v in res.records.items())
            why = None
            if set(got) != set(exp):
                why = f'keys {sorted(got)} for measured keys {sorted(exp)}'
            for k in exp:
                if why is None and (got[k].ndim != 3 or digits_of(got[k]) != exp[k] or got[k].shape != (reps,) + shape_of[k]):
                    inst = next(((r, j) for r in range(min(reps, got[k].shape[0])) for j in range(min(len(exp[k][r]), got[k].shape[1] if got[k].ndim == 3 else 0))
                                 if [int(x) for x in got[k][r, j]] != exp[k][r][j]), None)
                    why = (f'records[{k!r}] = {got[k].tolist()} (shape {got[k].shape})' +
                           (f'; repetition {inst[0]}, instance {inst[1]} of the key reads {exp[k][inst[0]][inst[1]]}' if inst else '') +
                           f'; the circuit reads {exp[k][0] if reps else []} in every one of the {reps} repetitions')
            if why is None and res.params != resolvers[wi]:
                why = f'params {res.params} for sweep point {resolvers[wi]}'
            if why is None and how == 'run_sweep':       # every other view of the result tells the same story as a result holding the digits read
                ref = cirq.ResultDict(params=resolvers[wi], records={k: np.array(v, dtype=np.uint8).reshape((reps,) + shape_of[k]) for k, v in exp.items()})
                va, vb = result_views(cirq, res), result_views(cirq, ref)
                diff = [v for v in va if v != 'str' and va[v] != vb.get(v)]
                if reps and all(a.shape[2] > 0 for a in got.values()) and not str_spells_records(str(res), collections.OrderedDict((k, np.asarray(ref.records[k])) for k in exp)):
                    diff.append('str')
                if diff:
                    why = f'views {diff} differ from those of the digits read: { {v: (va[v], vb.get(v)) for v in diff[:2]} }'
            if why is not None:
                ctx.violation('simulator:basis-records', f'{name}.{how}(repetitions={reps}), sweep point {dict(resolvers[wi].param_dict)}, {"all measurements terminal" if terminal else "general path"}: '
                              f'{why} for {label}:\n{cs}\n', dict(rp, entry=how, point=wi))
                break
        if rows is not None and how == 'run_sweep':
            for res, wi in zip(results, which):
                if any(np.asarray(v).ndim != 3 for v in res.records.values()):
                    continue
                rows.append((spec['dims'], basis_flat_ops(spec, values[wi]), reps, collections.OrderedDict((str(k), np.asarray(v)) for k, v in res.records.items())))
    # -- sample: the data frame (keys measured once only; a repeated key is refused)
    single = all(len(v[0]) == 1 for v in want[0].values()) if reps else None
    if reps:
        try:
            df = sim.sample(circuit, repetitions=reps, params=sw)
        except ValueError:
            df = None
        ctx.count('simrecords:sample', ckey, bool(single) and reps >= 2)
        if (df is None) != (not single):
            ctx.violation('simulator:basis-records', f'{name}.sample(repetitions={reps}) {"refused keys measured once" if df is None else "accepted a repeated key"} for {label}:\n{cs}\n', dict(rp, entry='sample'))
        elif df is not None:
            exp_rows = [[int(spec_int(w[k][r][0], [2] * len(w[k][r][0]))) for k in w] for w in want for r in range(reps)]
            got_rows = [[int(df[k].iloc[i]) for k in want[0]] for i in range(len(df))]
            if got_rows != exp_rows:
                ctx.violation('simulator:basis-records', f'{name}.sample(repetitions={reps}) has rows {got_rows} for keys {list(want[0])}, the circuit reads {exp_rows} '
                              f'(sweep point by sweep point, repetition by repetition) for {label}:\n{cs}\n', dict(rp, entry='sample'))


def simrecords_stream(ctx, cirq, n, shard=0):
    rng = ctx.rng
    kid = {k: i for i, k in enumerate(BASIS_KEYS)}
    rows, cases = [], []
    if shard == 0:
        for gi, (label, spec, sims, sweep) in enumerate(basis_grid()):
            for si, kind in enumerate(sims):
                cases.append((label, spec, kind, sweep, 2 if (gi + si) % 3 == 0 else 3))
            cases.append((label, spec, sims[gi % len(sims)], sweep, [1, 5, 0][gi % 3]))
    for _ in range(n):
        kind, spec, sweep = gen_basis_case(rng)
        cases.append(('generated circuit', spec, kind, sweep, rng.choice([0, 1, 2, 2, 3, 3, 5])))
    for label, spec, kind, sweep, reps in cases:
        judge_basis_case(ctx, cirq, label, spec, kind, sweep, reps, rows)
    # ---- the model (Codec/BasisRun.v) on the same circuits
    ZL = coq.zlist
    bl = lambda b: 'true' if b else 'false'
    op_lit = lambda o: (f'Shift {o[1]} {coq.zlit(o[2])}' if o[0] == 'S' else
                        f'Meas {kid[o[1]]} [' + '; '.join(f'({q}%nat, {bl(i)})' for q, i in zip(o[2], o[3])) + ']')
    text = ('From Coq Require Import ZArith List Bool.\nFrom VF Require Import Base.Harness Codec.ResultViews Codec.BasisRun.\n'
            'Import ListNotations.\nOpen Scope Z_scope.\n' + COQ_FOLDS)
    text += 'Definition c_basis : list (list Z * bcircuit * nat * result) := [\n' + ';\n'.join(
        f'({ZL(dims)}, [' + '; '.join(op_lit(o) for o in ops) + f'], {reps}%nat, {res_lit(recs, kid)})' for dims, ops, reps, recs in rows) + '].\n'
    text += ('Eval vm_compute in failing (fun c => match c with (dims, ops, reps, r) => res_eqb (basis_result reps dims ops) r '
             '&& (negb (terminal ops) || list_eqb (pair_eqb Z.eqb (list_eqb zll_eqb)) '
             '(map (fun k => (k, one_shot_records reps k (fun _ => final_state dims ops) ops)) (bfirst_keys ops [])) (map (fun kr => (fst kr, r_data (snd kr))) r)) end) c_basis.\n')
    vals = coq.parse_evals(coq.coq_eval(f'c18_simrecords_{ctx.seed}_{shard}', text))
    assert len(vals) == 1, vals
    for idx in coq.parse_nat_list(vals[0]):
        dims, ops, reps, recs = rows[idx]
        ctx.mark_broken('correspondence:simulator:basis-records', f'model and simulator differ on dims {dims}, operations {ops}, {reps} repetitions: '
                        f'records { {k: a.tolist() for k, a in recs.items()} }'[:1500])


# ------------------------------------------------------------------ sampler defaults
def sampler_stream(ctx, cirq, n):
    import duet, sympy
    rng = ctx.rng
    q0, q1, q2 = cirq.LineQubit.range(3)
    log = []

    def fake_results(program, params, repetitions):
        """Deterministic, distinguishable results: the measured bits encode (program tag, resolver index, repetition)."""
        out = []
        tag = int(program.tags[0]) if program.tags else 0
        for i, pr in enumerate(cirq.to_resolvers(params)):
            recs = {}
            for k, (_, inst, nq_) in spec_record_shapes(cirq, program, repetitions).items():
                shape = range(nq_)
                a = np.zeros((repetitions, inst, nq_), dtype=np.uint8)
                for r in range(repetitions):
                    for j in range(inst):
                        for b in range(len(shape)):
                            a[r, j, b] = ((tag * 7 + i * 3 + r * 5 + j + len(k)) >> b) & 1
                recs[k] = a
            out.append(cirq.ResultDict(params=pr, records=recs))
        return out

    class SyncFake(cirq.Sampler):
        def run_sweep(self, program, params, repetitions=1):
            log.append(('sweep', id(program), repetitions))
            return fake_results(program, params, repetitions)

    class AsyncFake(cirq.Sampler):
        async def run_sweep_async(self, program, params, repetitions=1):
            log.append(('sweep_async', id(program), repetitions))
            return fake_results(program, params, repetitions)

    t = sympy.Symbol('t')
    u = sympy.Symbol('u')

    def gen_circuit(tag):
        ops = [cirq.X(q0) ** t, cirq.measure(q0, q1, key='ab')]
        if rng.random() < 0.5:
            ops.append(cirq.measure(q2, key='c'))
        if rng.random() < 0.3:
            ops.append(cirq.Y(q1) ** u)
        return cirq.Circuit(ops, tags=[tag]) if hasattr(cirq.Circuit(), 'tags') else cirq.Circuit(ops)

    def gen_sweep():
        r = rng.random()
        if r < 0.3:
            return cirq.Points('t', [rng.choice([0, 0.5, 1]) for _ in range(rng.randint(1, 3))])
        if r < 0.5:
            return cirq.Linspace('t', 0, 1, rng.randint(1, 3))
        if r < 0.7:
            return cirq.Product(cirq.Points('t', [0, 1]), cirq.Points('u', [0.25, 0.75][:rng.randint(1, 2)]))
        if r < 0.85:
            return cirq.Zip(cirq.Points('t', [0, 1, 0.5]), cirq.Points('u', [1, 0.5]))
        return {'t': rng.choice([0.0, 1.0])}

    def tags(results):
        return [[(tuple(sorted((str(k), float(v)) for k, v in r.params.param_dict.items())), {k: a.tolist() for k, a in r.records.items()}) for r in rs] for rs in results]

    rows_batch = []
    for case in range(n):
        fake = rng.choice([SyncFake, AsyncFake])()
        circ = gen_circuit(case % 9 + 1)
        reps = rng.choice([0, 1, 2, 3, 5])
        # ---- run == run_sweep[0], sync and async
        pr = cirq.ParamResolver({'t': rng.choice([0, 0.5, 1]), 'u': 0.25})
        direct = fake_results(circ, pr, reps)[0]
        del log[:]
        got = [fake.run(circ, pr, reps), duet.run(fake.run_async, circ, pr, reps)]
        ok = all(g == direct for g in got) and len(log) == 2 and all(l[2] == reps for l in log)
        ctx.count('sampler:run', [type(fake).__name__, str(circ), reps, str(pr)], reps >= 1, sample=dict(sampler=type(fake).__name__, repetitions=reps, records={k: v.tolist() for k, v in direct.records.items()}))
        if not ok:
            ctx.violation('sampler:run', f'{type(fake).__name__}.run/run_async(reps={reps}) is not run_sweep(...)[0] (calls: {log})', dict(kind='sampler', entry='run'))
        # ---- run_sweep <-> run_sweep_async alternatives agree
        sw = gen_sweep()
        a = fake.run_sweep(circ, sw, reps)
        b = duet.run(fake.run_sweep_async, circ, sw, reps)
        exp = fake_results(circ, sw, reps)
        if not (list(a) == exp and list(b) == exp):
            ctx.violation('sampler:run_sweep', f'{type(fake).__name__}.run_sweep / run_sweep_async disagree with the implemented method', dict(kind='sampler', entry='run_sweep'))
        ctx.count('sampler:run_sweep', [type(fake).__name__, str(circ), repr(sw), reps], len(exp) >= 2)
        # ---- sample: rows sweep-major, then resolver, then repetition; parameter columns sorted; index = repetition
        nsw = rng.choice([1, 1, 2, 3])
        kind = rng.random()
        if kind < 0.6:
            sweeps = [cirq.Points('t', [rng.choice([0, 0.5, 1]) for _ in range(rng.randint(1, 3))]) for _ in range(nsw)]
        elif kind < 0.8:
            sweeps = [cirq.Zip(cirq.Points('u', [0.5, 0.25, 1][:rng.randint(1, 3)]), cirq.Points('t', [0, 1, 0.5])) for _ in range(nsw)]
        else:
            sweeps = [cirq.Product(cirq.Points('u', [0.5, 0.25]), cirq.Points('t', [0, 1][:rng.randint(1, 2)])) for _ in range(nsw)]
        arg = sweeps if len(sweeps) > 1 or rng.random() < 0.5 else sweeps[0]
        srep = rng.choice([1, 2, 3])
        df = fake.sample(circ, repetitions=srep, params=arg)
        keys = sorted(sweeps[0].keys)
        exp_rows, exp_index = [], []
        for s in sweeps:
            for pr_, res in zip(s, fake_results(circ, s, srep)):
                for r in range(srep):
                    exp_rows.append([float(pr_.value_of(k)) for k in keys] + [int(res.data[c][r]) for c in res.data.columns])
                    exp_index.append(r)
        cols = keys + list(fake_results(circ, sweeps[0], srep)[0].data.columns)
        got_rows = [[float(x) if c in keys else int(x) for c, x in zip(df.columns, row)] for row in df.itertuples(index=False)]
        ok = list(df.columns) == cols and got_rows == exp_rows and list(df.index) == exp_index
        ctx.count('sampler:sample', [type(fake).__name__, str(circ), repr(arg), srep], len(exp_rows) >= 4 and len({tuple(r) for r in exp_rows}) > 1,
                  sample=dict(sampler=type(fake).__name__, params=repr(arg), repetitions=srep, columns=list(map(str, df.columns)), rows=got_rows[:6]))
        if not ok:
            ctx.violation('sampler:sample', f'sample(params={arg!r}, repetitions={srep}) rows {got_rows} (index {list(df.index)}), expected sweep-major {exp_rows}',
                          dict(kind='sampler', entry='sample'))
        # ---- run_batch: order, shapes, broadcasting, errors
        npg = rng.choice([0, 1, 2, 3, 4])
        progs = [gen_circuit(10 + i) for i in range(npg)]
        pmode = rng.choice(['none', 'list', 'list', 'short', 'long'])
        rmode = rng.choice(['int', 'int', 'list', 'short', 'long'])
        plist = None if pmode == 'none' else [gen_sweep() for _ in range(max(0, npg + {'list': 0, 'short': -1, 'long': 1}[pmode]))]
        if pmode == 'short' and npg == 0:
            plist, pmode = [], 'list'
        rl = rng.choice([1, 2, 3]) if rmode == 'int' else [rng.choice([0, 1, 2, 3]) for _ in range(max(0, npg + {'list': 0, 'short': -1, 'long': 1}[rmode]))]
        if rmode == 'short' and npg == 0:
            rl, rmode = [], 'list'
        for entry, runner_ in (('run_batch', lambda: fake.run_batch(progs, plist, rl)),
                               ('run_batch_async', lambda: duet.run(fake.run_batch_async, progs, plist, rl))):
            try:
                got = runner_()
            except ValueError:
                got = None
            bad = pmode in ('short', 'long') or rmode in ('short', 'long')
            if bad:
                exp = None
            else:
                pp = [None] * npg if plist is None else plist
                rr = [rl] * npg if isinstance(rl, int) else rl
                exp = [fake_results(c, p, r) for c, p, r in zip(progs, pp, rr)]
            ok = (got is None) == (exp is None) and (got is None or (len(got) == npg and tags(got) == tags(exp)))
            ctx.count('sampler:' + entry, [type(fake).__name__, [str(c) for c in progs], repr(plist), repr(rl)], npg >= 2 and exp is not None,
                      sample=dict(sampler=type(fake).__name__, programs=npg, params_mode=pmode, repetitions=rl, shape=None if got is None else [len(g) for g in got]))
            if not ok:
                ctx.violation('sampler:run_batch', f'{entry}({npg} programs, params {pmode}, repetitions {rl}) returned {None if got is None else tags(got)}, expected {None if exp is None else tags(exp)}',
                              dict(kind='sampler', entry=entry))
        # the list-function model of _normalize_batch_args / run_batch over sweep identifiers
        plens = None if plist is None else [len(list(cirq.to_resolvers(p))) for p in plist]
        shape = None
        try:
            shape = [[(i, j, r.repetitions) for j, r in enumerate(rs)] for i, rs in enumerate(fake.run_batch(progs, plist, rl))]
        except ValueError:
            pass
        rows_batch.append((npg, plens, rl, shape))
        # ---- ZerosSampler: shapes of every entry point
        zs = cirq.ZerosSampler()
        zc = cirq.Circuit(cirq.measure(q0, q1, key='ab'), cirq.measure(q2, key='c'), cirq.measure(q0, q1, key='ab')) if rng.random() < 0.5 else circ
        zr = zs.run_sweep(zc, sw, reps)
        shapes = spec_record_shapes(cirq, zc, reps)
        ok = len(zr) == len(list(cirq.to_resolvers(sw))) and all(
            set(r.records) == set(shapes) and all(r.records[k].shape == shapes[k] and not r.records[k].any() for k in shapes)
            and r.params == p_ for r, p_ in zip(zr, cirq.to_resolvers(sw)))
        ok = ok and zs.run(zc, cirq.ParamResolver({'t': 0, 'u': 0}), reps) == zs.run_sweep(zc, cirq.ParamResolver({'t': 0, 'u': 0}), reps)[0]
        ctx.count('sampler:zeros', [str(zc), repr(sw), reps], reps >= 1)
        if not ok:
            ctx.violation('sampler:zeros', f'ZerosSampler.run_sweep(reps={reps}) has wrong shapes/parameters', dict(kind='sampler', entry='zeros'))
    # model: run_batch over an abstract run_sweep that returns (program index, resolver index, repetitions)
    text = ('From Coq Require Import ZArith List Bool.\nFrom VF Require Import Base.Harness Codec.ResultViews.\nImport ListNotations.\nOpen Scope nat_scope.\n'
            'Definition rs (c : nat) (p : nat) (r : nat) : list (nat * nat * nat) := map (fun j => (c, j, r)) (seq 0 p).\n'
            'Definition t_eqb (a b : nat * nat * nat) := Nat.eqb (fst (fst a)) (fst (fst b)) && Nat.eqb (snd (fst a)) (snd (fst b)) && Nat.eqb (snd a) (snd b).\n')
    nl = lambda xs: '[' + '; '.join(str(int(x)) for x in xs) + ']'
    def shape_lit(sh):
        return '[' + '; '.join('[' + '; '.join(f'({i}, {j}, {r})' for i, j, r in row) + ']' for row in sh) + ']'
    text += 'Definition c_batch : list (nat * option (list nat) * (nat + list nat) * option (list (list (nat * nat * nat)))) := [\n' + ';\n'.join(
        f'({npg}, {coq.opt(pl, nl)}, {("inl " + str(rl)) if isinstance(rl, int) else ("inr " + nl(rl))}, {coq.opt(sh, shape_lit)})'
        for npg, pl, rl, sh in rows_batch) + '].\n'
    text += ('Eval vm_compute in failing (fun c => match c with (n, pl, rl, sh) => '
             'opt_eqb (list_eqb (list_eqb t_eqb)) (run_batch rs 1 (seq 0 n) pl rl) sh end) c_batch.\n')
    vals = coq.parse_evals(coq.coq_eval(f'c18_sampler_{ctx.seed}', text))
    for idx in coq.parse_nat_list(vals[0]):
        ctx.mark_broken('correspondence:sampler:run_batch', f'model and implementation differ on {rows_batch[idx]}')


# ------------------------------------------------------------------ ProcessorSampler: run_batch cut into API calls (jobs_per_batch)
def program_mark(cirq, program):
    """The number a program of this stream carries in its own content: the pattern of its X gates."""
    return sum(1 << op.qubits[0].x for op in program.all_operations() if op.gate == cirq.X)


def marked_results(cirq, program, params, repetitions):
    """What the model processor measures for ONE program: one result per sweep point, carrying that point; the bits encode
    (mark of the program, index of the sweep point, repetition, instance), so results of different programs differ."""
    mark = program_mark(cirq, program)
    out = []
    for i, pr in enumerate(cirq.to_resolvers(params)):
        recs = {}
        for k, (_, inst, nq_) in spec_record_shapes(cirq, program, repetitions).items():
            a = np.zeros((repetitions, inst, nq_), dtype=np.uint8)
            for r in range(repetitions):
                for j in range(inst):
                    for b in range(nq_):
                        a[r, j, b] = ((mark * 7 + i * 3 + r * 5 + j + len(k)) >> b) & 1
            recs[k] = a
        out.append(cirq.ResultDict(params=pr, records=recs))
    return out


def batch_grid(cirq, sweeps):
    """(marks, sweep indices or None, repetitions) of the batches every run judges: equal settings next to each other, apart
    (separated by a program with other repetitions / another sweep), alternating, all equal, all different."""
    out = []
    for reps in ([2, 3, 2], [2, 2, 3], [3, 2, 2], [1, 2, 1, 2], [2, 2, 2, 2, 2], [3, 1, 1, 3], [1, 2, 3], [2, 1, 2, 2, 1, 2]):
        out.append((list(range(1, len(reps) + 1)), None, reps))
    for sw in ([1, 2, 1], [1, 2, 1, 2], [1, 1, 2, 1], [1, 3, 1], [0, 1, 0, 1, 0], [2, 2, 2, 2], [1, 4, 4, 1]):
        out.append((list(range(3, len(sw) + 3)), sw, 2))
    out.append(([5, 6, 7, 8], [1, 1, 2, 1], [1, 2, 1, 1]))
    out.append(([9, 3, 9, 3], [1, 2, 1, 2], [1, 1, 1, 1]))     # the same program twice, with different sweeps
    return out


def procsampler_stream(ctx, cirq, cg, n, only=None, shard=0):
    import duet, sympy
    from collections.abc import Mapping
    rng = ctx.rng
    qs = cirq.LineQubit.range(5)
    t = sympy.Symbol('t')
    # sweeps: index 1 and 5 are equal objects built twice, 1 and 3 have the same points but are different sweeps
    mk_sweeps = lambda: [None, cirq.Points('t', [0, 1]), cirq.Points('t', [1]), cirq.Linspace('t', 0, 1, 2),
                         cirq.Product(cirq.Points('t', [0, 1]), cirq.Points('u', [0.25, 0.5, 0.75])), cirq.Points('t', [0, 1]), {'t': 1.0}]
    pool = mk_sweeps()

    def sweep_id(sw):
        for j, other in enumerate(pool):
            try:
                if bool(other == sw):
                    return j
            except Exception:
                pass
        raise AssertionError(sw)

    def program(mark, two_keys=False):
        ops = [cirq.X(q) for q in qs if (mark >> q.x) & 1] + [cirq.Z(qs[0]) ** t, cirq.measure(*qs, key='m')]
        if two_keys:
            ops.append(cirq.measure(qs[1], qs[3], key='ab'))
        return cirq.Circuit(ops)

    class FakeJob:
        def __init__(self, results):
            self._results = results

        async def results_async(self):
            return self._results

    class FakeProcessor:
        """Measures every program it is handed; results grouped by program, then by sweep point (like the engine)."""
        def __init__(self):
            self.calls = []

        async def run_sweep_async(self, program, params, repetitions, **kwargs):
            if isinstance(program, Mapping):
                programs = list(program.values())
            elif isinstance(program, cirq.AbstractCircuit):
                programs = [program]
            else:
                programs = list(program)
            self.calls.append((programs, params, repetitions))
            out = []
            for p_ in programs:
                out.extend(marked_results(cirq, p_, params, repetitions))
            return FakeJob(out)

    def show(results):
        return [[(dict(r.params.param_dict), {k: a.tolist() for k, a in r.records.items()}) for r in rs] for rs in results]

    cases = []
    for jpb in (1, 2, 3, 4) if shard == 0 else ():
        for marks, sw, reps in batch_grid(cirq, pool):
            for as_map in (False, True):
                cases.append(('grid', jpb, marks, sw, reps, as_map, False))
    for _ in range(n):
        npg = rng.choice([0, 1, 2, 3, 4, 5, 6])
        marks = [rng.randrange(32) for _ in range(npg)]
        pmode = rng.choice(['none', 'list', 'list', 'list', 'short', 'long'] if rng.random() < 0.3 else ['none', 'list', 'list'])
        rmode = rng.choice(['int', 'list', 'list', 'short', 'long'] if rng.random() < 0.3 else ['int', 'list', 'list'])
        few = rng.sample(range(len(pool)), rng.choice([1, 2, 2, 3]))      # few distinct settings, so that equal ones recur
        sw = None if pmode == 'none' else [rng.choice(few) for _ in range(max(0, npg + {'list': 0, 'short': -1, 'long': 1}[pmode]))]
        rfew = rng.sample([0, 1, 2, 3], rng.choice([1, 2, 2]))
        reps = rng.choice([1, 2, 3]) if rmode == 'int' else [rng.choice(rfew) for _ in range(max(0, npg + {'list': 0, 'short': -1, 'long': 1}[rmode]))]
        cases.append(('random', rng.choice([1, 2, 2, 3, 3, 4, 7]), marks, sw, reps, rng.random() < 0.3, rng.random() < 0.3))
    if only is not None:
        cases = [only]
    rows = []
    for origin, jpb, marks, sw, reps, as_map, two_keys in cases:
        npg = len(marks)
        progs = [program(m, two_keys) for m in marks]
        fresh = mk_sweeps()                    # equal sweeps of one batch are separate objects
        plist = None if sw is None else [fresh[j] if i % 2 else pool[j] for i, j in enumerate(sw)]
        arg = {f'p{i}': c for i, c in enumerate(progs)} if as_map else progs
        bad = (plist is not None and len(plist) != npg) or (not isinstance(reps, int) and len(reps) != npg)
        if bad:
            exp = pp = rr = None
        else:
            pp = [None] * npg if plist is None else plist
            rr = [reps] * npg if isinstance(reps, int) else reps
            exp = [marked_results(cirq, c, p_, r) for c, p_, r in zip(progs, pp, rr)]
        label = lambda entry_: (f'ProcessorSampler(jobs_per_batch={jpb}).{entry_}({"mapping of " if as_map else ""}{npg} programs with X patterns {marks}, '
                                f'params_list={None if sw is None else [repr(p_) for p_ in plist]}, repetitions={reps})')
        for entry in ('run_batch', 'run_batch_async'):
            proc = FakeProcessor()
            sampler = cg.ProcessorSampler(processor=proc, jobs_per_batch=jpb)
            try:
                got = sampler.run_batch(arg, plist, reps) if entry == 'run_batch' else duet.run(sampler.run_batch_async, arg, plist, reps)
                got = [list(g) for g in got]
            except ValueError:
                got = None
            settings = sorted({(sweep_id(p_), r) for p_, r in zip(pp, rr)}) if exp is not None else []
            apart = exp is not None and any(
                (sweep_id(pp[i]), rr[i]) == (sweep_id(pp[k]), rr[k]) and any((sweep_id(pp[m]), rr[m]) != (sweep_id(pp[i]), rr[i]) for m in range(i + 1, k))
                for i in range(npg) for k in range(i + 2, npg))
            ctx.count('sampler:processor:' + entry, [jpb, marks, sw, reps, as_map, two_keys], exp is not None and npg >= 2 and jpb >= 2 and len(settings) >= 2,
                      sample=dict(jobs_per_batch=jpb, programs=marks, sweeps=sw, repetitions=reps, mapping=as_map,
                                  api_calls=[([program_mark(cirq, p_) for p_ in c[0]], c[2]) for c in proc.calls], shape=None if got is None else [len(g) for g in got]))
            if apart and jpb >= 2:
                ctx.count('sampler:processor:equal_settings_apart', [jpb, marks, sw, reps, as_map, two_keys, entry], True)
            rp = dict(kind='procsampler', jobs_per_batch=jpb, marks=marks, sweeps=sw, repetitions=reps, mapping=as_map, two_keys=two_keys, entry=entry)
            if (got is None) != (exp is None):
                ctx.violation('sampler:processor:run_batch', label(entry) + (' raised ValueError' if got is None else ' did not refuse lists of the wrong length'), rp)
                continue
            if got is None:
                continue
            # by meaning: position i holds the results of programs[i] - its own repetitions, its own sweep points in order, its own bits
            why = None
            if len(got) != npg:
                why = f'{len(got)} result lists for {npg} programs'
            for i in range(min(len(got), npg)):
                if why is None and len(got[i]) != len(exp[i]):
                    why = f'results[{i}] has {len(got[i])} entries, sweep {i} has {len(exp[i])} points'
                for j in range(min(len(got[i]), len(exp[i]))):
                    if why is None and got[i][j] != exp[i][j]:
                        g, e = got[i][j], exp[i][j]
                        why = (f'results[{i}][{j}] has params {dict(g.params.param_dict)}, {g.repetitions} repetitions, records { {k: a.tolist() for k, a in g.records.items()} }; '
                               f'program {i} (X pattern {marks[i]}) at point {dict(e.params.param_dict)} x{rr[i]} measures { {k: a.tolist() for k, a in e.records.items()} }')
            # every program is run exactly once, with its own settings, at most jobs_per_batch programs per API call
            ran = sorted((program_mark(cirq, c), sweep_id(p_), r) for cs, p_, r in proc.calls for c in cs)
            if why is None and ran != sorted(zip(marks, map(sweep_id, pp), rr)):
                why = f'the processor was asked to run (program, sweep, repetitions) {ran}'
            if why is None and any(len(cs) > max(1, jpb) or not cs for cs, _, _ in proc.calls):
                why = f'API calls with {[len(cs) for cs, _, _ in proc.calls]} programs'
            if why is not None:
                ctx.violation('sampler:processor:run_batch', label(entry) + ' does not return the results of programs[i] at position i: ' + why, rp)
            # for the model: every result named by the (program, sweep point) whose expected result it is
            def name(i, j, g):
                if i < npg and j < len(exp[i]) and exp[i][j] == g:
                    return (i, j, int(g.repetitions))
                for i2 in range(npg):
                    for j2 in range(len(exp[i2])):
                        if exp[i2][j2] == g:
                            return (i2, j2, int(g.repetitions))
                return (99, 99, int(g.repetitions))
            named = [[name(i, j, g) for j, g in enumerate(gs)] for i, gs in enumerate(got)]
            def position(c):
                at = [i for i, c_ in enumerate(progs) if c_ is c] or [i for i, m in enumerate(marks) if m == program_mark(cirq, c)]
                return at[0] if len(at) == 1 else -1
            rows.append((jpb, npg, None if plist is None else [(sweep_id(p_), len(list(cirq.to_resolvers(p_)))) for p_ in plist], reps, named,
                         [([position(c) for c in cs], sweep_id(p_), r) for cs, p_, r in proc.calls], marks))
        # the other entry points of the same sampler: run_sweep / run / sample are the processor's answer for that program
        if exp is not None and npg >= 1 and origin == 'random':
            proc = FakeProcessor()
            sampler = cg.ProcessorSampler(processor=proc, jobs_per_batch=jpb)
            c0, p0, r0 = progs[0], pp[0], rr[0]
            e0 = marked_results(cirq, c0, p0, r0)
            ok = list(sampler.run_sweep(c0, p0, r0)) == e0 and list(duet.run(sampler.run_sweep_async, c0, p0, r0)) == e0
            pr = cirq.ParamResolver({'t': 1, 'u': 0.5})
            ok = ok and sampler.run(c0, pr, r0) == marked_results(cirq, c0, pr, r0)[0]
            ctx.count('sampler:processor:run_sweep', [jpb, marks[0], sweep_id(p0), r0, two_keys], r0 >= 1)
            if not ok:
                ctx.violation('sampler:processor:run_sweep', f'ProcessorSampler(jobs_per_batch={jpb}).run_sweep/run_sweep_async/run(program with X pattern {marks[0]}, {p0!r}, '
                              f'{r0}) is not the answer of the processor for that program', dict(rp, entry='run_sweep'))
    # ---- the model: how the batch is cut into API calls, and which result lands where
    nl = lambda xs: '[' + '; '.join(str(int(x)) for x in xs) + ']'
    pl = lambda xs: '[' + '; '.join(f'({a}, {b})' for a, b in xs) + ']'
    sh = lambda rows_: '[' + '; '.join('[' + '; '.join(f'({i}, {j}, {r})' for i, j, r in row) + ']' for row in rows_) + ']'
    cl = lambda calls: '[' + '; '.join(f'({nl(ms)}, {sid}, {r})' for ms, sid, r in calls) + ']'
    text = ('From Coq Require Import ZArith List Bool Arith.\nFrom VF Require Import Base.Harness Codec.ResultViews Codec.BatchedSampler.\nImport ListNotations.\nOpen Scope nat_scope.\n'
            '(* a sweep is (identity under ==, number of points); a result is (program index, point index, repetitions) *)\n'
            'Definition sw_eqb (a b : nat * nat) := Nat.eqb (fst a) (fst b) && Nat.eqb (snd a) (snd b).\n'
            'Definition rs (c : nat) (p : nat * nat) (r : nat) : list (nat * nat * nat) := map (fun j => (c, j, r)) (seq 0 (snd p)).\n'
            'Definition t_eqb (a b : nat * nat * nat) := Nat.eqb (fst (fst a)) (fst (fst b)) && Nat.eqb (snd (fst a)) (snd (fst b)) && Nat.eqb (snd a) (snd b).\n'
            'Definition call_eqb (a b : list nat * nat * nat) := list_eqb Nat.eqb (fst (fst a)) (fst (fst b)) && Nat.eqb (snd (fst a)) (snd (fst b)) && Nat.eqb (snd a) (snd b).\n'
            'Definition calls_of (jpb n : nat) (pl : option (list (nat * nat))) (rl : nat + list nat) : list (list nat * nat * nat) :=\n'
            '  match normalize_batch_args n (0, 1) pl rl with\n'
            '  | Some (ps, rs_) => map (fun j : job => (fst (fst j), fst (snd (fst j)), snd j))\n'
            '                        (if 1 <? jpb then batches sw_eqb jpb (combine (combine (seq 0 n) ps) rs_)\n'
            '                         else map (fun cpr => ([fst (fst cpr)], snd (fst cpr), snd cpr)) (combine (combine (seq 0 n) ps) rs_))\n'
            '  | None => [] end.\n')
    usable = [rw for rw in rows if all(i >= 0 for ms, _, _ in rw[5] for i in ms)]
    text += 'Definition c_pbatch : list (nat * nat * option (list (nat * nat)) * (nat + list nat) * list (list (nat * nat * nat)) * list (list nat * nat * nat)) := [\n' + ';\n'.join(
        f'({jpb}, {npg}, {coq.opt(plens, pl)}, {("inl " + str(rl)) if isinstance(rl, int) else ("inr " + nl(rl))}, {sh(named)}, {cl(calls)})'
        for jpb, npg, plens, rl, named, calls, _ in usable) + '].\n'
    text += ('Eval vm_compute in failing (fun c => match c with (jpb, n, pl, rl, out, calls) => '
             'opt_eqb (list_eqb (list_eqb t_eqb)) (run_batch_jobs sw_eqb rs jpb (0, 1) (seq 0 n) pl rl) (Some out) end) c_pbatch.\n')
    text += ('Eval vm_compute in failing (fun c => match c with (jpb, n, pl, rl, out, calls) => '
             'list_eqb call_eqb (calls_of jpb n pl rl) calls end) c_pbatch.\n')
    vals = coq.parse_evals(coq.coq_eval(f'c18_procsampler_{ctx.seed}_{shard}', text))
    assert len(vals) == 2, vals
    for what, val in zip(('results', 'api-calls'), vals):
        for idx in coq.parse_nat_list(val):
            jpb, npg, plens, rl, named, calls, marks = usable[idx]
            ctx.mark_broken('correspondence:sampler:processor:' + what,
                            f'model and ProcessorSampler(jobs_per_batch={jpb}).run_batch differ on programs {marks}, sweeps (id, points) {plens}, repetitions {rl}: '
                            f'results (program, point, repetitions) {named}, API calls (programs, sweep id, repetitions) {calls}')


def replay(ctx, data):
    cirq = env.import_cirq()
    k = data.get('kind')
    if k in ('int_to_digits', 'digits_roundtrip'):
        out = _impl_int_to_digits(cirq, data['val'], None, data['bases'])
        print('int_to_digits ->', out)
        return out == data.get('expected', out) and (out is None or _impl_digits_to_int(cirq, out, data['bases']) == data['val'])
    if k == 'digits_to_int':
        out = _impl_digits_to_int(cirq, data['digits'], data['bases'])
        print('digits_to_int ->', out)
        return out == data['expected']
    if k == 'numpy_digits':
        got = _impl_digits_to_int(cirq, np.array(data['digits'], dtype=data['dtype']), data['bases'])
        print('digits_to_int ->', got, 'expected', data['expected'])
        return got == data['expected']
    if k == 'bits':
        ib = int(cirq.big_endian_bits_to_int(data['bits']))
        bo = [int(x) for x in cirq.big_endian_int_to_bits(data['val'], bit_count=data['bit_count'])]
        e1 = int(''.join('1' if b else '0' for b in data['bits']) or '0', 2)
        e2 = [(data['val'] >> i) & 1 for i in reversed(range(data['bit_count']))]
        return ib == e1 and bo == e2
    if k == 'views':
        recs = collections.OrderedDict((kk, np.array(v['digits'], dtype=v['dtype']).reshape(v['shape'])) for kk, v in data['records'].items())
        mk = lambda: cirq.ResultDict(params=cirq.ParamResolver({'p': 0.25}), records={kk: a.copy() for kk, a in recs.items()})
        sm = spec_measurements(recs)
        meas = _try(lambda: {kk: v.tolist() for kk, v in mk().measurements.items()})
        ok = meas == sm
        print('measurements', meas, 'expected', sm)
        if sm is not None:
            df = mk().data
            for kk, rows in sm.items():
                exp = [sum(int(d) << (len(row) - 1 - i) for i, d in enumerate(row)) for row in rows]
                print('data', kk, [int(x) for x in df[kk]], 'expected', exp)
                ok = ok and [int(x) for x in df[kk]] == exp
            if 'key' in data and data['key'] in sm:
                h = mk().histogram(key=data['key'], fold_func=FOLDS['id'])
                ok = ok and dict(h) == dict(collections.Counter(FOLDS['id'](row) for row in sm[data['key']]))
            if 'keys' in data and all(kk in sm for kk in data['keys']):
                f = MFOLDS.get(data.get('fold'), lambda rows: tuple(spec_int([1 if d else 0 for d in row]) for row in rows))
                kw = dict(fold_func=MFOLDS[data['fold']]) if data.get('fold') in MFOLDS else {}
                h = mk().multi_measurement_histogram(keys=data['keys'], **kw)
                reps = next(iter(recs.values())).shape[0] if recs else 0
                exp = collections.Counter(f(tuple(sm[kk][r] for kk in data['keys'])) for r in range(reps))
                print('multi', dict(h), 'expected', dict(exp))
                ok = ok and dict(h) == dict(exp)
        if 'other' in data:
            recs2 = {kk: np.array(v['digits'], dtype=v['dtype']).reshape(v['shape']) for kk, v in data['other'].items()}
            r2 = cirq.ResultDict(params=cirq.ParamResolver({'p': 0.25}), records=recs2)
            tot = _try(lambda: mk() + r2)
            same = set(recs) == set(recs2) and all(recs[kk].shape[1:] == recs2[kk].shape[1:] for kk in recs)
            why = None if tot is None or not same else spec_add_failure(cirq, recs, recs2, tot)
            print('r1 + r2:', 'raised' if tot is None else why or 'the digits of r1 followed by those of r2')
            ok = ok and same == (tot is not None) and why is None
        back = cirq.read_json(json_text=cirq.to_json(mk()))
        ok = ok and back == mk() and all(back.records[kk].shape == recs[kk].shape for kk in recs)
        return ok
    if k == 'large':
        case = data['case']
        case['keys'] = collections.OrderedDict(case['keys'])
        case['calls'] = [tuple(c) for c in case['calls']]
        case['multi'] = [tuple(m) for m in case['multi']]
        sub = runner.Ctx('C18', 'quick', data.get('seed', 0), LEVEL)
        large_python(sub, cirq, case)
        for v in sub.violations:
            print(v['what'][:500])
        return not sub.violations
    if k == 'shapes':
        sub = runner.Ctx('C18', 'quick', data.get('seed', 0), LEVEL)
        judge_shapes_case(sub, cirq, data.get('label', 'replayed circuit'), cirq.read_json(json_text=data['circuit']),
                          None if data.get('sweep') is None else cirq.read_json(json_text=data['sweep']), data['repetitions'])
        for v in sub.violations:
            print(v['what'][:700])
        return not sub.violations and not sub.known_hits
    if k == 'simrecords':
        sub = runner.Ctx('C18', 'quick', data.get('seed', 0), LEVEL)
        sw = data.get('sweep')
        if sw is not None:
            sw = [tuple(x) for x in sw] if isinstance(sw[0], (list, tuple)) else tuple(sw)
        judge_basis_case(sub, cirq, data.get('label', 'replayed circuit'), data['spec'], data['sim'], sw, data['repetitions'])
        for v in sub.violations:
            print(v['what'][:900])
        return not sub.violations and not sub.known_hits
    if k == 'procsampler':
        sub = runner.Ctx('C18', 'quick', data.get('seed', 0), LEVEL)
        cg = env.import_cirq(vendors=('cirq_google',))['cirq_google']
        procsampler_stream(sub, cirq, cg, 0, only=('replay', data['jobs_per_batch'], data['marks'], data['sweeps'], data['repetitions'], data['mapping'], data['two_keys']))
        for v in sub.violations:
            print(v['what'][:700])
        return not sub.violations and not sub.broken
    if k == 'sampler':
        sub = runner.Ctx('C18', 'quick', data.get('seed', 0), LEVEL)
        sampler_stream(sub, cirq, 60)
        for v in sub.violations:
            print(v['what'][:500])
        return not sub.violations
    print('nothing to replay for kind', k)
    return False
