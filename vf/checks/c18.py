"""C18 — all views of measurement results tell the same story (DESIGN 5/C18)."""
from .. import env, coq, runner

LEVEL = 'proof'
META = dict(
    text='Coq theorems (unbounded, over Z) that the digit/bit/integer conversions are mutual inverses and that every view of a result record is the stated function of the records; the Gallina model is hand-written in the shape of the code and a correspondence run evaluates it with vm_compute on the same inputs as the implementation on every run.',
    note='Trusted: Coq kernel; the Python adapters in vf/checks/c18.py (calling Cirq, printing Z literals); numpy/pandas are modelled as list functions, not verified. Theorems are closed under the global context (no axioms).',
    technique='Rocq/Coq proof over an executable Gallina model + vm_compute correspondence against the implementation',
)


def _impl_int_to_digits(cirq, v, digit_count, base):
    try:
        kw = {}
        if digit_count is not None:
            kw['digit_count'] = digit_count
        return list(cirq.big_endian_int_to_digits(v, base=base, **kw))
    except ValueError:
        return None


def _impl_digits_to_int(cirq, ds, base):
    try:
        return int(cirq.big_endian_digits_to_int(ds, base=base))
    except ValueError:
        return None


def gen_digit_cases(ctx, n):
    rng = ctx.rng
    cases = []
    for i in range(n):
        k = rng.choice([0, 1, 2, 3, 5, 8, 20, 70]) if rng.random() < 0.5 else rng.randint(0, 12)
        mode = rng.random()
        if mode < 0.35:
            bs = [2] * k
        elif mode < 0.5:
            b = rng.choice([3, 4, 10, 16, 1])
            bs = [b] * k
        else:
            bs = [rng.choice([1, 2, 2, 3, 4, 5, 7, 10]) for _ in range(k)]
        prod = 1
        for b in bs:
            prod *= b
        r = rng.random()
        if r < 0.7:
            v = rng.randrange(prod) if prod > 0 else 0
        elif r < 0.8:
            v = prod + rng.randint(0, 3)          # just out of range
        elif r < 0.9:
            v = max(prod - 1, 0)
        else:
            v = rng.choice([0, 1, prod])
        cases.append((v, bs))
    return cases


def run(ctx):
    cirq = env.import_cirq()
    ctx.rule = ('digits: random mixed-radix bases (0..70 digits, integers beyond 64 bits) with in-range, boundary and '
                'out-of-range values, int and per-digit base forms, binary fast path; non-trivial = >=2 digits and value>1; '
                'distinct by canonical input')
    ctx.assumptions += ['vf/checks/c18.py adapters calling Cirq and canonicalising outputs',
                        'Python int <-> Coq Z literal printing']
    ctx.set_obligations(coq.compile_props('C18'))
    n = 400 if ctx.tier == 'quick' else 4000
    digits_stream(ctx, cirq, n)


def digits_stream(ctx, cirq, n):
    cases = gen_digit_cases(ctx, n)
    rows_i2d, rows_d2i, rows_bits = [], [], []
    for (v, bs) in cases:
        k = len(bs)
        uniform = k > 0 and all(b == bs[0] for b in bs)
        # call forms: per-digit list; int base with digit_count when uniform
        forms = [('list', None, list(bs))]
        if uniform:
            forms.append(('int', k, bs[0]))
        for form, dc, base in forms:
            out = _impl_int_to_digits(cirq, v, dc, base)
            is2 = (form == 'int' and base == 2)
            dcn = dc if dc is not None else 0
            rows_i2d.append((v, dcn, is2, bs, out))
            nontriv = k >= 2 and v > 1
            ctx.count('int_to_digits', (v, bs, form), nontriv, sample=dict(val=v, base=base, digit_count=dc, out=out))
            # property-level oracle on the real code: round trip
            if out is not None:
                back = _impl_digits_to_int(cirq, out, base if form == 'int' else bs)
                if back != v or len(out) != k or any(not (0 <= d < b) for d, b in zip(out, bs)):
                    ctx.violation('digits:int->digits->int', f'int_to_digits({v}, base={base}) = {out} does not convert back',
                                  dict(kind='digits_roundtrip', val=v, bases=bs, form=form))
            elif 0 <= v and all(b > 0 for b in bs):
                prod = 1
                for b in bs:
                    prod *= b
                if v < prod:
                    ctx.violation('digits:in-range-rejected', f'int_to_digits({v}, base={base}) raised for an in-range value',
                                  dict(kind='digits_roundtrip', val=v, bases=bs, form=form))
        # digits -> int on the digits of v when in range, plus a perturbed digit
        ds = _impl_int_to_digits(cirq, v, None, list(bs))
        if ds is None:
            ds = [ctx.rng.randint(0, max(b, 1)) for b in bs]
        elif ds and ctx.rng.random() < 0.15:
            j = ctx.rng.randrange(len(ds))
            ds = list(ds)
            ds[j] = bs[j] if ctx.rng.random() < 0.5 else -1
        out = _impl_digits_to_int(cirq, ds, list(bs))
        rows_d2i.append((ds, bs, out))
        ctx.count('digits_to_int', (ds, bs), len(bs) >= 2, sample=dict(digits=ds, base=bs, out=out))
        if ctx.rng.random() < 0.2:   # length mismatch must raise
            out2 = _impl_digits_to_int(cirq, ds + [0], list(bs))
            rows_d2i.append((ds + [0], bs, out2))
            ctx.count('digits_to_int', (ds + [0], bs), False)
        # bits
        nb = ctx.rng.choice([0, 1, 3, 8, 64, 70])
        bits = [ctx.rng.random() < 0.5 for _ in range(nb)]
        ib = int(cirq.big_endian_bits_to_int(bits))
        sv = ctx.rng.choice([v, -v - 1, ib])
        bo = [int(x) for x in cirq.big_endian_int_to_bits(sv, bit_count=nb)]
        rows_bits.append((bits, ib, sv, nb, bo))
        ctx.count('bits', (bits, sv), nb >= 2, sample=dict(bits=[int(b) for b in bits], to_int=ib, val=sv, bit_count=nb, to_bits=bo))
    Z, ZL, O = coq.zlit, coq.zlist, coq.opt
    text = 'From Coq Require Import ZArith List Bool.\nFrom VF Require Import Base.Digits Base.Harness.\nImport ListNotations.\nOpen Scope Z_scope.\n'
    text += 'Definition i2d : list (Z * nat * bool * list Z * option (list Z)) := [\n' + ';\n'.join(
        f'({Z(v)}, {dc}%nat, {"true" if is2 else "false"}, {ZL(bs)}, {O(out, ZL)})' for v, dc, is2, bs, out in rows_i2d) + '].\n'
    text += ("Eval vm_compute in failing (fun c => match c with (v, dc, is2, bs, out) => "
             "opt_eqb zl_eqb (int_to_digits_code v dc is2 bs) out end) i2d.\n")
    text += 'Definition d2i : list (list Z * list Z * option Z) := [\n' + ';\n'.join(
        f'({ZL(ds)}, {ZL(bs)}, {O(out, Z)})' for ds, bs, out in rows_d2i) + '].\n'
    text += "Eval vm_compute in failing (fun c => match c with (ds, bs, out) => opt_eqb Z.eqb (digits_to_int ds bs) out end) d2i.\n"
    text += 'Definition bts : list (list bool * Z * Z * nat * list Z) := [\n' + ';\n'.join(
        f'({coq.blist(bits)}, {Z(ib)}, {Z(sv)}, {nb}%nat, {ZL(bo)})' for bits, ib, sv, nb, bo in rows_bits) + '].\n'
    text += ("Eval vm_compute in failing (fun c => match c with (bits, ib, sv, nb, bo) => "
             "Z.eqb (bits_to_int bits) ib && zl_eqb (int_to_bits sv nb) bo end) bts.\n")
    vals = coq.parse_evals(coq.coq_eval(f'c18_digits_{ctx.seed}', text))
    assert len(vals) == 3, vals
    for name, rows, val in zip(['int_to_digits', 'digits_to_int', 'bits'], [rows_i2d, rows_d2i, rows_bits], vals):
        for idx in coq.parse_nat_list(val):
            row = rows[idx]
            ctx.mark_broken(f'correspondence:{name}', f'model and implementation differ on {row}')
            spec_search_digits(ctx, cirq, name, row)


def spec_search_digits(ctx, cirq, name, row):
    """A disagreement with the model: decide on the real code whether the property's own statement fails."""
    if name == 'int_to_digits':
        v, dc, is2, bs, out = row
        prod = 1
        for b in bs:
            prod *= b
        expect = None
        if 0 <= v < prod or (v == 0 and prod >= 1):
            expect, x = [], v
            for b in reversed(bs):
                expect.append(x % b)
                x //= b
            expect.reverse()
        if out != expect:
            ctx.violation(f'digits:int_to_digits', f'int_to_digits({v}, bases={bs}) gave {out}, positional notation gives {expect}',
                          dict(kind='int_to_digits', val=v, bases=bs, digit_count=dc, base_is_two=is2, got=out, expected=expect))
    elif name == 'digits_to_int':
        ds, bs, out = row
        expect = None
        if len(ds) == len(bs) and all(0 <= d < b for d, b in zip(ds, bs)):
            expect = 0
            for d, b in zip(ds, bs):
                expect = expect * b + d
        if out != expect:
            ctx.violation('digits:digits_to_int', f'digits_to_int({ds}, {bs}) gave {out}, positional notation gives {expect}',
                          dict(kind='digits_to_int', digits=ds, bases=bs, got=out, expected=expect))
    else:
        bits, ib, sv, nb, bo = row
        e1 = int(''.join('1' if b else '0' for b in bits) or '0', 2)
        e2 = [(sv >> i) & 1 for i in reversed(range(nb))]
        if ib != e1 or bo != e2:
            ctx.violation('digits:bits', f'bits_to_int({bits})={ib} (expected {e1}); int_to_bits({sv},{nb})={bo} (expected {e2})',
                          dict(kind='bits', bits=bits, val=sv, bit_count=nb))


def replay(ctx, data):
    cirq = env.import_cirq()
    k = data.get('kind')
    if k in ('int_to_digits', 'digits_roundtrip'):
        out = _impl_int_to_digits(cirq, data['val'], None, data['bases'])
        print('int_to_digits ->', out)
        return out == data.get('expected', out) and (out is None or _impl_digits_to_int(cirq, out, data['bases']) == data['val'])
    if k == 'digits_to_int':
        out = _impl_digits_to_int(cirq, data['digits'], data['bases'])
        print('digits_to_int ->', out)
        return out == data['expected']
    if k == 'bits':
        ib = int(cirq.big_endian_bits_to_int(data['bits']))
        bo = [int(x) for x in cirq.big_endian_int_to_bits(data['val'], bit_count=data['bit_count'])]
        e1 = int(''.join('1' if b else '0' for b in data['bits']) or '0', 2)
        e2 = [(data['val'] >> i) & 1 for i in reversed(range(data['bit_count']))]
        return ib == e1 and bo == e2
    print('nothing to replay for kind', k)
    return False
