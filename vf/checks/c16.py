"""C16 — Google wire formats round-trip programs, sweeps, results and devices (DESIGN 5/C16)."""
import numpy as np
from .. import env, coq, runner

LEVEL = 'proof'
META = dict(
    text='Coq theorems (unbounded): bit packing round-trips for every number of repetitions with zero padding and little-endian-in-byte order; the constants-table interning scheme of the circuit serializer round-trips every circuit over abstract leaves with decidable equality, shares an index exactly between equal items and only refers backwards; result messages (keys x instances x qubits x packed repetitions) round-trip; the qubit id codec (qubit_to_proto_id / qubit_from_proto_id: decimal printing, split on underscores, the grid pattern, int()) reads back every grid, line, named and coupler qubit of the documented vocabulary for all signed coordinates, ids of the vocabulary never collide, and the unrestricted statement is refuted (a named qubit called 3); the device read from a DeviceSpecification holds a coupling exactly where a SYMMETRIC target set lists the two ids in either order (target sets of any other ordering and targets of any other size add nothing), its validate_operation accepts a two-qubit gate exactly on those couplings and measurement / wait on any device qubits, and to_proto writes a specification of the same qubits and couplings that reads back as the same device; validate_circuit accepts exactly the circuits whose every operation is valid by itself, whatever stands before it and in whatever order, where a Z power needs virtual_zpow without PhysicalZTag and physical_zpow under it, an FSimGate needs fsim_via_model / two_pulse_fsim under its tag, every other gate is judged without its tags, and the statement that an operation is valid once the same gate on the same qubits was accepted under other tags is refuted; an array-valued argument, modelled as a strided view on a buffer (any strides: C- or Fortran-contiguous, transposed, sliced, reversed, broadcast; any offset), is written as its shape and its elements in the row-major order of their indices and reads back, for every shape with at least one axis, to an array with the same element at every index, the message depends on the elements at the indices only and never on the memory layout, bit arrays (most significant bit first, zero padded) round-trip, and the statement for zero-dimensional arrays is refuted (an empty shape field is read as an unset message); find_measurements accepts a program exactly with one entry per key whose qubits, order, invert mask and tags are those of EVERY operation writing to the key, accepts every program that measures each key alike on grid qubits, and for an accepted program the result message holds, under the id of the c-th qubit of the j-th operation of a key, at position r * instances + j, the bit the record has at [r][j][c].; a sequence-valued argument (list / tuple / set / frozenset of bools, numpy bools, integers, floats, strings and other values in any mixture and order) is written by arg_to_proto into the repeated numeric field that is wide enough for every element (the cursor over bool_values / int64_values / double_values only ever widens), into string_values, or element by element into a tuple_value, and is read back with the same length, every number unchanged (a lone number of a mixed tuple rounded once to single precision) and every other element as it was; nothing but an integer outside int64 is refused; a list comes back as a list, whereas the statement that every sequence keeps its kind is refuted (a tuple of numbers comes back as a list), and so is the rule that would pick the field from the leading element alone. The Gallina models are hand-written in the shape of the code and evaluated with vm_compute against the implementation on every run, together with direct round-trip oracles on the real serializers for circuits, sweeps, run contexts, results, simulated programs with repeated measurement keys, array-valued arguments, sequence-valued arguments (through the bare Arg, InternalGate / InternalTag arguments, ArgMapping values and keys, circuit function arguments, raw-value tags and whole programs) and device specifications.',
    note='Trusted: Coq kernel; protobuf and numpy; the Python adapters in vf/checks/c16.py (calling cirq_google, assigning leaf identifiers by Python equality, printing Gallina literals); the leaf codecs (gate arguments, tags, conditions) are compared on generated cases, not proved; the qubit id model covers ASCII ids only; array elements are abstract in the model (the byte image of one number and its endianness are compared on generated cases through numpy); in the sequence model a float is the exact rational it denotes, an integer next to a float is assumed exact in a double (|z| <= 2^53), elements other than numbers and strings are opaque (their own round trip is judged by the Python oracle, recursively), and a set is given in its iteration order; the simulator (cirq.Simulator) is the reference for what a program records; the device model covers qubits, target sets, couplings and the gates by kind (which concrete gates a GateSpecification name stands for, durations and qubit attributes are judged by the Python oracle against device.proto); sweep values that carry units (tunits) are judged as physical quantities up to one single-precision rounding of the stored magnitude (2^-22 relative, 1e-12 with use_float64). Theorems are closed under the global context.',
    technique='Rocq/Coq proof over executable Gallina models of pack_bits, the constants table and result messages + vm_compute correspondence and round-trip oracles against cirq_google',
)


# ------------------------------------------------------------------ pack_bits / unpack_bits
def gen_bit_cases(ctx, n):
    rng = ctx.rng
    cases = []
    for i in range(n):
        r = rng.random()
        if r < 0.35:
            k = rng.choice([0, 1, 7, 8, 9, 15, 16, 17, 23, 24, 25, 63, 64, 65])
        elif r < 0.9:
            k = rng.randint(0, 40)
        else:
            k = rng.randint(41, 300)
        p = rng.choice([0.1, 0.5, 0.5, 0.9])
        cases.append([rng.random() < p for _ in range(k)])
    return cases


def bits_stream(ctx, v2, n, shard=0):
    rows_pack, rows_unpack = [], []
    for bits in sorted(gen_bit_cases(ctx, n), key=len):    # shortest first: the first failing case reported is minimal
        k = len(bits)
        data = v2.pack_bits(np.array(bits, dtype=bool))
        out = list(data)
        rows_pack.append((bits, out))
        ctx.count('pack_bits', [int(b) for b in bits], k >= 2 and any(bits) and not all(bits),
                  sample=dict(bits=[int(b) for b in bits], packed=out))
        # spec-level oracle on the real code: round trip, little-endian-in-byte, zero padding
        back = [bool(x) for x in v2.unpack_bits(data, k)]
        as_int = int.from_bytes(data, 'little')
        ok = (back == bits and len(data) == (k + 7) // 8 and as_int == sum(1 << i for i, b in enumerate(bits) if b))
        if not ok:
            ctx.violation('bits:pack-unpack', f'unpack_bits(pack_bits(b), {k}) != b or wrong layout for b={[int(b) for b in bits]}: '
                          f'packed={out} back={[int(b) for b in back]}', dict(kind='bits', bits=[int(b) for b in bits]))
        # unpack of arbitrary bytes with any repetition count (also more than 8*len)
        nb = ctx.rng.choice([0, 1, 2, 3, 5])
        raw = bytes(ctx.rng.randrange(256) for _ in range(nb))
        reps = ctx.rng.choice([0, 1, 7, 8, 9, 8 * nb, 8 * nb + 3, ctx.rng.randint(0, 8 * nb + 1)])
        got = [bool(x) for x in v2.unpack_bits(raw, reps)]
        rows_unpack.append((list(raw), reps, got))
        ctx.count('unpack_bits', [list(raw), reps], nb >= 1 and reps >= 2, sample=dict(data=list(raw), repetitions=reps, bits=[int(b) for b in got]))
        exp = [bool((int.from_bytes(raw, 'little') >> i) & 1) for i in range(min(reps, 8 * nb))]
        if got != exp:
            ctx.violation('bits:unpack', f'unpack_bits({list(raw)}, {reps}) = {[int(b) for b in got]}, little-endian bits are {[int(b) for b in exp]}',
                          dict(kind='unpack', data=list(raw), repetitions=reps))
    ZL, BL = coq.zlist, coq.blist
    text = ('From Coq Require Import ZArith List Bool.\nFrom VF Require Import Codec.PackBits Base.Harness.\n'
            'Import ListNotations.\nOpen Scope Z_scope.\n')
    text += 'Definition pk : list (list bool * list Z) := [\n' + ';\n'.join(f'({BL(b)}, {ZL(o)})' for b, o in rows_pack) + '].\n'
    text += 'Eval vm_compute in failing (fun c => zl_eqb (pack_bits (fst c)) (snd c) && bl_eqb (unpack_bits (snd c) (length (fst c))) (fst c)) pk.\n'
    text += 'Definition up : list (list Z * nat * list bool) := [\n' + ';\n'.join(
        f'({ZL(d)}, {r}%nat, {BL(g)})' for d, r, g in rows_unpack) + '].\n'
    text += 'Eval vm_compute in failing (fun c => match c with (d, r, g) => bl_eqb (unpack_bits d r) g end) up.\n'
    vals = coq.parse_evals(coq.coq_eval(f'c16_bits_{ctx.seed}_{shard}', text))
    assert len(vals) == 2, vals
    for name, rows, val in zip(['pack_bits', 'unpack_bits'], [rows_pack, rows_unpack], vals):
        for idx in coq.parse_nat_list(val):
            ctx.mark_broken(f'correspondence:{name}', f'model and implementation differ on {rows[idx]}')


# ------------------------------------------------------------------ result messages
def _qid(q):
    return (q.row + 50) * 1000 + (q.col + 50)          # injective on the coordinates used here (negative ones included)


def gen_results_case(ctx, cirq, v2):
    rng = ctx.rng
    r0, c0 = rng.choice([0, 0, -1, -2, -4, 9]), rng.choice([0, 0, -1, -3, 10])
    grid = [cirq.GridQubit(r0 + r, c0 + c) for r in range(4) for c in range(4)]
    nkeys = rng.choice([1, 1, 2, 3, 4])
    ms = []
    for k in rng.sample(['a', 'b', 'm_0', 'zz', 'q(1, 2)', 'k5'], nkeys):
        nq = rng.choice([1, 1, 2, 3, 5])
        ms.append(v2.MeasureInfo(key=k, qubits=rng.sample(grid, nq), instances=rng.choice([1, 1, 2, 3]), invert_mask=[False] * nq, tags=[]))
    sweeps = []
    for _ in range(rng.choice([1, 1, 2, 3])):
        reps = rng.choice([0, 1, 2, 3, 7, 8, 9, 15, 16, 17, 25])
        trials = []
        for t in range(rng.choice([1, 2, 3])):
            recs = {m.key: np.array([[[rng.random() < 0.5 for _ in m.qubits] for _ in range(m.instances)] for _ in range(reps)], dtype=bool).reshape((reps, m.instances, len(m.qubits)))
                    for m in ms}
            trials.append(cirq.ResultDict(params=cirq.ParamResolver({'p': rng.choice([0.25, 0.1, 3]), 's': float(t)}), records=recs))
        sweeps.append(trials)
    return ms, sweeps


def results_stream(ctx, cirq, v2, n, shard=0):
    rng = ctx.rng
    rows_enc, rows_dec = [], []
    kid = {}
    K = lambda k: kid.setdefault(k, len(kid))

    def ms_lit(ms):
        return '[' + '; '.join(f'(mkM {K(m.key)} {coq.zlist(_qid(q) for q in m.qubits)} {m.instances})' for m in ms) + ']'

    def rec_lit(a):
        return '[' + '; '.join('[' + '; '.join(coq.blist(a[r, j]) for j in range(a.shape[1])) + ']' for r in range(a.shape[0])) + ']'

    def trial_lit(t):
        return f'(mkT {t.repetitions} [' + '; '.join(f'({K(k)}, {rec_lit(np.asarray(a))})' for k, a in t.records.items()) + '])'

    def msg_lit(msg):
        out = []
        for sr in msg.sweep_results:
            prs = []
            for pr in sr.parameterized_results:
                mrs = []
                for mr in pr.measurement_results:
                    qs = []
                    for qmr in mr.qubit_measurement_results:
                        r_, c_ = qmr.qubit.id.split('_')
                        qs.append(f'({(int(r_) + 50) * 1000 + int(c_) + 50}, {coq.zlist(qmr.results)})')
                    mrs.append(f'(mkMR {K(mr.key)} {mr.instances} [' + '; '.join(qs) + '])')
                prs.append('[' + '; '.join(mrs) + ']')
            out.append(f'(mkSR {sr.repetitions} [' + '; '.join(prs) + '])')
        return '[' + '; '.join(out) + ']'

    def out_lit(res):
        return '[' + '; '.join('[' + '; '.join('[' + '; '.join(f'({K(k)}, {rec_lit(np.asarray(a))})' for k, a in t.records.items()) + ']' for t in sw) + ']' for sw in res) + ']'

    def attempt(f):
        try:
            return f()
        except (ValueError, KeyError, IndexError):
            return None

    for case in range(n):
        ms, sweeps = gen_results_case(ctx, cirq, v2)
        mode = rng.choice(['ok', 'ok', 'ok', 'ok', 'missing_key', 'bad_instances', 'reps_mismatch'])
        enc_ms, enc_sweeps = ms, sweeps
        if mode == 'missing_key':
            enc_ms = ms + [v2.MeasureInfo(key='absent', qubits=[cirq.GridQubit(0, 0)], instances=1, invert_mask=[False], tags=[])]
        elif mode == 'bad_instances':
            m0 = ms[0]
            enc_ms = [v2.MeasureInfo(key=m0.key, qubits=m0.qubits, instances=m0.instances + 1, invert_mask=m0.invert_mask, tags=[])] + ms[1:]
        elif mode == 'reps_mismatch':
            t0 = sweeps[0][0]
            extra = cirq.ResultDict(params=t0.params, records={k: np.concatenate([a, a[:1] if len(a) else np.zeros((1,) + a.shape[1:], dtype=bool)]) for k, a in t0.records.items()})
            enc_sweeps = [sweeps[0] + [extra]] + sweeps[1:]
        msg = attempt(lambda: v2.results_to_proto(enc_sweeps, enc_ms))
        reps_list = [sw[0].repetitions for sw in sweeps]
        nontriv = any(r % 8 for r in reps_list) and any(m.instances > 1 for m in ms) and any(len(m.qubits) > 1 for m in ms)
        desc = dict(keys={m.key: dict(qubits=[str(q) for q in m.qubits], instances=m.instances) for m in ms}, repetitions=reps_list, mode=mode)
        ctx.count('results:to_proto', [desc, [[{k: np.asarray(a).tolist() for k, a in t.records.items()} for t in sw] for sw in sweeps]], nontriv,
                  sample=dict(desc, packed=None if msg is None else [list(q.results) for q in msg.sweep_results[0].parameterized_results[0].measurement_results[0].qubit_measurement_results]))
        rows_enc.append((ms_lit(enc_ms), '[' + '; '.join('[' + '; '.join(trial_lit(t) for t in sw) + ']' for sw in enc_sweeps) + ']', None if msg is None else msg_lit(msg)))
        rp = dict(kind='results', mode=mode, measurements=[dict(key=m.key, qubits=[(q.row, q.col) for q in m.qubits], instances=m.instances) for m in ms],
                  sweeps=[[dict(params={str(k): float(v) for k, v in t.params.param_dict.items()}, records={k: np.asarray(a).astype(int).tolist() for k, a in t.records.items()},
                                shapes={k: list(np.asarray(a).shape) for k, a in t.records.items()}) for t in sw] for sw in sweeps])
        # a wrong instance count goes unnoticed by numpy's reshape when there is nothing to reshape (0 repetitions everywhere)
        vacuous = mode == 'bad_instances' and all(r == 0 for r in reps_list)
        if (msg is None) != (mode != 'ok') and not vacuous:
            ctx.violation('results:to_proto-defined', f'results_to_proto {"raised" if msg is None else "accepted"} in mode {mode}: {desc}', rp)
        if msg is None or vacuous:
            continue
        # ---- decoding: same measurements, no measurements, permuted qubit order, malformed messages
        dmode = rng.choice(['same', 'same', 'none', 'permuted', 'permuted', 'dup_qubit', 'missing_measure'])
        dec_ms = ms
        msg2 = msg
        if dmode == 'none':
            dec_ms = None
        elif dmode == 'permuted':
            dec_ms = []
            for m in ms:
                qs = list(m.qubits)
                rng.shuffle(qs)
                dec_ms.append(v2.MeasureInfo(key=m.key, qubits=qs, instances=m.instances, invert_mask=m.invert_mask, tags=[]))
        elif dmode == 'dup_qubit':
            msg2 = type(msg)()
            msg2.CopyFrom(msg)
            mr = msg2.sweep_results[0].parameterized_results[0].measurement_results[0]
            dup = mr.qubit_measurement_results.add()
            dup.CopyFrom(mr.qubit_measurement_results[0])
        elif dmode == 'missing_measure':
            dec_ms = ms[1:] + [v2.MeasureInfo(key='other', qubits=[cirq.GridQubit(0, 0)], instances=1, invert_mask=[False], tags=[])]
        back = attempt(lambda: v2.results_from_proto(msg2, dec_ms))
        rows_dec.append(('None' if dec_ms is None else f'(Some {ms_lit(dec_ms)})', msg_lit(msg2), None if back is None else out_lit(back)))
        ctx.count('results:from_proto', [desc, dmode, msg2.SerializeToString().hex()], nontriv, sample=dict(desc, decode=dmode, ok=back is not None))
        # spec-level oracle on the real code
        if dmode in ('same', 'none', 'permuted'):
            ok = back is not None and len(back) == len(sweeps)
            if ok:
                for sw, bsw in zip(sweeps, back):
                    ok = ok and len(sw) == len(bsw)
                    for t, b in zip(sw, bsw):
                        exp_params = {k: float(np.float32(v)) for k, v in t.params.param_dict.items()}
                        ok = ok and {k: float(v) for k, v in b.params.param_dict.items()} == exp_params and list(b.records) == [m.key for m in ms]
                        for m, dm in zip(ms, dec_ms or ms):
                            cols = [m.qubits.index(q) for q in dm.qubits]
                            ok = ok and b.records[m.key].shape == t.records[m.key].shape and np.array_equal(b.records[m.key], np.asarray(t.records[m.key])[:, :, cols])
            if not ok:
                ctx.violation('results:roundtrip', f'results_from_proto(results_to_proto(r, m), {dmode}) differs from r for {desc}', dict(rp, decode=dmode))
        elif back is not None:
            ctx.violation('results:malformed-accepted', f'results_from_proto accepted a malformed message/measurement list ({dmode}) for {desc}', dict(rp, decode=dmode))
    text = ('From Coq Require Import ZArith List Bool.\nFrom VF Require Import Codec.PackBits Codec.PackBitsResults Base.Harness.\n'
            'Import ListNotations.\nOpen Scope Z_scope.\n'
            'Definition qm_eqb := list_eqb (pair_eqb Z.eqb zl_eqb).\n'
            'Definition mr_eqb (a b : mres) := Z.eqb (mr_key a) (mr_key b) && Nat.eqb (mr_instances a) (mr_instances b) && qm_eqb (mr_qubits a) (mr_qubits b).\n'
            'Definition sr_eqb (a b : sweepres) := Nat.eqb (sr_reps a) (sr_reps b) && list_eqb (list_eqb mr_eqb) (sr_results a) (sr_results b).\n'
            'Definition recd_eqb := list_eqb (list_eqb bl_eqb).\n'
            'Definition out_eqb := list_eqb (list_eqb (list_eqb (pair_eqb Z.eqb recd_eqb))).\n')
    text += 'Definition c_enc : list (list minfo * list (list trial) * option (list sweepres)) := [\n' + ';\n'.join(
        f'({m}, {sw}, {coq.opt(msg)})' for m, sw, msg in rows_enc) + '].\n'
    text += 'Eval vm_compute in failing (fun c => match c with (m, sw, msg) => opt_eqb (list_eqb sr_eqb) (results_to_proto m sw) msg end) c_enc.\n'
    text += 'Definition c_dec : list (option (list minfo) * list sweepres * option (list (list (list (Z * recd))))) := [\n' + ';\n'.join(
        f'({m}, {msg}, {coq.opt(out)})' for m, msg, out in rows_dec) + '].\n'
    text += 'Eval vm_compute in failing (fun c => match c with (m, msg, out) => opt_eqb out_eqb (results_from_proto m msg) out end) c_dec.\n'
    vals = coq.parse_evals(coq.coq_eval(f'c16_results_{ctx.seed}_{shard}', text))
    assert len(vals) == 2, vals
    for name, rows, val in zip(['results_to_proto', 'results_from_proto'], [rows_enc, rows_dec], vals):
        for idx in coq.parse_nat_list(val):
            ctx.mark_broken(f'correspondence:{name}', f'model and implementation differ on {str(rows[idx])[:1500]}')


# ------------------------------------------------------------------ circuits
SAFE_NAMES = ['a', 'b', 'q0', 'anc', 'x-1', 'nq', 'Q', 'zz', '-', 'q 1', '1x', 'c', 'cq']       # cannot be read as another kind of id
SAFE_UNDERSCORE_NAMES = ['anc_1', 'a_b', 'q_1', 'x_y_z', '_', 'c_x', '1_', 'q1_b']              # '_' inside, still not another form


def spec_qubit_id(cirq, cg, q):
    """The id of a qubit on the wire, written from the documentation of the format: `{row}_{col}` for a grid qubit, the
    decimal `x` for a line qubit, the name for a named qubit, `c_{id0}_{id1}` for a coupler."""
    if isinstance(q, cirq.GridQubit):
        return '%d_%d' % (q.row, q.col)
    if isinstance(q, cirq.LineQubit):
        return '%d' % q.x
    if isinstance(q, cirq.NamedQubit):
        return q.name
    if isinstance(q, cg.Coupler):
        return 'c_' + spec_qubit_id(cirq, cg, q.qubit0) + '_' + spec_qubit_id(cirq, cg, q.qubit1)
    return None


def spec_qubit_of_id(cirq, cg, s):
    """What an id denotes according to the documented forms ({int}_{int}, {int}, c_{int}_{int}, c_{int}_{int}_{int}_{int},
    c_{name}_{name}, otherwise a name); None when the forms leave it open."""
    import re
    I = r'-?[0-9]+'

    def pyint(x):
        try:
            int(x)
            return True
        except ValueError:
            return False
    if re.fullmatch(I, s):
        return cirq.LineQubit(int(s))
    m = re.fullmatch(f'({I})_({I})', s)
    if m:
        return cirq.GridQubit(int(m.group(1)), int(m.group(2)))
    if pyint(s) or any((pyint(x) or pyint(x[1:] if x[:1] == 'q' else x)) and not re.fullmatch(I, x) for x in s.split('_')):
        return None                       # '+3', ' 3', '1_0_0', 'q1': integers for Python / for the grid pattern, not of the documented form
    f = s.split('_')
    if s.startswith('c_') and len(f) == 3:
        ints = [bool(re.fullmatch(I, x)) for x in f[1:]]
        if all(ints):
            return cg.Coupler(cirq.LineQubit(int(f[1])), cirq.LineQubit(int(f[2])))
        return None if any(ints) else cg.Coupler(cirq.NamedQubit(f[1]), cirq.NamedQubit(f[2]))
    if s.startswith('c_') and len(f) == 5 and all(re.fullmatch(I, x) for x in f[1:]):
        return cg.Coupler(cirq.GridQubit(int(f[1]), int(f[2])), cirq.GridQubit(int(f[3]), int(f[4])))
    if re.fullmatch(f'q{I}_{I}', s):
        return None                       # accepted as a grid qubit by grid_qubit_from_proto_id, not among the forms of qubit_from_proto_id
    return cirq.NamedQubit(s)


def qubit_in_vocabulary(cirq, cg, q):
    """A qubit whose documented id denotes that very qubit (a name such as '3', '1_2' or 'c_a_b', or a coupler between
    qubits of different kinds, has an id that the documented forms give to another qubit or leave open)."""
    return spec_qubit_of_id(cirq, cg, spec_qubit_id(cirq, cg, q)) == q


def qubit_family(cirq, cg, kind, a=0, b=0):
    """Nine qubits of one kind; a, b shift the coordinates (negative values included)."""
    if kind == 'grid':
        return [cirq.GridQubit(a + r, b + c) for r in range(3) for c in range(3)]
    if kind == 'line':
        return [cirq.LineQubit(a + i) for i in range(9)]
    if kind == 'named':
        return [cirq.NamedQubit(n) for n in (SAFE_NAMES + SAFE_UNDERSCORE_NAMES)[(a % 7):(a % 7) + 9]]
    if kind == 'coupler_line':
        return [cg.Coupler(cirq.LineQubit(a + i), cirq.LineQubit(a + i + 1)) for i in range(9)]
    if kind == 'coupler_grid':
        g = [cirq.GridQubit(a + r, b + c) for r in range(3) for c in range(3)]
        return [cg.Coupler(x, y) for x in g for y in g if x < y and x.is_adjacent(y)][:9]
    if kind == 'coupler_named':
        nm = [n for n in SAFE_NAMES if n != 'c']
        return [cg.Coupler(cirq.NamedQubit(nm[i]), cirq.NamedQubit(nm[i + 1])) for i in range(9)]
    raise ValueError(kind)


QUBIT_KINDS = ['grid', 'line', 'named', 'coupler_line', 'coupler_grid', 'coupler_named']


class Vocab:
    """Generator over the serialisable vocabulary (gate types with numeric / symbolic / expression arguments, tags,
    classical controls, circuit operations over shared FrozenCircuits, moment and circuit tags)."""

    def __init__(self, ctx, cirq, cg):
        import sympy
        self.rng, self.cirq, self.cg, self.sympy = ctx.rng, cirq, cg, sympy
        self.qubits = qubit_family(cirq, cg, 'grid')
        self.t, self.u = sympy.Symbol('t'), sympy.Symbol('u')
        self.cliffords = list(cirq.SingleQubitCliffordGate.all_single_qubit_cliffords)
        self.known = True      # whether inputs of the known findings may be generated

    def real(self, allow_symbolic=True):
        rng, t, u = self.rng, self.t, self.u
        r = rng.random()
        if r < 0.3:
            return rng.choice([0, 0.25, 0.5, 1, -0.5, 2, 1.9999999999, 1e-9, 0.1, 1 / 3, -1.25, 3])
        if r < 0.6 or not allow_symbolic:
            return round(rng.uniform(-2, 2), rng.choice([2, 5, 15]))
        if r < 0.75:
            return rng.choice([t, u])
        return rng.choice([2 * t, t + 0.5, t * u, t ** 2, 0.25 * t + u, t / 3, 1.7 * t - 0.1 * u, (t + u) * 0.5])

    def gate1(self):
        cirq, cg, rng = self.cirq, self.cg, self.rng
        k = rng.choice(['x', 'y', 'z', 'h', 'px', 'pxz', 'rx', 'rz', 'id', 'cliff', 'wait', 'reset', 'depol', 'internal', 'xshift'])
        if k == 'x':
            return cirq.XPowGate(exponent=self.real())
        if k == 'y':
            return cirq.YPowGate(exponent=self.real())
        if k == 'z':
            return cirq.ZPowGate(exponent=self.real())
        if k == 'h':
            return cirq.HPowGate(exponent=self.real())
        if k == 'px':
            return cirq.PhasedXPowGate(exponent=self.real(), phase_exponent=self.real())
        if k == 'pxz':
            return cirq.PhasedXZGate(x_exponent=self.real(), z_exponent=self.real(), axis_phase_exponent=self.real())
        if k == 'rx':
            return cirq.rx(self.real(False))            # global_shift = -0.5: only the global phase may be normalised
        if k == 'rz':
            return cirq.rz(self.real(False))
        if k == 'xshift':
            return cirq.XPowGate(exponent=self.real(), global_shift=rng.choice([0.25, -0.5, 0.5]))
        if k == 'id':
            return cirq.IdentityGate(1)
        if k == 'cliff':
            return rng.choice(self.cliffords)
        if k == 'wait':
            return cirq.WaitGate(cirq.Duration(nanos=rng.choice([0, 10, 12.5, 0.001, 1e6, self.t])))
        if k == 'reset':
            return cirq.ResetChannel()
        if k == 'depol':
            return cirq.DepolarizingChannel(p=rng.choice([0.1, 0.25, 0.01] + ([0.0] if self.known else [])))
        # (a tuple that holds a string travels as a tuple_value and keeps its kind; tuples of numbers only: finding arg:sequence-kind,
        #  lists: finding circuit:internal-args-unhashable -- both are the business of the arg_sequences stream)
        return cg.InternalGate(rng.choice(['G1', 'G2']), rng.choice(['mod.a', '']), 1,
                               **{rng.choice(['a', 'b']): rng.choice([1.5, 0.1, 3, 'txt', True, self.t, ('cfg', 1, 2.5), (0.5, 'x', True), (2, 0.1, ('in', 3))])})

    def gate2(self):
        cirq, cg, rng = self.cirq, self.cg, self.rng
        k = rng.choice(['cz', 'cz', 'iswap', 'fsim', 'syc', 'willow', 'id2', 'depol2', 'internal2', 'wait2'])
        if k == 'cz':
            return cirq.CZPowGate(exponent=self.real())
        if k == 'iswap':
            return cirq.ISwapPowGate(exponent=self.real())
        if k == 'fsim':
            return cirq.FSimGate(theta=self.real(), phi=self.real())
        if k == 'syc':
            return cg.SYC
        if k == 'willow':
            return cg.WILLOW
        if k == 'id2':
            return cirq.IdentityGate(2)
        if k == 'depol2':
            return cirq.DepolarizingChannel(p=0.05, n_qubits=2)
        if k == 'wait2':
            return cirq.WaitGate(cirq.Duration(nanos=20), num_qubits=2)
        return cg.InternalGate('G2q', 'mod.b', 2, x=rng.choice([0.3, 2]))

    def tag(self, gate=None):
        cirq, cg, rng = self.cirq, self.cg, self.rng
        from cirq_google.ops import PhysicalZTag, FSimViaModelTag, TwoPulseFSimTag, CompressDurationTag, DynamicalDecouplingTag, InternalTag
        from cirq_google.ops.calibration_tag import CalibrationTag
        k = rng.choice(['str', 'str', 'int', 'float', 'cal', 'dd', 'internal', 'compress', 'flag'])
        if k == 'str':
            return rng.choice(['a', 'b', 'tag with space', ''])
        if k == 'int':
            return rng.choice([0, 1, 7, True])
        if k == 'float':
            return rng.choice([0.5, 0.1])
        if k == 'cal':
            return CalibrationTag(rng.choice(['tok1', 'tok2']))
        if k == 'dd':
            return DynamicalDecouplingTag(rng.choice(['X', 'XY4']))
        if k == 'internal':
            return InternalTag(name='T', package='pkg', **{rng.choice(['k', 'l']): rng.choice([1, 'v', 0.1, ('v', 2, 0.75), (1, 0.1, 'w')])})
        if k == 'compress':
            return CompressDurationTag()
        if isinstance(gate, cirq.ZPowGate):
            return PhysicalZTag()
        if isinstance(gate, cirq.FSimGate) and not isinstance(gate, (cg.SycamoreGate, cg.WillowGate)):
            return rng.choice([FSimViaModelTag(), TwoPulseFSimTag()])
        return 'flagless'

    def condition(self, keys):
        cirq, rng, sympy = self.cirq, self.rng, self.sympy
        k = rng.choice(keys)
        r = rng.random()
        if r < 0.4:
            return cirq.KeyCondition(cirq.MeasurementKey(k), index=rng.choice([-1, -1, 0]))
        if r < 0.7:
            return cirq.BitMaskKeyCondition(k, bitmask=rng.choice([None, 1, 2]), target_value=rng.choice([0, 1, 2]), equal_target=rng.random() < 0.5)
        return cirq.SympyCondition(rng.choice([sympy.Eq(sympy.Symbol(k), 1), sympy.Symbol(k) > 0] + ([sympy.Symbol(k)] if self.known else [])))

    def op(self, free, keys, pool, allow_known=True):
        """One operation on qubits taken from `free` (mutated); None when nothing fits."""
        cirq, rng = self.cirq, self.rng
        if pool and rng.random() < 0.35:          # reuse an earlier operation: equal operations must share a constant
            o = rng.choice(pool)
            if all(q in free for q in o.qubits):
                for q in o.qubits:
                    free.remove(q)
                return o
        r = rng.random()
        if r < 0.12 and len(free) >= 1:
            n = rng.choice([1, 1, 2, 3])
            if len(free) < n:
                n = 1
            qs = [free.pop(rng.randrange(len(free))) for _ in range(n)]
            key = rng.choice(['m', 'm', 'n', 'key 3'])
            mask = rng.choice([(), (), (True,), tuple(rng.random() < 0.5 for _ in qs)])
            kw = {}
            if allow_known and rng.random() < 0.04 and n == 1:
                kw['confusion_map'] = {(0,): np.array([[0.9, 0.1], [0.2, 0.8]])}
            keys.append(key)
            o = cirq.measure(*qs, key=key, invert_mask=mask, **kw)
        elif r < 0.6 or len(free) < 2:
            g = self.gate1()
            o = g.on(free.pop(rng.randrange(len(free))))
        else:
            g = self.gate2()
            o = g.on(free.pop(rng.randrange(len(free))), free.pop(rng.randrange(len(free))))
        controlled = False
        if keys and rng.random() < 0.15 and not cirq.is_measurement(o):
            o = o.with_classical_controls(*[self.condition(keys) for _ in range(rng.choice([1, 1, 2]))])
            controlled = True
        if not controlled and rng.random() < 0.35:       # tagged classically controlled operations are rejected by the serializer
            tags = [self.tag(o.gate) for _ in range(rng.choice([1, 1, 2, 3]))]
            # flag tags (PhysicalZTag, FSimViaModelTag, TwoPulseFSimTag) in any position (finding circuit:flag-tag-order is fixed)
            if len({type(x).__name__ for x in tags} & {'FSimViaModelTag', 'TwoPulseFSimTag'}) < 2:
                o = o.with_tags(*tags)
        pool.append(o)
        return o

    def moments(self, n, qubits, keys, pool, subs=(), depth=0, allow_known=True):
        cirq, rng = self.cirq, self.rng
        out = []
        for _ in range(n):
            if out and rng.random() < 0.2:
                out.append(rng.choice(out))            # a repeated moment must share its constant
                continue
            free = list(qubits)
            ops = []
            for _ in range(rng.choice([1, 2, 2, 3, 4])):
                if not free:
                    break
                if subs and rng.random() < 0.25:
                    co = self.circuit_op(rng.choice(subs), free, keys, allow_known)
                    if co is not None:
                        ops.append(co)
                        continue
                o = self.op(free, keys, pool, allow_known)
                if o is not None:
                    ops.append(o)
            mtags = [self.tag() for _ in range(rng.choice([0, 0, 0, 1, 2]))]
            out.append(cirq.Moment(ops, tags=tuple(mtags)) if mtags else cirq.Moment(ops))
        return out

    def circuit_op(self, sub, free, keys, allow_known=True):
        cirq, rng = self.cirq, self.rng
        sq = sorted(sub.all_qubits())
        if any(q not in free for q in sq):
            # remap onto free qubits when possible
            if len(free) < len(sq):
                return None
            targets = rng.sample(free, len(sq))
            qmap = dict(zip(sq, targets))
        else:
            qmap = {}
            targets = sq
        for q in targets:
            free.remove(q)
        kw = {}
        r = rng.random()
        if r < 0.3:
            kw['repetitions'] = rng.choice([2, 3])
        elif r < 0.45:
            kw['repetitions'] = 2
            kw['repetition_ids'] = ['first', 'second']
        if rng.random() < 0.3:
            kw['use_repetition_ids'] = rng.random() < 0.5
        mkeys = sorted(cirq.measurement_key_names(sub))
        if mkeys and rng.random() < 0.3:
            kw['measurement_key_map'] = {mkeys[0]: mkeys[0] + '_x'}
        if cirq.is_parameterized(sub) and rng.random() < 0.4:
            kw['param_resolver'] = {'t': rng.choice([0.5, 0.1, self.u, 2])}
        try:
            co = cirq.CircuitOperation(sub, qubit_map=qmap, **kw)
        except ValueError:          # e.g. a key map applied to keys that already carry a repetition path
            free.extend(targets)
            return None
        if keys and rng.random() < 0.15 and not cirq.is_measurement(sub):
            co = co.with_classical_controls(self.condition(keys))
        elif allow_known and rng.random() < 0.05:
            co = co.with_tags('on-circuit-op')       # known finding circuit:tagged-circuit-operation
        return co

    def circuit(self, allow_known=True):
        cirq, rng = self.cirq, self.rng
        self.known = allow_known
        # the qubits of one circuit: one kind with coordinates on both sides of zero, or a mixture of all kinds
        r = rng.random()
        if r < 0.4:
            self.qubits = qubit_family(cirq, self.cg, 'grid', rng.choice([0, 0, -1, -2, 6]), rng.choice([0, 0, -1, -3, 11]))
        elif r < 0.85:
            self.qubits = qubit_family(cirq, self.cg, rng.choice(QUBIT_KINDS[1:]), rng.choice([0, -1, -4, -9, -12, 3]), rng.choice([0, -1, -2, 5]))
        else:
            # (couplers of different kinds cannot be ordered by Cirq, so one kind of coupler per circuit)
            kinds = QUBIT_KINDS[:3] * 2 + [rng.choice(QUBIT_KINDS[3:])] * 2
            self.qubits = list(dict.fromkeys(rng.choice(qubit_family(cirq, self.cg, k, rng.choice([0, -1, -4, 3]), rng.choice([0, -2, 5]))) for k in kinds))
        qubits = rng.sample(self.qubits, min(len(self.qubits), rng.choice([2, 3, 4, 6])))
        keys, pool = [], []
        subs = []
        for _ in range(rng.choice([0, 0, 1, 2])):
            sk = []
            sub_m = self.moments(rng.choice([1, 2, 3]), rng.sample(qubits, rng.choice([1, 2])), sk, pool, subs=subs if rng.random() < 0.4 else (), depth=1,
                                 allow_known=allow_known)
            stags = [self.tag()] if rng.random() < 0.2 else []
            subs.append(cirq.FrozenCircuit(sub_m, tags=stags) if stags else cirq.FrozenCircuit(sub_m))
        ms = self.moments(rng.choice([1, 2, 3, 5, 8]), qubits, keys, pool, subs=subs, allow_known=allow_known)
        ctags = [self.tag() for _ in range(rng.choice([0, 0, 1, 2]))]
        return cirq.Circuit(ms, tags=ctags) if ctags else cirq.Circuit(ms)


def make_norm(cirq, cg):
    """norm(x): x with every real argument rounded to float32 and gate global phases dropped -- the two freedoms the
    property grants.  Applied to both sides before comparing with Cirq's own equality."""
    import sympy

    def nexpr(e):
        if isinstance(e, sympy.Number):
            f = float(np.float32(float(e)))
            return sympy.Integer(int(f)) if f == int(f) else sympy.Float(f)
        if isinstance(e, sympy.Basic) and e.args:
            return e.func(*[nexpr(a) for a in e.args])
        return e

    def r32(x):
        if isinstance(x, sympy.Basic):
            return nexpr(x)
        if isinstance(x, (bool, str)) or x is None:
            return x
        if isinstance(x, (tuple, list)):
            return type(x)(r32(y) for y in x)
        if isinstance(x, (int, float, np.integer, np.floating)):
            f = float(np.float32(x))
            return int(f) if f == int(f) and abs(f) < 2 ** 31 else f
        return x

    def ngate(g):
        for cls in (cirq.XPowGate, cirq.YPowGate, cirq.ZPowGate, cirq.HPowGate, cirq.CZPowGate, cirq.ISwapPowGate):
            if isinstance(g, cls) and cirq.num_qubits(g) <= 2 and all(d == 2 for d in cirq.qid_shape(g)):
                return cls(exponent=r32(g.exponent))
        if isinstance(g, cirq.PhasedXPowGate):
            return cirq.PhasedXPowGate(exponent=r32(g.exponent), phase_exponent=r32(g.phase_exponent))
        if isinstance(g, cirq.PhasedXZGate):
            return cirq.PhasedXZGate(x_exponent=r32(g.x_exponent), z_exponent=r32(g.z_exponent), axis_phase_exponent=r32(g.axis_phase_exponent))
        if isinstance(g, (cg.SycamoreGate, cg.WillowGate)):
            return g
        if isinstance(g, cirq.FSimGate):
            return cirq.FSimGate(theta=r32(g.theta), phi=r32(g.phi))
        if isinstance(g, cirq.WaitGate) and type(g) is cirq.WaitGate:
            return cirq.WaitGate(cirq.Duration(nanos=r32(g.duration.total_nanos())), num_qubits=cirq.num_qubits(g))
        if isinstance(g, cirq.DepolarizingChannel):
            return cirq.DepolarizingChannel(p=r32(g.p), n_qubits=g.n_qubits)
        if isinstance(g, cg.InternalGate):
            return cg.InternalGate(g.gate_name, g.gate_module, g.num_qubits(), custom_args=g.custom_args or None, **{k: r32(v) for k, v in g.gate_args.items()})
        return g

    def ntag(t):
        if isinstance(t, cg.InternalTag):
            return cg.InternalTag(name=t.name, package=t.package, **{k: r32(v) for k, v in t.tag_args.items()})
        if isinstance(t, float):
            return r32(t)
        return t

    def nop(o):
        tags = tuple(ntag(t) for t in o.tags)
        u = o.untagged
        if isinstance(u, cirq.ClassicallyControlledOperation):
            inner = nop(u.without_classical_controls())
            res = inner.with_classical_controls(*u.classical_controls)
        elif isinstance(u, cirq.CircuitOperation):
            pr = {k: r32(v) for k, v in u.param_resolver.param_dict.items()}
            res = u.replace(circuit=ncirc(u.circuit).freeze(), param_resolver=cirq.ParamResolver(pr))
        elif u.gate is not None:
            res = ngate(u.gate).on(*u.qubits)
        else:
            res = u
        return res.with_tags(*tags) if tags else res

    def nmoment(m):
        tg = tuple(ntag(t) for t in m.tags)
        return cirq.Moment([nop(o) for o in m.operations], tags=tg) if tg else cirq.Moment([nop(o) for o in m.operations])

    def ncirc(c):
        tg = [ntag(t) for t in c.tags]
        ms = [nmoment(m) for m in c.moments]
        return cirq.Circuit(ms, tags=tg) if tg else cirq.Circuit(ms)

    return ncirc, nop, nmoment


class Adapter:
    """Turns a cirq circuit into a term of Codec/Intern.v.  Leaves (qubits, gate-and-controls, tags, circuit-operation
    payloads) are numbered by Python equality/hash, and every operation / moment / circuit is represented by the first
    value equal to it that was met, because that is what raw_constants (a dict) does."""

    def __init__(self, cirq):
        self.cirq = cirq
        self.q, self.g, self.t, self.p = {}, {}, {}, {}
        self.rep = {}

    @staticmethod
    def _id(d, k):
        return d.setdefault(k, len(d))

    def canon(self, x):
        return self.rep.setdefault(x, x)

    def op(self, o):
        cirq = self.cirq
        u = o.untagged
        inner = u.without_classical_controls() if isinstance(u, cirq.ClassicallyControlledOperation) else u
        if isinstance(inner, cirq.CircuitOperation):
            co = inner
            payload = (co.repetitions, tuple(co.qubit_map.items()), tuple(co.measurement_key_map.items()),
                       tuple((str(k), str(v)) for k, v in co.param_resolver.param_dict.items()),
                       None if co.repetition_ids is None else tuple(co.repetition_ids), co.use_repetition_ids, co.repeat_until,
                       tuple(o.classical_controls), tuple(o.tags))      # tags: part of what Moment equality compares
            return f'(Circ {self._id(self.p, payload)} {self.circuit(co.circuit)})'
        o = self.canon(o)
        u = o.untagged
        gate = u.without_classical_controls().gate if isinstance(u, cirq.ClassicallyControlledOperation) else u.gate
        payload = (gate, tuple(o.classical_controls))
        return (f'(Gate {self._id(self.g, payload)} {coq.zlist(self._id(self.q, q) for q in o.qubits)} '
                f'{coq.zlist(self._id(self.t, t) for t in o.tags)})')

    def moment(self, m):
        m = self.rep.setdefault(('moment', m, tuple(m.tags)), m)     # _serialize_circuit keys a moment by (moment, moment.tags)
        return f'(Mom [{"; ".join(self.op(o) for o in m.operations)}] {coq.zlist(self._id(self.t, t) for t in m.tags)})'

    def circuit(self, c):
        c = self.canon(c.freeze())
        return f'(Cir [{"; ".join(self.moment(m) for m in c.moments)}] {coq.zlist(self._id(self.t, t) for t in c.tags)})'


def proto_skeleton(msg):
    """Index structure of Program.constants and of the top-level circuit (leaf payloads dropped)."""
    rows = []
    for c in msg.constants:
        w = c.WhichOneof('const_value')
        if w == 'qubit':
            rows.append((0, [], [], []))
        elif w == 'tag_value':
            rows.append((1, [], [], []))
        elif w == 'operation_value':
            o = c.operation_value
            rows.append((2, list(o.qubit_constant_index), list(o.tag_indices), []))
        elif w == 'moment_value':
            m = c.moment_value
            rows.append((3, list(m.operation_indices), [co.circuit_constant_index for co in m.circuit_operations], list(m.tag_indices)))
        elif w == 'circuit_value':
            rows.append((4, list(c.circuit_value.moment_indices), list(c.circuit_value.tag_indices), []))
        else:
            rows.append((9, [], [], []))
    return rows, (list(msg.circuit.moment_indices), list(msg.circuit.tag_indices))


def op_qubits(cirq, o):
    """Every qubit an operation mentions: its own, and for a circuit operation those of its circuit and of its qubit map."""
    u = o.untagged
    inner = u.without_classical_controls() if isinstance(u, cirq.ClassicallyControlledOperation) else u
    qs = set(o.qubits)
    if isinstance(inner, cirq.CircuitOperation):
        qs |= set(inner.qubit_map) | set(inner.qubit_map.values())
        for x in all_ops(cirq, inner.circuit):
            qs |= op_qubits(cirq, x)
    return qs


def classify_op_failure(cirq, o, back=None):
    """Signature for a single operation whose one-operation circuit does not round-trip (call-site attribution)."""
    import cirq_google as cg
    names = [type(t).__name__ for t in o.tags]
    u = o.untagged
    inner = u.without_classical_controls() if isinstance(u, cirq.ClassicallyControlledOperation) else u
    if back is not None and set(back.all_qubits()) != set(cirq.Circuit(o).all_qubits()):
        lost = sorted(set(cirq.Circuit(o).all_qubits()) - set(back.all_qubits()))
        if lost and not all(qubit_in_vocabulary(cirq, cg, q) for q in lost):
            return 'circuit:qubit-id-ambiguous'
        return 'circuit:qubit:' + '+'.join(sorted({type(q).__name__ for q in lost})) if lost else 'circuit:qubit:added'
    if isinstance(inner, cirq.CircuitOperation) and o.tags:
        return 'circuit:tagged-circuit-operation'
    flags = [i for i, n in enumerate(names) if n in ('PhysicalZTag', 'FSimViaModelTag', 'TwoPulseFSimTag')]
    if flags and flags != [0]:
        return 'circuit:flag-tag-order'
    if isinstance(inner.gate, cirq.MeasurementGate) and inner.gate.confusion_map:
        return 'circuit:measurement-confusion-map'
    if isinstance(inner.gate, cirq.DepolarizingChannel) and float(inner.gate.p) == int(inner.gate.p):
        return 'circuit:depolarize-integral-probability'
    import sympy
    if any(isinstance(cc, cirq.SympyCondition) and isinstance(cc.expr, sympy.Symbol) for cc in o.classical_controls):
        return 'circuit:sympy-condition-bare-symbol'
    return 'circuit:op:' + type(inner.gate).__name__


def is_circuit_op(cirq, o):
    u = o.untagged
    inner = u.without_classical_controls() if isinstance(u, cirq.ClassicallyControlledOperation) else u
    return isinstance(inner, cirq.CircuitOperation)


def all_ops(cirq, c):
    for m in c.moments:
        for o in m.operations:
            yield o
            u = o.untagged
            inner = u.without_classical_controls() if isinstance(u, cirq.ClassicallyControlledOperation) else u
            if isinstance(inner, cirq.CircuitOperation):
                yield from all_ops(cirq, inner.circuit)


def roundtrip_ok(cirq, S, norm, c):
    """The property's statement on one circuit: deserialize(serialize(c)) equals c moment by moment after norm."""
    d = S.deserialize(S.serialize(c))
    a, b = norm(c), norm(d)
    if len(a.moments) != len(b.moments) or tuple(a.tags) != tuple(b.tags):
        return False, d
    return all(x == y and tuple(x.tags) == tuple(y.tags) for x, y in zip(a.moments, b.moments)), d


def moment_literal(m):
    return f'cirq.Moment([{", ".join(repr(o) for o in m.operations)}], tags={tuple(m.tags)!r})'


def circuit_literal(c):
    """repr(circuit) drops moment tags; this evaluable form keeps them."""
    return f'cirq.Circuit([{", ".join(moment_literal(m) for m in c.moments)}], tags={list(c.tags)!r})'


def explain_failure(ctx, cirq, S, norm, c, why, got=None):
    """Minimise a failing circuit to the call site: a single operation, or a pair of moments, that fails on its own."""
    found = False
    def is_cop(o):
        u = o.untagged
        inner = u.without_classical_controls() if isinstance(u, cirq.ClassicallyControlledOperation) else u
        return isinstance(inner, cirq.CircuitOperation)
    for want_cop in (False, True):          # leaves first; a circuit operation is blamed only when none of its leaves fails,
        for o in (reversed(list(all_ops(cirq, c))) if want_cop else all_ops(cirq, c)):     # and then the innermost one only
            if is_cop(o) != want_cop or (want_cop and found):
                continue
            d1 = None
            try:
                ok1, d1 = roundtrip_ok(cirq, S, norm, cirq.Circuit(o))
                w1 = f'got {list(d1.all_operations())!r}'
                if set(d1.all_qubits()) != set(cirq.Circuit(o).all_qubits()):
                    w1 = (f'qubits {sorted(set(cirq.Circuit(o).all_qubits()) - set(d1.all_qubits()))!r} come back as '
                          f'{sorted(set(d1.all_qubits()) - set(cirq.Circuit(o).all_qubits()))!r}; ' + w1)
            except Exception as e:
                ok1, w1 = False, f'raised {type(e).__name__}: {str(e)[:200]}'
            if not ok1:
                found = True
                ctx.violation(classify_op_failure(cirq, o, d1), f'deserialize(serialize(Circuit(op))) is not Circuit(op) for op = {o!r}; {w1}'[:1500],
                              dict(kind='circuit', literal=circuit_literal(cirq.Circuit(o))))
        if found:
            return
    if found:
        return
    def moments_of(cc):
        yield from cc.moments
        for o in all_ops(cirq, cc):
            u = o.untagged
            inner = u.without_classical_controls() if isinstance(u, cirq.ClassicallyControlledOperation) else u
            if isinstance(inner, cirq.CircuitOperation):
                yield from inner.circuit.moments
    ms = list(moments_of(c))
    for i, m1 in enumerate(ms):
        for m2 in ms[i + 1:]:
            if m1 == m2 and tuple(m1.tags) != tuple(m2.tags):
                cc = cirq.Circuit([m1, m2])
                ok2, d2 = roundtrip_ok(cirq, S, norm, cc)
                if not ok2:
                    ctx.violation('circuit:moment-tags-shared',
                                  f'two moments with equal operations and tags {m1.tags!r} / {m2.tags!r} come back with tags {[m.tags for m in d2.moments]!r}: {circuit_literal(cc)}'[:1500],
                                  dict(kind='circuit', literal=circuit_literal(cc)))
                    return
    # moments whose operations are pairwise equal but which Moment.__eq__ tells apart: an operation on interchangeable
    # qubits was replaced by the equal operation interned earlier, with the qubits in the other order
    def same_ops(m1, m2):
        rest = list(m2.operations)
        for o in m1.operations:
            hit = next((x for x in rest if x == o), None)
            if hit is None:
                return False
            rest.remove(hit)
        return not rest
    if got is not None and len(got.moments) == len(c.moments):
        a_, b_ = norm(c), norm(got)
        for i, (m1, m2) in enumerate(zip(a_.moments, b_.moments)):
            if m1 != m2 and same_ops(m1, m2) and tuple(m1.tags) == tuple(m2.tags):
                for o in c.moments[i].operations:
                    twin = next((x for x in got.moments[i].operations if x == o and x.qubits != o.qubits), None)
                    if twin is None:
                        continue
                    other = next((x for x in c.moments[i].operations if x is not o), None)
                    cc = cirq.Circuit([cirq.Moment([o.with_qubits(*twin.qubits)]), cirq.Moment([o] + ([other] if other is not None else []))])
                    try:
                        ok3, d3 = roundtrip_ok(cirq, S, norm, cc)
                    except Exception:
                        continue
                    if not ok3:
                        ctx.violation('circuit:symmetric-gate-qubit-order',
                                      f'{o!r} is interned with the equal operation {twin!r}; the moment that comes back is not == the original although its operations are pairwise equal: {circuit_literal(cc)}'[:1500],
                                      dict(kind='circuit', literal=circuit_literal(cc)))
                        return
    ctx.violation('circuit:roundtrip', f'{why}; c = {circuit_literal(c)}; got {None if got is None else circuit_literal(got)}'[:4000],
                  dict(kind='circuit', literal=circuit_literal(c)))


def special_circuits(cirq, cg):
    """Hand-picked cases run before the generated ones (the minimal inputs of the known findings among them)."""
    import sympy
    from cirq_google.ops import PhysicalZTag, FSimViaModelTag
    q0, q1, q2 = cirq.GridQubit(0, 0), cirq.GridQubit(0, 1), cirq.GridQubit(1, 1)
    t = sympy.Symbol('t')
    sub = cirq.FrozenCircuit(cirq.X(q0) ** t, cirq.CZ(q0, q1), cirq.measure(q0, key='m'))
    return [
        cirq.Circuit([cirq.Moment([cirq.X(q0)], tags=('a',)), cirq.Moment([cirq.X(q0)], tags=('b',))]),
        cirq.Circuit(cirq.CircuitOperation(cirq.FrozenCircuit(cirq.X(q0))).with_tags('t')),
        cirq.Circuit(cirq.Z(q0).with_tags('a', PhysicalZTag())),
        cirq.Circuit(cirq.FSimGate(0.1, 0.2).on(q0, q1).with_tags('a', FSimViaModelTag())),
        cirq.Circuit(cirq.measure(q0, key='m', confusion_map={(0,): np.array([[0.9, 0.1], [0.2, 0.8]])})),
        cirq.Circuit(cirq.depolarize(0.0).on(q0)),
        cirq.Circuit(cirq.Moment([cirq.CZ(q0, cirq.GridQubit(1, 0))]), cirq.Moment([cirq.CZ(cirq.GridQubit(1, 0), q0), cirq.X(cirq.GridQubit(0, 5))])),
        cirq.Circuit(cirq.measure(q0, key='m'), cirq.X(q1).with_classical_controls(sympy.Symbol('m'))),
        # equal operations written differently must share a constant and still come back equal
        cirq.Circuit(cirq.CZ(q0, q1), cirq.CZ(q1, q0), cirq.X(q0) ** 3, cirq.X(q0), cirq.X(q0) ** 1.0, cirq.X(q1).with_tags(1), cirq.X(q1).with_tags(True)),
        # unequal operations that collapse after float32 rounding keep separate constants
        cirq.Circuit(cirq.X(q0) ** 0.1, cirq.X(q0) ** (0.1 + 1e-12), cirq.X(q0) ** float(np.float32(0.1))),
        # one FrozenCircuit used three times with different payloads, and nested
        cirq.Circuit(cirq.CircuitOperation(sub), cirq.CircuitOperation(sub, repetitions=2),
                     cirq.CircuitOperation(sub, qubit_map={q0: q2}, measurement_key_map={'m': 'm2'}, param_resolver={'t': 0.25}),
                     cirq.CircuitOperation(cirq.FrozenCircuit(cirq.CircuitOperation(sub, repetitions=3), cirq.X(q2)))),
        cirq.Circuit(),
        cirq.Circuit(cirq.Moment(), cirq.Moment(), tags=['only tags']),
        cirq.Circuit(cirq.X(cirq.LineQubit(3)), cirq.Y(cirq.NamedQubit('nq')), cirq.CZ(cirq.LineQubit(3), cirq.GridQubit(2, 5))),
    ]


def qubit_special_circuits(cirq, cg):
    """One small program per kind of qubit and coordinate range (both sides of zero): top-level operations, a measurement
    and a sub-circuit mapped onto other qubits of the same kind.  Then the minimal inputs of finding circuit:qubit-id-ambiguous."""
    out = []
    for kind in QUBIT_KINDS:
        for a, b in ([(0, 0), (-1, -2), (-9, 3), (-3, -3), (-12, -10)] if 'named' not in kind else [(0, 0), (5, 0)]):
            qs = qubit_family(cirq, cg, kind, a, b)
            sub = cirq.FrozenCircuit(cirq.X(qs[0]) ** 0.25, cirq.CZ(qs[0], qs[1]))
            out.append(cirq.Circuit(cirq.X(qs[0]) ** 0.25, cirq.CZ(qs[0], qs[1]), cirq.PhasedXZGate(x_exponent=0.5, z_exponent=0.25, axis_phase_exponent=0.125)(qs[2]),
                                    cirq.ISWAP(qs[1], qs[2]) ** 0.5, cirq.CircuitOperation(sub, qubit_map={qs[0]: qs[3], qs[1]: qs[4]}, repetitions=2),
                                    cirq.CircuitOperation(sub), cirq.measure(*qs[5:], key='m')))
    for q in ambiguous_qubits(cirq, cg):
        out.append(cirq.Circuit(cirq.X(q)))
    return out


def circuits_stream(ctx, cirq, cg, n, shard=0):
    S = cg.CIRCUIT_SERIALIZER
    norm, nop, _ = make_norm(cirq, cg)
    V = Vocab(ctx, cirq, cg)
    rows = []
    todo = (special_circuits(cirq, cg) + qubit_special_circuits(cirq, cg) if shard == 0 else []) + [None] * n
    for case, c in enumerate(todo):
        if c is None:
            c = V.circuit()
        nops = sum(1 for _ in all_ops(cirq, c))
        try:
            msg = S.serialize(c)
        except Exception as e:
            if isinstance(e, ValueError) and 'confusion map' in str(e) and any(
                    cirq.is_measurement(o) and getattr(o.gate, 'confusion_map', None) for o in all_ops(cirq, c)):
                # the program format has no field for a confusion map: refused, not dropped (was finding circuit:measurement-confusion-map)
                ctx.count('circuit:rejected', repr(c), True, sample=dict(circuit=str(c)[:300], rejected=str(e)[:120]))
                continue
            explain_failure(ctx, cirq, S, norm, c, f'serialize raised {type(e).__name__}: {str(e)[:200]}')
            continue
        # the qubit constants carry the documented ids, one constant per qubit
        ids = [k_.qubit.id for k_ in msg.constants if k_.WhichOneof('const_value') == 'qubit']
        gate_qubits = {q_ for o in all_ops(cirq, c) if not is_circuit_op(cirq, o) for q_ in o.qubits}
        want_ids = sorted(spec_qubit_id(cirq, cg, q_) for q_ in gate_qubits)
        if sorted(ids) != want_ids:
            ctx.violation('circuit:qubit-id-format', f'the program lists the qubit ids {sorted(ids)}; the documented ids of its qubits {sorted(gate_qubits)!r} are {want_ids}'[:1500],
                          dict(kind='circuit', literal=circuit_literal(c)))
        try:
            ok, d = roundtrip_ok(cirq, S, norm, c)
            why = 'deserialize(serialize(c)) differs from c after float32 rounding'
        except Exception as e:
            ok, d, why = False, None, f'deserialize raised {type(e).__name__}: {str(e)[:200]}'
        shared = len(msg.constants) < 1 + nops + sum(len(o.qubits) + len(o.tags) for o in all_ops(cirq, c))
        feats = sorted({type(o.untagged.without_classical_controls().gate if isinstance(o.untagged, cirq.ClassicallyControlledOperation) else o.untagged.gate).__name__ for o in all_ops(cirq, c)})
        ctx.count('circuit:roundtrip', repr(c) + repr([m.tags for m in c.moments]), nops >= 3 and shared,
                  sample=dict(circuit=str(c)[:600], constants=len(msg.constants), operations=nops, gate_types=feats))
        if not ok:
            explain_failure(ctx, cirq, S, norm, c, why, d)
        # interning model: same index structure
        ad = Adapter(cirq)
        term = ad.circuit(c)
        sk, top = proto_skeleton(msg)
        rows.append((term, sk, top, c))
        ctx.count('circuit:constants_table', repr(c), shared and nops >= 3)
    nl = lambda xs: '[' + '; '.join(str(int(x)) for x in xs) + ']'
    text = ('From Coq Require Import ZArith List Bool.\nFrom VF Require Import Codec.Intern Base.Harness.\nImport ListNotations.\n'
            'Definition skel (c : constant Z Z Z Z) : nat * list nat * list nat * list nat :=\n'
            '  match c with CQ _ => (0, [], [], []) | CT _ => (1, [], [], []) | COp _ q t => (2, q, t, [])\n'
            '  | CMom o c t => (3, o, map snd c, t) | CCir m t => (4, m, t, []) end.\n'
            'Definition sk_eqb (a b : nat * list nat * list nat * list nat) : bool :=\n'
            '  match a, b with (k, x, y, z), (k2, x2, y2, z2) => Nat.eqb k k2 && nl_eqb x x2 && nl_eqb y y2 && nl_eqb z z2 end.\n'
            'Definition ser (c : circuit Z Z Z Z) := serialize Z.eqb Z.eqb Z.eqb Z.eqb c.\n'
            'Definition agree (c : circuit Z Z Z Z) (sk : list (nat * list nat * list nat * list nat)) (top : list nat * list nat) : bool :=\n'
            '  let m := ser c in list_eqb sk_eqb (map skel (fst m)) sk && nl_eqb (fst (snd m)) (fst top) && nl_eqb (snd (snd m)) (snd top)\n'
            '  && backward m.\n')
    sk_lit = lambda sk: '[' + '; '.join(f'({k}, {nl(a)}, {nl(b)}, {nl(c_)})' for k, a, b, c_ in sk) + ']'
    text += 'Open Scope Z_scope.\nDefinition cases : list (circuit Z Z Z Z * list (nat * list nat * list nat * list nat) * (list nat * list nat)) := [\n'
    text += ';\n'.join(f'({term}, {sk_lit(sk)}%nat, ({nl(top[0])}, {nl(top[1])})%nat)' for term, sk, top, _ in rows) + '].\n'
    text += 'Eval vm_compute in failing (fun c => match c with (t, sk, top) => agree t sk top end) cases.\n'
    vals = coq.parse_evals(coq.coq_eval(f'c16_circuits_{ctx.seed}_{shard}', text))
    for idx in coq.parse_nat_list(vals[0]):
        term, sk, top, c = rows[idx]
        detail = f'constants table differs from the interning model for {c!r}; table skeleton {sk} top {top}'[:3000]
        twins = symmetric_order_moments(cirq, c)
        if twins:
            # equal operations, unequal moments: the recorded defect of Moment equality; the model (moments = lists of operations
            # with a decidable equality) has one constant where the implementation has two
            ctx.disagree('correspondence:constants_table', detail, 'circuit:symmetric-gate-qubit-order',
                         f'the moments {twins[0]!r} and {twins[1]!r} hold equal operations but are not equal as moments (operations are sorted by their qubits as written), '
                         f'so the program keeps two moment constants for them', dict(kind='circuit', literal=circuit_literal(c)))
        else:
            ctx.mark_broken('correspondence:constants_table', detail)


def all_moments(cirq, c):
    for m in c.moments:
        yield m
        for o in m.operations:
            u = o.untagged
            inner = u.without_classical_controls() if isinstance(u, cirq.ClassicallyControlledOperation) else u
            if isinstance(inner, cirq.CircuitOperation):
                yield from all_moments(cirq, inner.circuit)


def symmetric_order_moments(cirq, c):
    """Two moments of c (at any depth) with the same tags and pairwise equal operations that Moment equality tells apart."""
    ms = list(all_moments(cirq, c))
    for i, a in enumerate(ms):
        for b in ms[i + 1:]:
            if a != b and tuple(a.tags) == tuple(b.tags) and len(a.operations) == len(b.operations):
                try:
                    if set(a.operations) == set(b.operations):
                        return a, b
                except TypeError:
                    pass
    return None


def qid_lit(cirq, cg, q):
    if isinstance(q, cirq.GridQubit):
        return f'(Grid {coq.zlit(q.row)} {coq.zlit(q.col)})'
    if isinstance(q, cirq.LineQubit):
        return f'(Line {coq.zlit(q.x)})'
    if isinstance(q, cirq.NamedQubit):
        return f'(Named {coq.zlist(ord(ch) for ch in q.name)})'
    return f'(Coupler {qid_lit(cirq, cg, q.qubit0)} {qid_lit(cirq, cg, q.qubit1)})'


def ambiguous_qubits(cirq, cg):
    L, G, N = cirq.LineQubit, cirq.GridQubit, cirq.NamedQubit
    return [N('3'), N('-3'), N('1_2'), N('q1_2'), N('c_a_b'), N('c_1_2'), N('c_0_0_0_1'), N('+3'), cg.Coupler(G(-1, 1), L(2)), cg.Coupler(N('a_b'), N('c')),
            cg.Coupler(cg.Coupler(L(0), L(1)), cg.Coupler(L(1), L(2)))]


def qubit_ids_stream(ctx, cirq, cg, v2, n):
    """qubit_to_proto_id / qubit_from_proto_id against Codec/QubitId.v and against the documented forms: every kind of qubit
    over a grid of coordinates on both sides of zero (and far from it), then strings near and far from valid ids."""
    rng = ctx.rng
    L, G, N, C = cirq.LineQubit, cirq.GridQubit, cirq.NamedQubit, cg.Coupler
    big = [10 ** 6, -10 ** 9, 123456789012345678901, -98765432109876543210]
    coords = list(range(-12, 13)) + [99, -100, 1000]
    qs = [L(x) for x in coords + big]
    qs += [G(r, c) for r in range(-3, 4) for c in range(-3, 4)] + [G(rng.choice(coords + big), rng.choice(coords + big)) for _ in range(40)]
    qs += [N(nm) for nm in SAFE_NAMES + SAFE_UNDERSCORE_NAMES]
    qs += [C(L(x), L(x + 1)) for x in range(-6, 6)] + [C(L(rng.choice(coords + big)), L(rng.choice(coords))) for _ in range(20)]
    qs += [C(G(r, c), G(r, c + 1)) for r in range(-2, 3) for c in range(-2, 2)] + [C(G(rng.choice(coords), rng.choice(coords)), G(rng.choice(coords + big), rng.choice(coords))) for _ in range(20)]
    nm = [x for x in SAFE_NAMES if x != 'c']
    qs += [C(N(a), N(b)) for a, b in zip(nm, nm[1:])]
    qs = [q for q in dict.fromkeys(qs) if not (isinstance(q, C) and q.qubit0 == q.qubit1)]
    rows_to, strings = [], []
    for q in qs + ambiguous_qubits(cirq, cg):
        in_vocab = qubit_in_vocabulary(cirq, cg, q)
        ident = v2.qubit_to_proto_id(q)
        back = v2.qubit_from_proto_id(ident)
        rows_to.append((qid_lit(cirq, cg, q), [ord(ch) for ch in ident], q))
        strings.append(ident)
        ctx.count('qubit_id:to_from', repr(q), not isinstance(q, N) and ('-' in ident), sample=dict(qubit=repr(q), id=ident, back=repr(back)))
        rp = dict(kind='qubit', repr=repr(q))
        if ident != spec_qubit_id(cirq, cg, q):
            ctx.violation('qubit_id:format', f'qubit_to_proto_id({q!r}) = {ident!r}; the documented id is {spec_qubit_id(cirq, cg, q)!r}', rp)
        elif back != q:
            ctx.violation('qubit_id:roundtrip:' + type(q).__name__ if in_vocab else 'circuit:qubit-id-ambiguous',
                          f'qubit_from_proto_id(qubit_to_proto_id(q)) = {back!r} for q = {q!r} (id {ident!r})', rp)
    alphabet = ['0', '1', '2', '9', '-', '-', '_', '_', 'c', 'q', 'a', '+', ' ', '\n', '\t']
    for _ in range(n):
        r = rng.random()
        if r < 0.5:            # a valid id with one character inserted, replaced or removed
            t = list(rng.choice(strings))
            i = rng.randrange(len(t) + 1)
            k = rng.choice(['ins', 'rep', 'del'])
            if k == 'ins' or not t or i == len(t):
                t.insert(i, rng.choice(alphabet))
            elif k == 'rep':
                t[i] = rng.choice(alphabet)
            else:
                del t[i]
            strings.append(''.join(t))
        elif r < 0.75:         # fields of signed numbers / letters joined by '_', with or without the coupler prefix
            fields = [rng.choice(['0', '7', '-1', '12', '-30', 'a', 'q1', 'q-2', '', 'c', '+4', ' 5', '1x']) for _ in range(rng.choice([1, 2, 2, 3, 4, 4, 5]))]
            strings.append(rng.choice(['', 'c_', 'c_', 'q']) + '_'.join(fields))
        else:
            strings.append(''.join(rng.choice(alphabet) for _ in range(rng.randint(0, 9))))
    rows_from = []
    for st in dict.fromkeys(strings):
        got = v2.qubit_from_proto_id(st)
        rows_from.append(([ord(ch) for ch in st], qid_lit(cirq, cg, got), st, got))
        want = spec_qubit_of_id(cirq, cg, st)
        ctx.count('qubit_id:from', st, '_' in st or '-' in st, sample=dict(id=st, qubit=repr(got)))
        if want is not None and want != got:
            ctx.violation('qubit_id:from:' + type(want).__name__, f'qubit_from_proto_id({st!r}) = {got!r}; by the documented forms of an id it denotes {want!r}', dict(kind='qubit_id', id=st))
    text = ('From Coq Require Import ZArith List Bool.\nFrom VF Require Import Codec.QubitId Base.Harness.\nImport ListNotations.\nOpen Scope Z_scope.\n')
    text += 'Definition c_to : list (qid * list Z) := [\n' + ';\n'.join(f'({ql}, {coq.zlist(i_)})' for ql, i_, _ in rows_to) + '].\n'
    text += 'Eval vm_compute in failing (fun c => str_eqb (to_id (fst c)) (snd c)) c_to.\n'
    text += 'Definition c_from : list (list Z * qid) := [\n' + ';\n'.join(f'({coq.zlist(i_)}, {ql})' for i_, ql, _, _ in rows_from) + '].\n'
    text += 'Eval vm_compute in failing (fun c => qid_eqb (from_id (fst c)) (snd c)) c_from.\n'
    vals = coq.parse_evals(coq.coq_eval(f'c16_qubit_ids_{ctx.seed}', text))
    assert len(vals) == 2, vals
    for idx in coq.parse_nat_list(vals[0]):
        ctx.mark_broken('correspondence:qubit_to_proto_id', f'model and implementation differ on {rows_to[idx][2]!r}: id {"".join(map(chr, rows_to[idx][1]))!r}')
    for idx in coq.parse_nat_list(vals[1]):
        ctx.mark_broken('correspondence:qubit_from_proto_id', f'model and implementation differ on the id {rows_from[idx][2]!r}: implementation gives {rows_from[idx][3]!r}')


# ------------------------------------------------------------------ sweeps and run contexts
def f32(x):
    return float(np.float32(x))


# values that carry a unit (tunits): the format stores a magnitude (float32, or float64 on request) next to a unit
UNIT_FAMILIES = [('ns', 'us', 'ms'), ('MHz', 'GHz', 'kHz'), ('mV', 'V', 'uV')]
REL32, REL64 = 2.0 ** -22, 1e-12          # one single-precision rounding of a magnitude (with slack for the unit conversion) / double precision


def united(v):
    import tunits
    return isinstance(v, tunits.Value)


class Q:
    """A quantity with a unit inside a description.  Two of them are equal when they are compatible physical quantities that
    agree up to the rounding the format is entitled to (rel, relative to the larger of the two and of `scale`, the largest
    magnitude the parameter takes in the sweep: an interpolated point inherits the error of the end points)."""
    __hash__ = None

    def __init__(self, v, rel=0.0, scale=0.0):
        self.v, self.rel, self.scale = v, rel, scale

    def __eq__(self, o):
        if not isinstance(o, Q):
            return False
        try:
            o.v[self.v.unit]
        except Exception:
            return False                   # another dimension
        a, b = self.v.value_in_base_units(), o.v.value_in_base_units()
        return abs(a - b) <= max(self.rel, o.rel) * max(abs(a), abs(b), self.scale, o.scale)

    def __ne__(self, o):
        return not self.__eq__(o)

    def __repr__(self):
        return f'{self.v.value!r} {self.v.unit}'


def value_literal(v):
    return f'tunits.Value({v.value!r}, {str(v.unit)!r})' if united(v) else repr(v)


def metadata_literal(md):
    if md is None or not hasattr(md, 'device_parameters'):
        return repr(md)
    return (f'cirq_google.study.Metadata(device_parameters={md.device_parameters!r}, is_const={md.is_const!r}, label={md.label!r}, unit={md.unit!r})')


def sweep_literal(cirq, s):
    """An expression that evaluates to the sweep (repr() of values with units and of Metadata is not evaluable)."""
    if s is cirq.UnitSweep:
        return 'cirq.UnitSweep'
    if isinstance(s, cirq.ListSweep):
        return 'cirq.ListSweep([' + ', '.join('{' + ', '.join(f'{str(k)!r}: {value_literal(v)}' for k, v in pr.param_dict.items()) + '}' for pr in s) + '])'
    for cls, attr in ((cirq.Product, 'factors'), (cirq.ZipLongest, 'sweeps'), (cirq.Zip, 'sweeps'), (cirq.Concat, 'sweeps')):
        if isinstance(s, cls):
            return f'cirq.{cls.__name__}(' + ', '.join(sweep_literal(cirq, f) for f in getattr(s, attr)) + ')'
    if isinstance(s, cirq.Linspace):
        return f'cirq.Linspace({s.key!r}, {value_literal(s.start)}, {value_literal(s.stop)}, {s.length}, metadata={metadata_literal(s.metadata)})'
    if isinstance(s, cirq.Points):
        return f'cirq.Points({s.key!r}, [{", ".join(value_literal(x) for x in s.points)}], metadata={metadata_literal(s.metadata)})'
    return repr(s).replace(repr(s.metadata), metadata_literal(s.metadata)) if getattr(s, 'metadata', None) is not None else repr(s)


def gen_metadata(ctx, cg):
    rng = ctx.rng
    from cirq_google.study import DeviceParameter, Metadata
    r = rng.random()
    if r < 0.6:
        return None
    path = lambda: rng.choice([['q', 'freq'], ['a'], ['x', 'y', 'z']])
    if r < 0.85:
        return DeviceParameter(path=path(), idx=rng.choice([None, None, 0, 3]), units=rng.choice([None, 'GHz', 'ns']))
    dps = [DeviceParameter(path=path(), idx=rng.choice([None, 0, 2])) for _ in range(rng.choice([0, 1, 1, 2]))]
    return Metadata(device_parameters=dps or None, label=rng.choice([None, None, 'lbl', '']), is_const=rng.random() < 0.3, unit=rng.choice([None, None, 'ns', 'MHz']))


def gen_united_sweep(ctx, cirq, key, md):
    """A single sweep whose values carry units: the end points / points are given in any units of one dimension."""
    import tunits
    rng = ctx.rng
    fam = rng.choice(UNIT_FAMILIES)
    unit = lambda: getattr(tunits, rng.choice(fam))
    mag = lambda: rng.choice([rng.choice([0.1, 0.5, 1, 2, 20, 250, 500, 1 / 3, 0.0, -1.5]), round(rng.uniform(-50, 50), rng.choice([0, 2, 9]))])
    r = rng.random()
    if r < 0.5:
        return cirq.Linspace(key, mag() * unit(), mag() * unit(), rng.choice([1, 2, 4, 5]), metadata=md)
    if r < 0.85:
        return cirq.Points(key, [mag() * unit() for _ in range(rng.choice([2, 3, 5]))], metadata=md)
    return cirq.Points(key, [mag() * unit()], metadata=md)


def unit_special_sweeps(cirq):
    """The grid run for every seed: a linear sweep between end points given in every pair of units of a dimension, in both
    directions, alone and inside Product / Zip / Concat; points in mixed units; a single value with a unit."""
    import tunits
    out = []
    for fam in UNIT_FAMILIES:
        us = [getattr(tunits, n) for n in fam]
        for u1 in us:
            for u2 in us:
                out.append(cirq.Linspace('t', 0.75 * u1, 1.5 * u2, 4))
                out.append(cirq.Linspace('t', 0.1 * u1, -250 * u2, 3))
        a, b = us[0], us[1]
        out += [cirq.Points('t', [20 * a, 1 * b, 0.1 * a]), cirq.Points('t', [3 * b]), cirq.Points('t', [0.1 * b]),
                cirq.Product(cirq.Linspace('t', 100 * a, 1 * b, 3), cirq.Points('a', [0.25, 0.5])),
                cirq.Zip(cirq.Linspace('f', 4 * b, 4500 * a, 3), cirq.Linspace('a', 0.0, 1.0, 3)),
                cirq.Concat(cirq.Linspace('t', 1 * a, 9 * a, 3), cirq.Linspace('t', 10 * a, 1 * b, 3)),
                cirq.ListSweep([{'t': 1 * a, 'a': 0.5}, {'t': 1 * b, 'a': 0.1}])]
    return out


def gen_single_sweep(ctx, cirq, cg, key):
    rng = ctx.rng
    md = gen_metadata(ctx, cg)
    r = rng.random()
    if r < 0.25:
        return gen_united_sweep(ctx, cirq, key, md)
    r = rng.random()
    if r < 0.35:
        n = rng.choice([2, 3, 5])
        pts = [rng.choice([round(rng.uniform(-3, 3), rng.choice([1, 4, 12])), rng.randint(-5, 5), 0.1, 1 / 3]) for _ in range(n)]
        return cirq.Points(key, pts, metadata=md)
    if r < 0.55:
        return cirq.Points(key, [rng.choice([0.1, 2, -7, 0.0, 1e-9, None, 'label', 2.5])], metadata=md)
    if r < 0.85:
        return cirq.Linspace(key, rng.choice([0, 0.1, -1.5, 0.0]), rng.choice([1, 0.7, 2.5, 0.0]), rng.choice([1, 2, 5]), metadata=md)
    return cg.study.FiniteRandomVariable(key, distribution={0.1: 0.25, 2.0: 0.5, -1.0: 0.25}, length=rng.choice([1, 4]), seed=rng.randint(0, 9), metadata=md)


def gen_sweep(ctx, cirq, cg, keys, depth=0):
    rng = ctx.rng
    if depth >= 2 or len(keys) == 1 or rng.random() < 0.3:
        r = rng.random()
        if r < 0.08:
            return cirq.UnitSweep
        if r < 0.2 and depth == 0:
            n = rng.choice([1, 2, 3])
            ks = keys[:rng.choice([1, 2])]
            if rng.random() < 0.15 and len(keys) >= 2:      # resolvers with different key sets: known finding sweep:listsweep-heterogeneous
                return cirq.ListSweep([{keys[0]: 1}, {keys[1]: 2}])
            if rng.random() < 0.25:
                import tunits
                fam = rng.choice(UNIT_FAMILIES)
                return cirq.ListSweep([{k: rng.choice([0.5, 1, 0.1, -2, 250]) * getattr(tunits, rng.choice(fam)) if k == ks[0] else rng.choice([0.5, 1, 0.1]) for k in ks} for _ in range(n)])
            return cirq.ListSweep([{k: rng.choice([0.5, 1, 0.1, -2]) for k in ks} for _ in range(n)])
        if r < 0.3:
            a, b = gen_single_sweep(ctx, cirq, cg, keys[0]), gen_single_sweep(ctx, cirq, cg, keys[0])
            return cirq.Concat(a, b)
        return gen_single_sweep(ctx, cirq, cg, keys[0])
    cut = rng.randint(1, len(keys) - 1)
    a, b = gen_sweep(ctx, cirq, cg, keys[:cut], depth + 1), gen_sweep(ctx, cirq, cg, keys[cut:], depth + 1)
    return rng.choice([cirq.Zip, cirq.ZipLongest, cirq.Product, cirq.Product])(a, b)


def md_desc(md):
    if md is None:
        return None
    if hasattr(md, 'device_parameters'):          # Metadata
        return ('metadata', None if md.device_parameters is None else [(list(d.path), d.idx, d.units) for d in md.device_parameters], md.label, bool(md.is_const), md.unit)
    return (list(md.path), md.idx, md.units)


def without_metadata_dp_units(desc):
    """desc with the units of the device parameters listed in a Metadata erased."""
    if isinstance(desc, tuple) and desc and desc[0] == 'metadata':
        return ('metadata', None if desc[1] is None else [(p_, i_, None) for p_, i_, _ in desc[1]]) + desc[2:]
    if isinstance(desc, (tuple, list)):
        return type(desc)(without_metadata_dp_units(x) for x in desc)
    return desc


def sweep_desc(cirq, s, float64):
    """Specification-level description of a sweep: structure, keys, values (float32 unless float64), metadata.  Values with a
    unit are kept as quantities (class Q): which unit the magnitude is stored in is the format's business."""
    rel = REL64 if float64 else REL32
    r0 = (lambda x: x) if float64 else (lambda x: f32(x) if isinstance(x, (int, float)) and not isinstance(x, bool) else x)
    r = lambda x: Q(x, rel) if united(x) else r0(x)
    num = lambda x: x if isinstance(x, Q) else float(x)
    if s is cirq.UnitSweep:
        return ('unit',)
    if isinstance(s, cirq.ListSweep):
        return ('list', [sorted((str(k), r(v)) for k, v in pr.param_dict.items()) for pr in s])
    if isinstance(s, cirq.Product):
        return ('product', [sweep_desc(cirq, f, float64) for f in s.factors])
    if isinstance(s, cirq.ZipLongest):
        return ('ziplongest', [sweep_desc(cirq, f, float64) for f in s.sweeps])
    if isinstance(s, cirq.Zip):
        return ('zip', [sweep_desc(cirq, f, float64) for f in s.sweeps])
    if isinstance(s, cirq.Concat):
        return ('concat', [sweep_desc(cirq, f, float64) for f in s.sweeps])
    mdd = md_desc(getattr(s, 'metadata', None))
    if isinstance(s, cirq.Linspace):
        return ('linspace', s.key, num(r(s.start)), num(r(s.stop)), s.length, mdd)
    if isinstance(s, cirq.Points):
        pts = list(s.points)
        if len(pts) == 1 and isinstance(pts[0], int):
            return ('points', s.key, pts, mdd)         # a single int is kept exact (const int_value)
        return ('points', s.key, [num(r(x)) if isinstance(x, (int, float)) or united(x) else x for x in pts], mdd)
    return ('frv', s.key, sorted((float(k), float(v)) for k, v in s.distribution.items()), s.length, s.seed, mdd)


def round_sweep(cirq, s, float64):
    """The sweep the receiver is entitled to: the same structure with the stored numbers rounded to float32."""
    if float64 or s is cirq.UnitSweep:
        return s
    r = lambda x: f32(x) if isinstance(x, (int, float)) and not isinstance(x, bool) else x
    if isinstance(s, cirq.ListSweep):
        return cirq.ListSweep([{k: r(v) for k, v in pr.param_dict.items()} for pr in s])
    if isinstance(s, cirq.Product):
        return cirq.Product(*[round_sweep(cirq, f, float64) for f in s.factors])
    if isinstance(s, cirq.ZipLongest):
        return cirq.ZipLongest(*[round_sweep(cirq, f, float64) for f in s.sweeps])
    if isinstance(s, cirq.Zip):
        return cirq.Zip(*[round_sweep(cirq, f, float64) for f in s.sweeps])
    if isinstance(s, cirq.Concat):
        return cirq.Concat(*[round_sweep(cirq, f, float64) for f in s.sweeps])
    if isinstance(s, cirq.Linspace):
        return cirq.Linspace(s.key, r(s.start), r(s.stop), s.length, metadata=s.metadata)
    if isinstance(s, cirq.Points):
        pts = list(s.points)
        return s if len(pts) == 1 and isinstance(pts[0], int) else cirq.Points(s.key, [r(x) for x in pts], metadata=s.metadata)
    return s


def sweep_values(sw, rel=0.0):
    """The parameter assignments a sweep yields; quantities with units are compared as such (see Q)."""
    rows = [sorted(((str(k), v) for k, v in t), key=lambda kv: kv[0]) for t in sw.param_tuples()]
    scale = {}
    for row in rows:
        for k, v in row:
            if united(v):
                scale[k] = max(scale.get(k, 0.0), abs(v.value_in_base_units()))
    conv = lambda k, v: Q(v, rel, scale[k]) if united(v) else (float(v) if isinstance(v, (int, float)) and not isinstance(v, bool) else v)
    return [[(k, conv(k, v)) for k, v in row] for row in rows]


def expected_values(cirq, s, f64):
    """The assignments the receiver is entitled to: stored numbers rounded to float32 unless float64 was asked for."""
    return sweep_values(round_sweep(cirq, s, f64), REL64 if f64 else REL32)


def hetero_listsweep(cirq, s):
    return isinstance(s, cirq.ListSweep) and len({tuple(sorted(map(str, pr.param_dict))) for pr in s}) > 1


def unit_values_stream(ctx, cirq, cg, v2, n):
    """What sweep_to_proto stores for values with units, against Codec/UnitValues.v: the magnitudes of all values in the unit
    of the first one; and the values read back, as physical quantities against the originals."""
    import math
    import tunits
    from fractions import Fraction
    rng = ctx.rng

    def qlit(x):
        fr = Fraction(x)
        return f'(({fr.numerator})%Z # {fr.denominator})'

    def exp10(unit_value):
        return round(math.log10(unit_value.value_in_base_units()))

    def quant(v):
        return f'({qlit(v.value)}, ({exp10(1 * v.unit)})%Z)'

    singles = [s for s in unit_special_sweeps(cirq) if isinstance(s, (cirq.Linspace, cirq.Points))]
    singles += [gen_united_sweep(ctx, cirq, 't', None) for _ in range(n)]
    rows = []
    for s in singles:
        for f64 in (False, True):
            msg = v2.sweep_to_proto(s, use_float64=f64).single_sweep
            which = msg.WhichOneof('sweep')
            if which == 'linspace':
                vals = [s.start, s.stop]
                stored = [msg.linspace.first_point_double, msg.linspace.last_point_double] if f64 else [msg.linspace.first_point, msg.linspace.last_point]
                unit = tunits.Value.from_proto(msg.linspace.unit)
            elif which == 'points':
                vals = list(s.points)
                stored = list(msg.points.points_double if f64 else msg.points.points)
                unit = tunits.Value.from_proto(msg.points.unit)
            else:
                vals = list(s.points)
                one = tunits.Value.from_proto(msg.const_value.with_unit_value)
                stored, unit = [one.value], 1 * one.unit
            d = v2.sweep_from_proto(v2.sweep_to_proto(s, use_float64=f64))
            back = [d.start, d.stop] if isinstance(d, cirq.Linspace) else list(d.points)
            mixed = len({str(v.unit) for v in vals}) > 1
            ctx.count('unit_values', [sweep_literal(cirq, s), f64], mixed, sample=dict(sweep=sweep_literal(cirq, s), float64=f64, stored=stored, unit=str(unit)))
            if not all(united(b) for b in back):
                back = []
            rows.append(('[' + '; '.join(quant(v) for v in vals) + ']', '[' + '; '.join(qlit(x) for x in stored) + ']', exp10(unit),
                         '(4194304 # 1)' if not f64 else '(1000000000000 # 1)', '[' + '; '.join(quant(b) for b in back) + ']', s, f64))
    text = ('From Coq Require Import ZArith QArith List Bool.\nFrom VF Require Import Codec.UnitValues Base.Harness.\nImport ListNotations.\n')
    text += 'Definition cases : list (list quantity * list Q * Z * Q * list quantity) := [\n' + ';\n'.join(
        f'({vs}, {st}, ({k})%Z, {b}, {bk})' for vs, st, k, b, bk, _, _ in rows) + '].\n'
    text += 'Eval vm_compute in failing (fun c => match c with (vs, st, k, b, bk) => agrees b vs st k && phys_agrees b vs bk end) cases.\n'
    vals_ = coq.parse_evals(coq.coq_eval(f'c16_unit_values_{ctx.seed}', text))
    assert len(vals_) == 1, vals_
    for idx in coq.parse_nat_list(vals_[0]):
        ctx.mark_broken('correspondence:unit_values', f'stored magnitudes / decoded values differ from the model for {sweep_literal(cirq, rows[idx][5])} (use_float64={rows[idx][6]}): stored {rows[idx][1]} with unit 10^{rows[idx][2]}')


def sweeps_stream(ctx, cirq, cg, v2, n):
    import gzip
    import tunits
    from cirq_google.api.v2 import run_context_pb2
    rng = ctx.rng
    from cirq_google.study import DeviceParameter
    specials = [cirq.Points('a', [0.1, 0.2], metadata=DeviceParameter(path=['x', 'y'], idx=0)),
                cg.study.FiniteRandomVariable('a', distribution={0.1: 0.25, 2.0: 0.5, -1.0: 0.25}, seed=0, length=8),
                cirq.ListSweep([{'a': 1}, {'b': 2}]), cirq.ListSweep([{'a': 1, 'b': 0.1}, {'a': 2, 'b': 0.2}]), cirq.UnitSweep,
                cirq.Zip(cirq.Points('a', [1, 2, 3]), cirq.Points('b', [0.5, 0.25])), cirq.ZipLongest(cirq.Points('a', [1, 2, 3]), cirq.Points('b', [0.5, 0.25])),
                cirq.Product(cirq.Zip(cirq.Points('a', [1, 2]), cirq.Points('b', [3, 4])), cirq.Linspace('c', 0, 1, 3)),
                cirq.Concat(cirq.Points('a', [1, 2]), cirq.Linspace('a', 0, 1, 3))]
    from cirq_google.study import Metadata
    specials += [cirq.Points('a', [0.1, 0.2], metadata=Metadata(device_parameters=[DeviceParameter(path=['x', 'y'], idx=0), DeviceParameter(path=['z'])], label='lbl', is_const=True, unit='ns')),
                 cirq.Linspace('a', 0, 1, 3, metadata=Metadata()),
                 cirq.Points('a', [0.1, 0.2], metadata=Metadata(device_parameters=[DeviceParameter(path=['x'], idx=1, units='GHz')]))]
    specials += unit_special_sweeps(cirq)
    todo = [(sp, f64_) for sp in specials for f64_ in (False, True)] + [(None, None)] * n      # every special in both precisions
    for case, (s, f64) in enumerate(todo):
        special = s is not None
        keys = rng.sample(['a', 'b', 'c', 'theta'], rng.choice([1, 2, 3]))
        if not special:
            s = gen_sweep(ctx, cirq, cg, keys)
            f64 = rng.random() < 0.3
        rp = dict(kind='sweep', repr=sweep_literal(cirq, s), float64=f64)
        try:
            d = v2.sweep_from_proto(v2.sweep_to_proto(s, use_float64=f64))
        except Exception as e:
            if isinstance(e, ValueError) and hetero_listsweep(cirq, s):
                # not expressible as a zip of per-key points: refused, nothing is changed silently (was finding sweep:listsweep-heterogeneous)
                ctx.count('sweep:rejected', repr(s), True, sample=dict(sweep=repr(s), rejected=str(e)[:120]))
                continue
            ctx.violation('sweep:raises:' + type(e).__name__, f'sweep round trip raised {type(e).__name__}: {e} on {s!r}', rp)
            continue
        exp, got = sweep_desc(cirq, s, f64), sweep_desc(cirq, d, True)
        nontriv = not isinstance(s, (cirq.Points, cirq.Linspace)) and s is not cirq.UnitSweep and len(s) > 1
        ctx.count('sweep:roundtrip', [repr(s), f64], nontriv, sample=dict(sweep=repr(s), float64=f64, back=repr(d)))
        if isinstance(s, cirq.ListSweep):
            # a ListSweep travels as a Zip of Points: the parameter assignments are what must survive
            e_res, g_res = sweep_desc(cirq, s, f64)[1], sweep_desc(cirq, cirq.ListSweep(d), True)[1]
            if e_res != g_res:
                hetero = len({tuple(sorted(map(str, pr.param_dict))) for pr in s}) > 1
                ctx.violation('sweep:listsweep-heterogeneous' if hetero else 'sweep:listsweep', f'{s!r} comes back as {d!r} with assignments {g_res}, expected {e_res}', rp)
            continue
        if exp != got:
            sig = 'sweep:roundtrip'
            if 'idx=0' in repr(s) and str(exp).replace("'], 0, ", "'], None, ") == str(got):
                sig = 'sweep:device-parameter-idx-zero'
            elif without_metadata_dp_units(exp) == got:
                sig = 'sweep:metadata-device-parameter-units'
            ctx.violation(sig, f'sweep_from_proto(sweep_to_proto(s, use_float64={f64})) = {d!r} ({got}); expected {exp} for s = {s!r}', rp)
        else:
            if isinstance(s, cg.study.FiniteRandomVariable) and len(s.distribution) > 1:
                # the wire format is a map: its order is unspecified (and differs from run to run), so every ordering of the
                # distribution is a legitimate decoding; all of them compare equal and must then yield the same values
                alt = cg.study.FiniteRandomVariable(s.key, distribution=dict(reversed(list(s.distribution.items()))), seed=s.seed, length=s.length, metadata=s.metadata)
                if alt == s and sweep_values(alt) != sweep_values(s):
                    ctx.violation('sweep:finite-random-variable-order',
                                  f'{s!r} and the same sweep with its distribution listed in another order (what a decoded proto map may give) are equal but yield '
                                  f'{sweep_values(s)} and {sweep_values(alt)}', rp)
            e_vals, g_vals = expected_values(cirq, s, f64), sweep_values(d)
            if e_vals != g_vals:
                sig = 'sweep:finite-random-variable-order' if 'FiniteRandomVariable' in repr(s) else ('sweep:values-with-units' if 'Value(' in sweep_literal(cirq, s) else 'sweep:values')
                ctx.violation(sig, f'the decoded sweep is equal in structure but yields other parameter values: {g_vals} instead of {e_vals} for {s!r} -> {d!r}', rp)
        # ---- run context: sweepable + repetitions
        if special or rng.random() < 0.5:
            kind = 'sweep' if special else rng.choice(['none', 'dict', 'dicts', 'sweep', 'sweeps', 'resolver', 'dict_units'])
            sweepable = {'none': None, 'dict': {'a': 0.5, 'b': 2}, 'dicts': [{'a': 0.5}, {'a': 0.25, 'b': 1}], 'sweep': s,
                         'sweeps': [s, gen_sweep(ctx, cirq, cg, keys)], 'resolver': cirq.ParamResolver({'a': 0.1}),
                         'dict_units': {'a': 0.5, 't': 0.1 * tunits.us}}[kind]
            nsw = len(cirq.to_sweeps(sweepable))
            reps = rng.choice([rng.randint(1, 1000), [rng.randint(1, 50) for _ in range(nsw)], [5, 6, 7] if nsw == 1 else [1] * (nsw + 1)])
            compress = rng.random() < 0.3
            try:
                rc = v2.run_context_to_proto(sweepable, reps, compress_proto=compress, use_float64=f64)
                if compress:
                    rc = run_context_pb2.RunContext.FromString(gzip.decompress(rc.compressed_run_context))
                got_reps = [ps.repetitions for ps in rc.parameter_sweeps]
                got_sw = [v2.sweep_from_proto(ps.sweep) for ps in rc.parameter_sweeps]
            except ValueError:
                got_reps = got_sw = None
            sl = cirq.to_sweeps(sweepable)
            if isinstance(reps, list):
                if len(sl) == 1 and len(reps) > 1:
                    sl = sl * len(reps)
                exp_reps = reps if len(sl) == len(reps) else None
            else:
                exp_reps = [reps] * len(sl)
            if any(hetero_listsweep(cirq, e) for e in sl):
                exp_reps = None          # refused by sweep_to_proto
            ok = (got_reps is None) == (exp_reps is None) and (got_reps is None or (
                got_reps == exp_reps and [sweep_values(g) for g in got_sw] == [expected_values(cirq, e, f64) for e in sl]))
            ctx.count('run_context', [kind, repr(sweepable), repr(reps), compress, f64], isinstance(reps, list) and len(reps) > 1,
                      sample=dict(sweepable=repr(sweepable)[:300], repetitions=reps, compressed=compress, decoded_repetitions=got_reps))
            if not ok:
                # is it the run context, or one of its sweeps on its own (a known sweep-level finding)?
                sig = 'run_context:roundtrip'
                if got_reps == exp_reps and got_sw is not None and len(got_sw) == len(sl):
                    sigs = set()
                    for e, g in zip(sl, got_sw):
                        if sweep_values(g) == expected_values(cirq, e, f64):
                            continue
                        if isinstance(e, cirq.ListSweep):
                            sigs.add('sweep:listsweep-heterogeneous' if len({tuple(sorted(map(str, pr.param_dict))) for pr in e}) > 1 else 'run_context:roundtrip')
                        elif 'FiniteRandomVariable' in repr(e) and sweep_desc(cirq, g, True) == sweep_desc(cirq, e, f64):
                            sigs.add('sweep:finite-random-variable-order')
                        else:
                            sigs.add('run_context:roundtrip')
                    if len(sigs) == 1:
                        sig = sigs.pop()
                ctx.violation(sig, f'run_context_to_proto({sweepable!r}, {reps}) decodes to repetitions {got_reps} and sweeps {got_sw!r}', dict(rp, sweepable=repr(sweepable), repetitions=reps))


# ------------------------------------------------------------------ multi-program and circuit-function forms
def multi_stream(ctx, cirq, cg, n):
    S = cg.CIRCUIT_SERIALIZER
    norm, _, _ = make_norm(cirq, cg)
    V = Vocab(ctx, cirq, cg)
    rng = ctx.rng
    import sympy
    for case in range(n):
        cs = [V.circuit(allow_known=False) for _ in range(rng.choice([1, 2, 3]))]
        if len(cs) > 1 and rng.random() < 0.5:
            cs.append(cs[0])                       # the same circuit twice: everything is shared
        form = rng.choice(['list', 'dict', 'function'])
        try:
            if form == 'list':
                msg = S.serialize_multi_program(cs)
                exp = [('', {}, c) for c in cs]
            elif form == 'dict':
                keys = [f'k{i}' for i in range(len(cs))]
                msg = S.serialize_multi_program(dict(zip(keys, cs)))
                exp = [(k, {}, c) for k, c in zip(keys, cs)]
            else:
                sweep = cirq.Product(cirq.Points('idx', list(range(len(cs)))), cirq.Points('w', [0.1, 0.5]))
                msg = S.serialize_circuit_function(lambda idx, w: cs[int(idx)], sweep)
                exp = [('', dict(t), cs[int(dict(t)['idx'])]) for t in sweep.param_tuples()]
            got = S.deserialize_multi_program(msg)
        except Exception as e:
            ctx.violation('multi:raises:' + type(e).__name__, f'{form} form raised {type(e).__name__}: {str(e)[:300]}', dict(kind='multi', form=form, literals=[circuit_literal(c) for c in cs]))
            continue
        ok = len(got) == len(exp)
        for (k, a, c), (gk, ga, gc) in zip(exp, got):
            ok = ok and k == gk and {kk: f32(v) for kk, v in a.items()} == {kk: float(v) for kk, v in dict(ga).items()}
            x, y = norm(c), norm(gc)
            ok = ok and len(x.moments) == len(y.moments) and all(m1 == m2 and tuple(m1.tags) == tuple(m2.tags) for m1, m2 in zip(x.moments, y.moments)) and tuple(x.tags) == tuple(y.tags)
        tot = sum(len(S.serialize(c).constants) for c in cs)
        ctx.count('multi_program', [form, [circuit_literal(c) for c in cs]], len(cs) > 1 and len(msg.constants) < tot,
                  sample=dict(form=form, circuits=len(exp), constants=len(msg.constants), constants_if_separate=tot))
        if not ok:
            # moment tags shared across programs are the known finding; anything else is new
            shared_tags = False
            allm = [m for c in cs for m in c.moments]
            for i_, m1 in enumerate(allm):
                shared_tags = shared_tags or any(m1 == m2 and tuple(m1.tags) != tuple(m2.tags) for m2 in allm[i_ + 1:])
            single = [roundtrip_ok(cirq, S, norm, c) for c in cs]
            if not shared_tags and any(not okc for okc, _ in single):
                for c, (okc, dc) in zip(cs, single):       # a circuit that already fails on its own: explain it there
                    if not okc:
                        explain_failure(ctx, cirq, S, norm, c, 'deserialize(serialize(c)) differs from c', dc)
            else:
                ctx.violation('circuit:moment-tags-shared' if shared_tags else 'multi:roundtrip', f'{form} form: deserialize_multi_program(serialize(...)) differs from the circuits',
                              dict(kind='multi', form=form, literals=[circuit_literal(c) for c in cs]))


# ------------------------------------------------------------------ device specifications
GATE_NAMES = ['syc', 'sqrt_iswap', 'sqrt_iswap_inv', 'cz', 'cz_pow_gate', 'phased_xz', 'virtual_zpow', 'physical_zpow', 'meas', 'wait',
              'fsim_via_model', 'two_pulse_fsim', 'internal_gate', 'reset']


def spec_gate_ok(cirq, cg, names, op):
    """Is the gate of op (with its tags) one of the gates that the GateSpecification names stand for (device.proto)."""
    gate, tags = op.gate, set(type(t).__name__ for t in op.tags)

    def same(target):
        try:
            return cirq.equal_up_to_global_phase(cirq.unitary(gate), cirq.unitary(target), atol=1e-8)
        except Exception:
            return False
    ok = False
    for nme in names:
        if nme == 'syc':
            ok |= cirq.num_qubits(gate) == 2 and same(cg.SYC)
        elif nme == 'sqrt_iswap':
            ok |= cirq.num_qubits(gate) == 2 and same(cirq.SQRT_ISWAP)
        elif nme == 'sqrt_iswap_inv':
            ok |= cirq.num_qubits(gate) == 2 and same(cirq.SQRT_ISWAP_INV)
        elif nme == 'cz':
            ok |= cirq.num_qubits(gate) == 2 and same(cirq.CZ)
        elif nme == 'cz_pow_gate':
            ok |= isinstance(gate, cirq.CZPowGate)
        elif nme == 'phased_xz':
            ok |= isinstance(gate, (cirq.IdentityGate, cirq.PhasedXZGate, cirq.XPowGate, cirq.YPowGate, cirq.HPowGate, cirq.PhasedXPowGate, cirq.SingleQubitCliffordGate))
        elif nme == 'virtual_zpow':
            ok |= isinstance(gate, cirq.ZPowGate) and 'PhysicalZTag' not in tags
        elif nme == 'physical_zpow':
            ok |= isinstance(gate, cirq.ZPowGate) and 'PhysicalZTag' in tags
        elif nme == 'meas':
            ok |= isinstance(gate, cirq.MeasurementGate)
        elif nme == 'wait':
            ok |= isinstance(gate, cirq.WaitGate)
        elif nme == 'fsim_via_model':
            ok |= isinstance(gate, cirq.FSimGate) and 'FSimViaModelTag' in tags
        elif nme == 'two_pulse_fsim':
            ok |= isinstance(gate, cirq.FSimGate) and 'TwoPulseFSimTag' in tags
        elif nme == 'internal_gate':
            ok |= isinstance(gate, cg.InternalGate)
        elif nme == 'reset':
            ok |= isinstance(gate, cirq.ResetChannel)
    return bool(ok)


def spec_accepts(cirq, cg, proto, op):
    """Accept/reject decision read off the DeviceSpecification alone (written from the documentation of the fields)."""
    from cirq_google.api import v2
    gate = op.gate
    if not spec_gate_ok(cirq, cg, {g.WhichOneof('gate') for g in proto.valid_gates}, op):
        return False
    ids = ['%d_%d' % (q.row, q.col) for q in op.qubits]          # the documented id of a grid qubit
    if any(i not in proto.valid_qubits for i in ids):
        return False
    if len(ids) == 2 and not isinstance(gate, (cirq.MeasurementGate, cirq.WaitGate)):
        pairs = {frozenset(t.ids) for ts in proto.valid_targets if ts.target_ordering == v2.device_pb2.TargetSet.SYMMETRIC for t in ts.targets if len(t.ids) == 2}
        return frozenset(ids) in pairs
    return True


def proto_canon(proto):
    """A DeviceSpecification up to the order of its repeated fields (qubits of a set are written in iteration order)."""
    return (sorted(proto.valid_qubits),
            sorted((ts.name, ts.target_ordering, tuple(sorted(tuple(sorted(t.ids)) for t in ts.targets))) for ts in proto.valid_targets),
            sorted((g.WhichOneof('gate'), g.gate_duration_picos) for g in proto.valid_gates),
            sorted((q, sorted((k, v.WhichOneof('val'), str(getattr(v, v.WhichOneof('val')) if v.WhichOneof('val') else None)) for k, v in a.attributes.items()))
                   for q, a in proto.qubit_attributes.items()))


def devices_stream(ctx, cirq, cg, n):
    from cirq_google.devices import grid_device as gd
    from cirq_google.ops import PhysicalZTag, FSimViaModelTag, TwoPulseFSimTag
    rng = ctx.rng
    fam = {gr.gate_spec_name: gr.supported_gates for gr in gd._GATES}
    test_gates1 = [cirq.X, cirq.Y ** 0.3, cirq.Z ** 0.2, cirq.H, cirq.PhasedXZGate(x_exponent=0.1, z_exponent=0.2, axis_phase_exponent=0.3), cirq.I,
                   cirq.rx(0.3), cirq.ResetChannel(), cirq.WaitGate(cirq.Duration(nanos=5)), cg.InternalGate('g', 'm', 1), cirq.S, cirq.T]
    test_gates2 = [cirq.CZ, cirq.CZ ** 0.5, cirq.CZ ** -1, cg.SYC, cirq.SQRT_ISWAP, cirq.SQRT_ISWAP_INV, cirq.ISWAP, cirq.FSimGate(np.pi / 2, np.pi / 6),
                   cirq.FSimGate(0.3, 0.4), cirq.CNOT, cirq.SWAP, cirq.ISWAP ** 0.5, cirq.WaitGate(cirq.Duration(nanos=5), num_qubits=2)]
    for case in range(n):
        r0, c0 = ((0, 0), (2, 1), (0, 0), (7, 12), (-1, 0))[case % 5 if case < 10 else rng.randrange(5)]
        grid = [cirq.GridQubit(r0 + r, c0 + c) for r in range(3) for c in range(3)]
        qs = rng.sample(grid, rng.choice([2, 4, 6, 9]))
        adj = [(a, b) for a in qs for b in qs if a < b and a.is_adjacent(b)]
        pairs = rng.sample(adj, rng.randint(0, len(adj))) if adj else []
        names = rng.sample(GATE_NAMES, rng.randint(1, 8))
        gateset = cirq.Gateset(*[rng.choice(fam[nm]) for nm in names])
        dmode = rng.choice(['none', 'empty', 'some', 'some'])
        durs = None if dmode == 'none' else ({} if dmode == 'empty' else {g: cirq.Duration(picos=rng.choice([0, 1000, 25000, 12])) for g in rng.sample(sorted(gateset.gates, key=repr), rng.randint(1, len(gateset.gates)))})
        rp = dict(kind='device', qubits=[(q.row, q.col) for q in qs], pairs=[[(a.row, a.col), (b.row, b.col)] for a, b in pairs], gates=names, durations=dmode)
        try:
            dev = cg.GridDevice._from_device_information(qubit_pairs=pairs, gateset=gateset, gate_durations=durs, all_qubits=qs)
        except ValueError:
            continue                       # inconsistent durations for one gate representation: not a device
        try:
            proto = dev.to_proto()
        except ValueError as e:
            if min(r0, c0) < 0 and any(q.row < 0 or q.col < 0 for q in qs):
                # a specification names its qubits '<int>_<int>' with unsigned integers: a device on other qubits is refused
                ctx.count('device:rejected', rp, True, sample=dict(rp, rejected=str(e)[:120]))
                continue
            raise
        if rng.random() < 0.4:             # qubit attributes only exist on devices read from a specification
            for q in rng.sample(qs, rng.randint(1, len(qs))):
                a = proto.qubit_attributes[f'{q.row}_{q.col}']
                for nm_, val in rng.sample([('freq', 5.1), ('idx', 3), ('ok', True), ('label', 'x'), ('none', None)], rng.randint(1, 3)):
                    gd._qubit_attribute_value_to_proto(a.attributes[nm_], val)
            dev = cg.GridDevice.from_proto(proto)
            proto = dev.to_proto()
        dev2 = cg.GridDevice.from_proto(proto)
        same_parts = (dev2.metadata.qubit_set == dev.metadata.qubit_set and dev2.metadata.qubit_pairs == dev.metadata.qubit_pairs
                      and dev2.metadata.gateset == dev.metadata.gateset and dict(dev2.qubit_attributes) == dict(dev.qubit_attributes)
                      and proto_canon(dev2.to_proto()) == proto_canon(proto))
        durs_equal = dev2.metadata.gate_durations == dev.metadata.gate_durations
        ctx.count('device:roundtrip', rp, len(pairs) >= 1 and len(names) >= 2, sample=dict(rp, valid_gates=[g.WhichOneof('gate') for g in proto.valid_gates]))
        if not same_parts:
            ctx.violation('device:roundtrip', f'GridDevice.from_proto(d.to_proto()) differs from d in qubits/pairs/gateset/attributes for {rp}', rp)
        elif not durs_equal or dev2 != dev:
            if dev.metadata.gate_durations is None and all(v == cirq.Duration() for v in dev2.metadata.gate_durations.values()):
                ctx.violation('device:absent-durations-become-zero', f'a device without gate durations comes back with zero durations for every gate, so from_proto(d.to_proto()) != d: {rp}', rp)
            else:
                ctx.violation('device:durations', f'gate durations change in the round trip: {dev.metadata.gate_durations} -> {dev2.metadata.gate_durations}', rp)
        # equal accept / reject decisions, and equal to what the specification says
        for _ in range(12):
            if rng.random() < 0.5:
                g = rng.choice(test_gates1)
                q = rng.choice(grid)
                op = g.on(q)
                if isinstance(g, cirq.ZPowGate) and rng.random() < 0.5:
                    op = op.with_tags(PhysicalZTag())
            elif rng.random() < 0.2:
                op = cirq.measure(*rng.sample(grid, rng.choice([1, 2, 3])), key='m')
            else:
                g = rng.choice(test_gates2)
                a = rng.choice(grid)
                b = rng.choice([x for x in grid if x != a and (rng.random() < 0.3 or x.is_adjacent(a))])
                op = g.on(a, b)
                if isinstance(g, cirq.FSimGate) and rng.random() < 0.5:
                    op = op.with_tags(rng.choice([FSimViaModelTag(), TwoPulseFSimTag()]))
            dec = []
            for d_ in (dev, dev2):
                try:
                    d_.validate_operation(op)
                    dec.append(True)
                except ValueError:
                    dec.append(False)
            want = spec_accepts(cirq, cg, proto, op)
            ctx.count('device:validate', [rp, repr(op)], dec[0], sample=dict(gates=names, op=repr(op), accepted=dec[0]))
            if dec[0] != dec[1] or dec[0] != want:
                ctx.violation('device:validate', f'operation {op!r}: device says {dec[0]}, device read back from its specification says {dec[1]}, the specification says {want}; {rp}',
                              dict(rp, op=repr(op)))
        # circuits of related operations (the same gate and qubits under other tags ...) before both devices
        sq = frozenset(cirq.GridQubit(*[int(x) for x in i.split('_')]) for i in proto.valid_qubits)
        sc = frozenset(frozenset(cirq.GridQubit(*[int(x) for x in i.split('_')]) for i in t.ids) for ts in proto.valid_targets for t in ts.targets if len(t.ids) == 2)
        pool = related_ops(cirq, cg, sq, sc)
        rel = related_circuits(pool, rng, False)
        for label, d_ in (('the device', dev), ('the device read back from its specification', dev2)):
            rel_problems, _ = judge_related_circuits(cirq, d_, pool, rel, lambda op: spec_accepts(cirq, cg, proto, op),
                                                     count=lambda idx, c, want: ctx.count('device:related_circuits', repr(c), not want))
            for what, c in rel_problems[:1]:
                ctx.violation('device:validate_circuit', f'{label}: {what}; {rp}', dict(rp, circuit=repr(c)))


# ------------------------------------------------------------------ device specifications as they arrive (written by hand)
ORD_UNSPEC, ORD_SYM, ORD_ASYM, ORD_SUBSET = 0, 1, 2, 3
ORD_COQ = {ORD_UNSPEC: 'Unspecified', ORD_SYM: 'Symmetric', ORD_ASYM: 'Asymmetric', ORD_SUBSET: 'SubsetPermutation'}
ORD_NAME = {ORD_UNSPEC: 'UNSPECIFIED', ORD_SYM: 'SYMMETRIC', ORD_ASYM: 'ASYMMETRIC', ORD_SUBSET: 'SUBSET_PERMUTATION'}
SPEC_FIXED_GATES = [['cz', 26000], ['phased_xz', 25000], ['meas', 4000000], ['virtual_zpow', 0], ['wait', 0]]


def gid(q):
    return '%d_%d' % (q[0], q[1])


def build_device_spec(v2, data):
    """data: dict(qubits=[id], targets=[[name, ordering, [[id, ...], ...]], ...], gates=[[name, picos], ...], attributes={id: {name: value}})."""
    from cirq_google.devices import grid_device as gd
    spec = v2.device_pb2.DeviceSpecification()
    spec.valid_qubits.extend(data['qubits'])
    for name, o, targets in data['targets']:
        ts = spec.valid_targets.add()
        ts.name = name
        ts.target_ordering = o
        for t in targets:
            ts.targets.add().ids.extend(t)
    for name, picos in data['gates']:
        g = spec.valid_gates.add()
        getattr(g, name).SetInParent()
        g.gate_duration_picos = picos
    for q, attrs in data.get('attributes', {}).items():
        for nm_, val in attrs.items():
            gd._qubit_attribute_value_to_proto(spec.qubit_attributes[q].attributes[nm_], val)
    return spec


def device_spec_defect(data):
    """Why the specification does not describe a device (device.proto: ids '<int>_<int>', targets over valid_qubits, the ids of a
    symmetric target are distinct, ASYMMETRIC is not in use), or None."""
    import re
    seen = set()
    for i in data['qubits']:
        if i in seen:
            return f'valid_qubits lists {i!r} twice'
        if not re.fullmatch(r'[0-9]+_[0-9]+', i):
            return f'the id {i!r} is not of the form <int>_<int>'
        seen.add(i)
    for name, o, targets in data['targets']:
        for t in targets:
            for i in t:
                if i not in seen:
                    return f'target set {name!r} uses the id {i!r}, which is not among valid_qubits'
            if o == ORD_SYM and len(set(t)) < len(t):
                return f'SYMMETRIC target set {name!r} repeats an id inside the target {t}'
        if o == ORD_ASYM:
            return f'target set {name!r} is ASYMMETRIC'
    for q in data.get('attributes', {}):
        if q not in seen:
            return f'qubit_attributes names {q!r}, which is not among valid_qubits'
    return None


def device_spec_meaning(cirq, proto):
    """What a DeviceSpecification says (device.proto): the qubits, the couplings (two-id targets of SYMMETRIC target sets, in
    either order; target sets of any other ordering are not couplings), the gates with their durations, the qubit attributes."""
    from cirq_google.api import v2

    def qb(i):
        r, c = i.split('_')
        return cirq.GridQubit(int(r), int(c))
    qubits = frozenset(qb(i) for i in proto.valid_qubits)
    couplings = frozenset(frozenset(qb(i) for i in t.ids) for ts in proto.valid_targets if ts.target_ordering == v2.device_pb2.TargetSet.SYMMETRIC
                          for t in ts.targets if len(t.ids) == 2)
    gates = {g.WhichOneof('gate'): g.gate_duration_picos for g in proto.valid_gates}
    attrs = {qb(q): {k: getattr(v, v.WhichOneof('val')) if v.WhichOneof('val') else None for k, v in a.attributes.items()} for q, a in proto.qubit_attributes.items()}
    return qubits, couplings, gates, attrs


def pairs_text(ps):
    return str(sorted(tuple(sorted((q.row, q.col) for q in p)) for p in ps))


def device_spec_queries(cirq, cg, rng, qubits, names):
    """Operations to put before validate_operation: every pair of device qubits in both orders under the two-qubit gates of the
    specification (and under one that is not in it), single-qubit gates, measurement / wait on pairs and triples, qubits off
    the device, and a wait on the coupler of a pair."""
    from cirq_google.ops import PhysicalZTag, FSimViaModelTag, TwoPulseFSimTag
    G = cirq.GridQubit
    qs = sorted(qubits)
    r0, c0 = min(q.row for q in qs), min(q.col for q in qs)
    off = [q for q in [G(r0 + r, c0 + c) for r in range(4) for c in range(4)] if q not in qubits][:3]
    rep2 = dict(cz=lambda a, b: cirq.CZ(a, b), syc=lambda a, b: cg.SYC(a, b), sqrt_iswap=lambda a, b: cirq.SQRT_ISWAP(a, b),
                sqrt_iswap_inv=lambda a, b: cirq.SQRT_ISWAP_INV(a, b), cz_pow_gate=lambda a, b: (cirq.CZ ** 0.5)(a, b),
                fsim_via_model=lambda a, b: cirq.FSimGate(0.3, 0.4).on(a, b).with_tags(FSimViaModelTag()),
                two_pulse_fsim=lambda a, b: cirq.FSimGate(0.3, 0.4).on(a, b).with_tags(TwoPulseFSimTag()),
                internal_gate=lambda a, b: cg.InternalGate('g', 'm', 2).on(a, b))
    inside = [rep2[n] for n in rep2 if n in names]
    rng.shuffle(inside)
    makers = inside[:2] + [rng.choice([rep2[n] for n in rep2 if n not in names] + [lambda a, b: cirq.ISWAP(a, b), lambda a, b: cirq.CNOT(a, b)])]
    ops = []
    for i, a in enumerate(qs):
        for b in qs[i + 1:]:
            for k, mk in enumerate(makers):
                if k < len(makers) - 1 or rng.random() < 0.25:
                    ops += [mk(a, b), mk(b, a)]
    for a in qs[:3]:
        for b in off[:2]:
            ops.append(makers[0](*rng.sample([a, b], 2)))
    ones = [cirq.X, cirq.Y ** 0.3, cirq.Z ** 0.2, cirq.H, cirq.I, cirq.ResetChannel(), cirq.WaitGate(cirq.Duration(nanos=5)), cg.InternalGate('g', 'm', 1),
            cirq.PhasedXZGate(x_exponent=0.1, z_exponent=0.2, axis_phase_exponent=0.3)]
    for q in qs + off:
        ops.append(rng.choice(ones).on(q))
        ops.append(cirq.Z(q).with_tags(PhysicalZTag()) if rng.random() < 0.3 else rng.choice(ones).on(q))
    pairs = [(a, b) for i, a in enumerate(qs) for b in qs[i + 1:]]
    some = pairs if len(pairs) <= 12 else rng.sample(pairs, 12)
    for a, b in some:
        ops.append(cirq.measure(*rng.sample([a, b], 2), key='m'))
        ops.append(cirq.WaitGate(cirq.Duration(nanos=5), num_qubits=2).on(a, b))
        ops.append(cirq.WaitGate(cirq.Duration(nanos=5)).on(cg.Coupler(a, b)))
    if len(qs) >= 3:
        for _ in range(3):
            t = rng.sample(qs, 3)
            ops += [cirq.measure(*t, key='m'), cirq.WaitGate(cirq.Duration(nanos=5), num_qubits=3).on(*t), cg.InternalGate('g', 'm', 3).on(*t)]
        ops.append(cirq.measure(*qs, key='all'))
    if off:
        ops.append(cirq.measure(qs[0], off[0], key='m'))
        ops.append(cirq.WaitGate(cirq.Duration(nanos=5)).on(cg.Coupler(qs[0], off[0])))
    return ops


# ---- operations that are related to each other (the same gate and qubits under other tags, the same gate on the qubits in the
#      other order / on other qubits, another exponent, another gate on the same qubits) and the circuits made of them
NAME_COQ = dict(syc='NSyc', sqrt_iswap='NSqrtIswap', sqrt_iswap_inv='NSqrtIswapInv', cz='NCz', cz_pow_gate='NCzPow', phased_xz='NPhasedXZ',
                virtual_zpow='NVirtualZ', physical_zpow='NPhysicalZ', meas='NMeas', wait='NWait', fsim_via_model='NFsimViaModel',
                two_pulse_fsim='NTwoPulseFsim', internal_gate='NInternal', reset='NReset')
VARIANT_BASE_GATES = [['phased_xz', 25000], ['cz', 26000], ['meas', 4000000]]
VARIANT_Z_SETS = [[], ['virtual_zpow'], ['physical_zpow'], ['virtual_zpow', 'physical_zpow']]
VARIANT_FSIM_SETS = [[], ['fsim_via_model'], ['two_pulse_fsim'], ['fsim_via_model', 'two_pulse_fsim']]


def related_ops(cirq, cg, qubits, couplings):
    """A pool of operations for one device, as (operation, kind for Codec/DeviceGates.v): every operation shares its gate, its
    qubits or both with others of the pool.  The tags are the ones that select a GateSpecification (PhysicalZTag: physical_zpow
    instead of virtual_zpow; FSimViaModelTag / TwoPulseFSimTag: fsim_via_model / two_pulse_fsim), alone, together, next to tags
    that mean nothing to a device, and on gates they say nothing about."""
    from cirq_google.ops import PhysicalZTag, FSimViaModelTag, TwoPulseFSimTag
    PZ, VIA, TWO, CAL = PhysicalZTag(), FSimViaModelTag(), TwoPulseFSimTag(), cg.CalibrationTag('t')
    every = [(), ('note',), (CAL,), (PZ,), (VIA,), (TWO,), ('note', PZ), (VIA, 'note'), (PZ, VIA), (VIA, TWO)]
    G = cirq.GridQubit
    qs = sorted(qubits)
    a = qs[0]
    r0, c0 = min(q.row for q in qs), min(q.col for q in qs)
    off = [q for q in [G(r0 + r, c0 + c) for r in range(4) for c in range(4)] if q not in qubits][0]
    fsim = cirq.FSimGate(theta=0.3, phi=0.2)
    pool = []

    def add(op, kind, tagsets):
        for ts in tagsets:
            pool.append((op.with_tags(*ts) if ts else op, kind))
    add((cirq.Z ** 0.25).on(a), 'KZPow', every)
    add((cirq.Z ** 0.5).on(a), 'KZPow', [(), (PZ,)])
    add(cirq.X(a), 'KOneQubit', [(), ('note',), (PZ,)])
    add(cirq.measure(a, key='m'), 'KMeas', [(), (PZ,)])
    for q in ([qs[-1]] if len(qs) > 1 else []) + [off]:
        add((cirq.Z ** 0.25).on(q), 'KZPow', [(), (PZ,)])
    both = [tuple(sorted(p)) for p in couplings]
    loose = [(x, y) for i, x in enumerate(qs) for y in qs[i + 1:] if frozenset((x, y)) not in couplings]
    if both:
        p, q = min(both)
        add(fsim.on(p, q), 'KFSim', every)
        add(fsim.on(q, p), 'KFSim', [(), (VIA,), (TWO,)])
        add(cirq.CZ(p, q), 'KCz', [(), ('note',), (PZ,), (VIA,)])
        add(cirq.CZ(q, p), 'KCz', [()])
        add((cirq.CZ ** 0.5).on(p, q), 'KCzPow', [()])
        add(cirq.ISWAP(p, q), 'KOther', [(), (VIA,)])
    if loose:
        u, v = loose[0]
        add(fsim.on(u, v), 'KFSim', [(), (VIA,), (TWO,)])
        add(cirq.CZ(u, v), 'KCz', [()])
    return pool


def related_circuits(pool, rng, full):
    """Circuits over the pool as index lists.  full: every ordered pair (an operation after itself too) and some triples; else the
    ordered pairs of operations on the same qubits that differ in a gate-selecting tag only (every seed has them) and a sample."""
    n = len(pool)
    pairs = [(i, j) for i in range(n) for j in range(n)]
    if full:
        out = pairs
    else:
        def plain(i):                      # untagged, or under one tag of the kind that selects a GateSpecification
            ts = pool[i][0].tags
            return len(ts) == 0 or (len(ts) == 1 and type(ts[0]).__name__ in ('PhysicalZTag', 'FSimViaModelTag', 'TwoPulseFSimTag'))
        out = [(i, j) for i, j in pairs if i != j and plain(i) and plain(j) and pool[i][0].untagged == pool[j][0].untagged]
        out += rng.sample(pairs, min(len(pairs), 12))
    out = list(out) + [tuple(rng.randrange(n) for _ in range(rng.choice([3, 3, 4, 6]))) for _ in range(60 if full else 4)]
    return out


def op_model(cirq, cg, op, kind):
    from cirq_google.ops import PhysicalZTag, FSimViaModelTag, TwoPulseFSimTag
    b = lambda t: 'true' if t in op.tags else 'false'
    qs = '; '.join(f'({coq.zlit(q.row)}, {coq.zlit(q.col)})' for q in op.qubits)
    return 'mk_op %s %s %s %s [%s]' % (kind, b(PhysicalZTag()), b(FSimViaModelTag()), b(TwoPulseFSimTag()), qs)


def judge_related_circuits(cirq, dev, pool, circuits, says, count=None):
    """validate_circuit (one call over all operations), validate_moment per moment and validate_operation per operation must
    each accept exactly when the specification allows every operation.  Returns (problems [(what, circuit)], decisions)."""
    problems, decisions = [], []
    ok = [says(op) for op, _ in pool]
    alone = [device_decision(dev.validate_operation, op) for op, _ in pool]
    ok_of = {id(op): v for (op, _), v in zip(pool, ok)}
    for idx in circuits:
        ops = [pool[i][0] for i in idx]
        c = cirq.Circuit(ops)
        want = all(ok[i] for i in idx)
        got = device_decision(dev.validate_circuit, c)
        many = [m for m in c if len(m) > 1]          # a moment of one operation is that operation (asked above, alone)
        got_m = [device_decision(dev.validate_moment, m) for m in many]
        want_m = [all(ok_of[id(o)] if id(o) in ok_of else says(o) for o in m) for m in many]
        if count:
            count(idx, c, want)
        if isinstance(got, bool):
            decisions.append((idx, got))
        if got is not want or got_m != want_m:
            bad = [i for i in idx if not ok[i]]
            if got is not want:
                txt = (f'validate_circuit {"accepts" if got is True else "rejects" if got is False else got} the circuit of the operations {ops}; by the specification '
                       + (f'the operation {pool[bad[0]][0]!r} is not valid (validate_operation on it alone {"accepts" if alone[bad[0]] is True else "rejects"}; '
                          f'the operations before it in the circuit: {[pool[i][0] for i in idx[:idx.index(bad[0])]]}'
                          + ('; the same gate on the same qubits under other tags stands earlier in the circuit, and the tags select which GateSpecification an operation needs'
                             if any(pool[i][0].untagged == pool[bad[0]][0].untagged and pool[i][0].tags != pool[bad[0]][0].tags for i in idx[:idx.index(bad[0])]) else '') + ')' if bad else
                          f'every operation is valid (validate_operation alone gives {[alone[i] for i in idx]})'))
            else:
                txt = f'validate_moment gives {got_m} on the moments with more than one operation of {c!r}; the specification says {want_m}'
            problems.append((txt, c))
    return problems, decisions


def device_decision(fn, arg):
    try:
        fn(arg)
        return True
    except ValueError:
        return False
    except Exception as e:               # any other exception is neither an acceptance nor the documented refusal
        return 'raised ' + type(e).__name__


def judge_device_spec(ctx, cirq, cg, v2, data, rng, extra_ops=(), extra_circuits=()):
    """Reads the specification with GridDevice.from_proto and judges the device object against what the specification says.
    Returns (problems, row): problems = [(signature, what, extra replay fields)], row = what the model is compared with."""
    proto = build_device_spec(v2, data)
    defect = device_spec_defect(data)
    problems = []
    shown = dict(qubits=data['qubits'], targets=[[n, ORD_NAME[o], t] for n, o, t in data['targets']], gates=[g for g, _ in data['gates']])
    row = dict(device=None, out_targets=[], out_qubits=[], decisions=[], names=[], pool=[], circuits=[])
    try:
        dev = cg.GridDevice.from_proto(proto)
    except ValueError as e:
        ctx.count('device_spec:refused', data, defect is not None, sample=dict(spec=shown, refused=str(e)[:120], defect=defect))
        if defect is None:
            problems.append(('device_spec:refused', f'GridDevice.from_proto refuses a specification that describes a device ({str(e)[:150]}): {shown}', {}))
        return problems, row
    if defect is not None:
        ctx.count('device_spec:refused', data, True)
        problems.append(('device_spec:accepted-invalid', f'GridDevice.from_proto accepts a specification that describes no device ({defect}): {shown}', {}))
        return problems, None
    qubits, couplings, gates, attrs = device_spec_meaning(cirq, proto)
    md = dev.metadata
    n_other2 = sum(1 for _, o, ts in data['targets'] if o != ORD_SYM for t in ts if len(t) == 2)
    ctx.count('device_spec:read', data, len(couplings) >= 1 or n_other2 >= 1, sample=dict(spec=shown, couplings=pairs_text(couplings)))
    row['device'] = (sorted((q.row, q.col) for q in md.qubit_set), sorted(tuple(sorted((q.row, q.col) for q in p)) for p in md.qubit_pairs))
    if frozenset(md.qubit_set) != qubits:
        problems.append(('device_spec:qubits', f'from_proto(spec).metadata.qubit_set = {sorted(md.qubit_set)}, the specification lists {sorted(qubits)}: {shown}', {}))
    if frozenset(md.qubit_pairs) != couplings:
        problems.append(('device_spec:pairs', f'from_proto(spec).metadata.qubit_pairs = {pairs_text(md.qubit_pairs)}, but the couplings the specification describes '
                         f'(two-id targets of its SYMMETRIC target sets) are {pairs_text(couplings)}: extra {pairs_text(frozenset(md.qubit_pairs) - couplings)}, '
                         f'missing {pairs_text(couplings - frozenset(md.qubit_pairs))}; spec = {shown}', {}))
    else:
        coupled_qubits = frozenset(q for p in couplings for q in p)
        edges = frozenset(frozenset(e) for e in md.nx_graph.edges)
        if frozenset(md.isolated_qubits) != qubits - coupled_qubits or edges != couplings:
            problems.append(('device_spec:graph', f'metadata.isolated_qubits = {sorted(md.isolated_qubits)} / nx_graph edges {pairs_text(edges)} do not follow from the couplings '
                             f'{pairs_text(couplings)} of the specification {shown}', {}))
    if dict(dev.qubit_attributes) != attrs:
        problems.append(('device_spec:attributes', f'from_proto(spec).qubit_attributes = {dict(dev.qubit_attributes)}, the specification says {attrs}: {shown}', {}))
    # accept / reject decisions against the specification
    names = set(gates)
    gate_ok = {}

    def says(op):
        k = (repr(op.gate), tuple(sorted(type(t).__name__ for t in op.tags)))
        if k not in gate_ok:
            gate_ok[k] = spec_gate_ok(cirq, cg, names, op)
        if not gate_ok[k]:
            return False
        for q in op.qubits:
            if isinstance(q, cg.Coupler):        # the coupler of a pair exists where the pair is a coupling
                if any(x not in qubits for x in q.qubits) or frozenset(q.qubits) not in couplings:
                    return False
            elif q not in qubits:
                return False
        if len(op.qubits) == 2 and not isinstance(op.gate, (cirq.MeasurementGate, cirq.WaitGate)):
            return frozenset(op.qubits) in couplings
        return True
    good, bad = [], []
    for op in list(extra_ops) + device_spec_queries(cirq, cg, rng, qubits, names):
        want, got = says(op), device_decision(dev.validate_operation, op)
        two = len(op.qubits) == 2 and all(isinstance(q, cirq.GridQubit) for q in op.qubits)
        ctx.count('device_spec:validate', [data, repr(op)], got is True or (two and want != (frozenset(op.qubits) in couplings)))
        (good if want else bad).append(op)
        k = (repr(op.gate), tuple(sorted(type(t).__name__ for t in op.tags)))
        if gate_ok[k] and all(isinstance(q, cirq.GridQubit) for q in op.qubits) and isinstance(got, bool):
            row['decisions'].append((isinstance(op.gate, (cirq.MeasurementGate, cirq.WaitGate)), [(q.row, q.col) for q in op.qubits], got))
        if got is not want:
            reason = ''
            if two and gate_ok[k] and all(q in qubits for q in op.qubits) and not isinstance(op.gate, (cirq.MeasurementGate, cirq.WaitGate)):
                reason = (' (the pair is a coupling of the specification)' if frozenset(op.qubits) in couplings else
                          ' (the two qubits are not coupled: no SYMMETRIC target set of the specification lists the pair)')
            problems.append(('device_spec:validate', f'validate_operation({op!r}) {"accepts" if got is True else "rejects" if got is False else got}, the specification says '
                             f'{"accept" if want else "reject"}{reason}; couplings {pairs_text(couplings)}; spec = {shown}', dict(op=repr(op))))
    # circuits: accepted exactly when every operation is
    trials = []
    if good:
        trials.append((cirq.Circuit(rng.sample(good, min(8, len(good)))), True))
    for b in (rng.sample(bad, min(4, len(bad))) if bad else []):
        ops_ = rng.sample(good, min(5, len(good)))
        ops_.insert(rng.randint(0, len(ops_)), b)
        trials.append((cirq.Circuit(ops_), False))
        trials.append((cirq.Moment([b]), False))
    for c in extra_circuits:
        trials.append((c, all(says(o) for o in (c.operations if isinstance(c, cirq.Moment) else c.all_operations()))))
    # circuits of related operations: one validate_circuit call sees the same gate on the same qubits under other tags, in the other
    # qubit order, on other qubits ...; each operation still has to be one the specification describes
    if qubits:
        import json
        pool = related_ops(cirq, cg, qubits, couplings)
        dkey = json.dumps(data, sort_keys=True, default=str)
        rel_problems, rel_decisions = judge_related_circuits(
            cirq, dev, pool, related_circuits(pool, rng, bool(data.get('variant_grid'))), says,
            count=lambda idx, c, want: ctx.count('device_spec:related_circuits', dkey + str(idx), len({pool[i][0].untagged for i in idx}) < len(set(idx))))
        for what, c in rel_problems[:3]:
            problems.append(('device_spec:validate_circuit', f'{what}; couplings {pairs_text(couplings)}; spec = {shown}', dict(circuit=repr(c))))
        row['names'] = sorted(names)
        row['pool'] = pool
        row['circuits'] = rel_decisions
    for c, want in trials:
        fn = dev.validate_moment if isinstance(c, cirq.Moment) else dev.validate_circuit
        got = device_decision(fn, c)
        ctx.count('device_spec:validate_circuit', [data, repr(c)], not want)
        if got is not want:
            culprit = [o for o in (c.operations if isinstance(c, cirq.Moment) else c.all_operations()) if not says(o)]
            problems.append(('device_spec:validate_circuit', f'{fn.__name__} {"accepts" if got is True else "rejects" if got is False else got} {c!r}; by the specification '
                             + (f'the operation {culprit[0]!r} is not valid (couplings {pairs_text(couplings)})' if culprit else 'every operation is valid') + f'; spec = {shown}',
                             dict(circuit=repr(c))))
    # writing the device out again: the same device described
    try:
        out = dev.to_proto()
    except ValueError as e:
        problems.append(('device_spec:to_proto', f'to_proto() of the device read from {shown} raises {str(e)[:150]}', {}))
        return problems, row
    q2, c2, g2, a2 = device_spec_meaning(cirq, out)
    row['out_targets'] = [(ts.target_ordering, [[tuple(int(x) for x in i.split('_')) for i in t.ids] for t in ts.targets]) for ts in out.valid_targets]
    row['out_qubits'] = sorted(tuple(int(x) for x in i.split('_')) for i in out.valid_qubits)
    ctx.count('device_spec:to_proto', data, len(couplings) >= 1 or n_other2 >= 1)
    if (q2, c2) != (qubits, couplings) or len(out.valid_qubits) != len(qubits):
        problems.append(('device_spec:to_proto', f'from_proto(spec).to_proto() describes the qubits {sorted(q2)} and couplings {pairs_text(c2)}; the specification it was read from '
                         f'describes {sorted(qubits)} and {pairs_text(couplings)} (couplings the specification did not have: {pairs_text(c2 - couplings)}, lost: {pairs_text(couplings - c2)}); spec = {shown}', {}))
    if g2 != gates:
        problems.append(('device_spec:gates', f'from_proto(spec).to_proto() lists the gates / durations {g2}; the specification has {gates}', {}))
    if a2 != attrs:
        problems.append(('device_spec:attributes', f'from_proto(spec).to_proto() has the qubit attributes {a2}; the specification has {attrs}', {}))
    back = cg.GridDevice.from_proto(out)
    if back != dev or back.metadata.qubit_pairs != md.qubit_pairs:
        problems.append(('device_spec:roundtrip', f'GridDevice.from_proto(d.to_proto()) != d for d = from_proto({shown})', {}))
    return problems, row


def device_spec_literal(data):
    def q(i):
        r, c = i.split('_')
        return f'({coq.zlit(int(r))}, {coq.zlit(int(c))})'
    tss = '; '.join('{| ts_ordering := %s; ts_targets := [%s] |}' % (ORD_COQ[o], '; '.join('[' + '; '.join(q(i) for i in t) + ']' for t in ts)) for _, o, ts in data['targets'])
    return '{| valid_qubits := [%s]; valid_targets := [%s] |}' % ('; '.join(q(i) for i in data['qubits']), tss)


def fixed_device_specs(all_variants=False):
    """The same for every seed: target sets of every ordering x targets of one, two, three and all ids, next to SYMMETRIC pair
    sets or alone, on a 2x3 grid and on a two-qubit device; pair sets in both id orders, repeated, split over sets; specifications
    that describe no device."""
    out = []
    for r0, c0 in ((0, 0), (3, 5)):
        grid = [(r0 + r, c0 + c) for r in range(2) for c in range(3)]
        ids = [gid(q) for q in grid]
        rows = [[gid((r0 + r, c0 + c)), gid((r0 + r, c0 + c + 1))] for r in range(2) for c in range(2)]
        cols = [[gid((r0, c0 + c)), gid((r0 + 1, c0 + c))] for c in range(3)]
        far = [[ids[0], ids[4]], [ids[5], ids[0]], [ids[2], ids[3]]]             # qubits that are not neighbours
        by_size = {1: [[i] for i in ids], 2: far + [cols[1]], 3: [ids[:3], [ids[5], ids[1], ids[3]]], 'all': [ids]}
        for o, nm in ((ORD_SUBSET, 'meas_targets'), (ORD_UNSPEC, 'readout_groups')):
            for size, targets in by_size.items():
                out.append(dict(qubits=ids, targets=[[nm, o, targets]], gates=SPEC_FIXED_GATES))
                out.append(dict(qubits=ids, targets=[['2_qubit_targets', ORD_SYM, rows], [nm, o, targets]], gates=SPEC_FIXED_GATES))
                out.append(dict(qubits=ids[::-1], targets=[[nm, o, targets], ['2_qubit_targets', ORD_SYM, cols]], gates=SPEC_FIXED_GATES))
            two = [ids[0], ids[5]]
            out.append(dict(qubits=two, targets=[[nm, o, [two]]], gates=SPEC_FIXED_GATES))
            out.append(dict(qubits=two, targets=[[nm, o, [two[::-1]]], ['2_qubit_targets', ORD_SYM, []]], gates=SPEC_FIXED_GATES))
            out.append(dict(qubits=ids, targets=[['2_qubit_targets', ORD_SYM, rows], [nm, o, [rows[0], rows[1][::-1], far[0]]]], gates=SPEC_FIXED_GATES))   # repeats couplings, adds none
            out.append(dict(qubits=ids, targets=[[nm, o, [[ids[0], ids[0]], [ids[1], ids[2], ids[1]]]]], gates=SPEC_FIXED_GATES))
        out.append(dict(qubits=ids, targets=[['2_qubit_targets', ORD_SYM, rows + cols]], gates=SPEC_FIXED_GATES))
        out.append(dict(qubits=ids, targets=[['2_qubit_targets', ORD_SYM, [p[::-1] for p in rows] + far]], gates=SPEC_FIXED_GATES))
        out.append(dict(qubits=ids, targets=[['rows', ORD_SYM, rows + [rows[0][::-1], rows[1]]], ['cols', ORD_SYM, cols[::-1]], ['', ORD_SYM, []]], gates=SPEC_FIXED_GATES))
        out.append(dict(qubits=ids, targets=[['2_qubit_targets', ORD_SYM, cols], ['triples', ORD_SYM, [ids[:3], [ids[4]]]]], gates=SPEC_FIXED_GATES))
        out.append(dict(qubits=ids, targets=[], gates=SPEC_FIXED_GATES))
        out.append(dict(qubits=ids[:1], targets=[['meas_targets', ORD_SUBSET, [ids[:1]]]], gates=SPEC_FIXED_GATES))
        # no device
        out.append(dict(qubits=ids, targets=[['2_qubit_targets', ORD_ASYM, rows]], gates=SPEC_FIXED_GATES))
        out.append(dict(qubits=ids, targets=[['2_qubit_targets', ORD_SYM, rows], ['directed', ORD_ASYM, []]], gates=SPEC_FIXED_GATES))
        out.append(dict(qubits=ids[:4], targets=[['2_qubit_targets', ORD_SYM, [[ids[0], ids[5]]]]], gates=SPEC_FIXED_GATES))
        out.append(dict(qubits=ids[:4], targets=[['meas_targets', ORD_SUBSET, [[ids[0], ids[5]]]]], gates=SPEC_FIXED_GATES))
        out.append(dict(qubits=ids[:4], targets=[['readout_groups', ORD_UNSPEC, [[ids[4]]]]], gates=SPEC_FIXED_GATES))
        out.append(dict(qubits=ids, targets=[['2_qubit_targets', ORD_SYM, [[ids[0], ids[0]]]]], gates=SPEC_FIXED_GATES))
        out.append(dict(qubits=ids, targets=[['triples', ORD_SYM, [[ids[0], ids[1], ids[0]]]]], gates=SPEC_FIXED_GATES))
        out.append(dict(qubits=ids + ids[2:3], targets=[], gates=SPEC_FIXED_GATES))
    # gate variants that a tag selects: every combination of the Z specifications x the FSim specifications, on a 2x2 grid with three
    # couplings; judged on every ordered pair of related operations (variant_grid)
    for k, (zs, fs) in enumerate((z, f) for i, z in enumerate(VARIANT_Z_SETS) for j, f in enumerate(VARIANT_FSIM_SETS) if all_variants or (j - i) % 4 < 2):
        r0, c0 = ((0, 0), (3, 5))[k % 2]
        g = [gid((r0 + r, c0 + c)) for r in range(2) for c in range(2)]
        gates = VARIANT_BASE_GATES + [[nm, 1000 * (i + 1)] for i, nm in enumerate(zs + fs)]
        out.append(dict(qubits=g, targets=[['2_qubit_targets', ORD_SYM, [[g[0], g[1]], [g[2], g[0]], [g[1], g[3]]]]], gates=gates, variant_grid=True))
    out.append(dict(qubits=['0_0', '-1_0'], targets=[], gates=SPEC_FIXED_GATES))
    out.append(dict(qubits=['0_0', 'q0_1'], targets=[], gates=SPEC_FIXED_GATES))
    out.append(dict(qubits=['0_0', '3'], targets=[], gates=SPEC_FIXED_GATES))
    out.append(dict(qubits=['0_0', '0_1'], targets=[], gates=SPEC_FIXED_GATES, attributes={'0_2': {'freq': 5.1}}))
    return out


def gen_device_spec(rng):
    r0, c0 = rng.choice([(0, 0), (0, 0), (2, 1), (7, 12)])
    grid = [(r0 + r, c0 + c) for r in range(3) for c in range(3)]
    qs = [gid(q) for q in rng.sample(grid, rng.choice([1, 2, 2, 3, 4, 6, 9]))]
    targets = []
    for _ in range(rng.choice([0, 1, 2, 2, 3, 4])):
        o = rng.choice([ORD_SYM, ORD_SYM, ORD_SUBSET, ORD_SUBSET, ORD_UNSPEC])
        name = rng.choice(['2_qubit_targets', 'meas_targets', 'rows', 'readout_groups', '', 'g'])
        ts = []
        for _ in range(rng.randint(0, 5)):
            size = min(len(qs), rng.choice([1, 2, 2, 2, 3, len(qs)]))
            t = rng.sample(qs, size)
            if o != ORD_SYM and rng.random() < 0.1:
                t.append(t[0])
            ts.append(t)
        targets.append([name, o, ts])
    gates = [[g, rng.choice([0, 1000, 25000, 12])] for g in rng.sample(GATE_NAMES, rng.randint(0, 8))]
    data = dict(qubits=qs, targets=targets, gates=gates)
    if rng.random() < 0.3:
        data['attributes'] = {q: dict(rng.sample([('freq', 5.1), ('idx', 3), ('ok', True), ('label', 'x')], rng.randint(1, 3))) for q in rng.sample(qs, rng.randint(1, len(qs)))}
    if rng.random() < 0.15:                   # something that makes it describe no device
        k = rng.choice(['asym', 'unknown', 'repeat', 'dup', 'form'])
        other = gid((r0 + 5, c0 + 5))
        if k == 'asym':
            targets.insert(rng.randint(0, len(targets)), ['d', ORD_ASYM, [rng.sample(qs, min(2, len(qs)))]])
        elif k == 'unknown':
            targets.insert(rng.randint(0, len(targets)), ['u', rng.choice([ORD_SYM, ORD_SUBSET, ORD_UNSPEC]), [[rng.choice(qs), other]]])
        elif k == 'repeat':
            q = rng.choice(qs)
            targets.append(['r', ORD_SYM, [rng.choice([[q, q], [q, rng.choice(qs), q]])]])
        elif k == 'dup':
            qs.insert(rng.randint(0, len(qs)), rng.choice(qs))
        else:
            qs.append(rng.choice(['-1_2', 'q1_2', '7', 'a_b', '1_2_3', '']))
    return data


def empty_valid_qubits_case(ctx, cirq, cg, v2):
    """device.proto on valid_qubits: "If empty, all qubit values are allowed (e.g. in a simulator)".  A GridDevice holds a finite
    qubit set, so either the specification is refused or the device accepts the gates of the specification on any qubit."""
    data = dict(qubits=[], targets=[], gates=SPEC_FIXED_GATES)
    try:
        dev = cg.GridDevice.from_proto(build_device_spec(v2, data))
    except ValueError:
        ctx.count('device_spec:empty', 'empty', True)
        return True
    ops = [cirq.X(cirq.GridQubit(0, 0)), cirq.measure(cirq.GridQubit(0, 0), cirq.GridQubit(5, 7), key='m')]
    dec = [device_decision(dev.validate_operation, op) for op in ops]
    ctx.count('device_spec:empty', 'empty', True, sample=dict(spec=data, ops=[repr(o) for o in ops], accepted=dec))
    if all(d is True for d in dec):
        return True
    return (f'a DeviceSpecification with empty valid_qubits ("If empty, all qubit values are allowed", device.proto) and the gates {[g for g, _ in data["gates"]]} is read without '
            f'complaint into a device with qubit_set {set(dev.metadata.qubit_set)} on which validate_operation gives {dec} for {ops}; to_proto() writes valid_qubits = '
            f'{list(dev.to_proto().valid_qubits)} again, so the device object validates nothing while its specification allows every qubit')


def device_specs_stream(ctx, cirq, cg, v2, n):
    """DeviceSpecification messages written directly (as the service sends them), read with GridDevice.from_proto: the device
    object against the meaning of the specification (Python oracle) and against Codec/DeviceSpec.v (vm_compute)."""
    import re
    rng = ctx.rng
    cases = fixed_device_specs(all_variants=ctx.tier != 'quick') + [gen_device_spec(rng) for _ in range(n)]
    rows = []
    for data in cases:
        data = dict(data, kind='device_spec')
        problems, row = judge_device_spec(ctx, cirq, cg, v2, data, rng)
        for sig, what, extra in problems:
            ctx.violation(sig, what, dict(data, **extra))
        # the model knows qubits and targets: ids it can read, and no refusal that is about the attributes
        if (row is not None and all(re.fullmatch(r'-?[0-9]+_-?[0-9]+', i) for i in data['qubits'] + [i for _, _, ts in data['targets'] for t in ts for i in t])
                and all(q in data['qubits'] for q in data.get('attributes', {}))):
            rows.append((data, row))

    ok_empty = empty_valid_qubits_case(ctx, cirq, cg, v2)
    if ok_empty is not True:
        ctx.violation('device_spec:empty-valid-qubits', ok_empty, dict(kind='device_spec_empty'))

    def ql(qs):
        return '[' + '; '.join(f'({coq.zlit(r)}, {coq.zlit(c)})' for r, c in qs) + ']'
    for shard in range(0, len(rows), 100):
        part = rows[shard:shard + 100]
        text = 'From Coq Require Import ZArith List Bool.\nFrom VF Require Import Codec.DeviceSpec Base.Harness.\nImport ListNotations.\nOpen Scope Z_scope.\n'
        text += 'Definition cases : list spec_case := [\n'
        lits = []
        for data, row in part:
            dev = 'None' if row['device'] is None else ('(Some {| d_qubits := %s; d_pairs := [%s] |})' % (
                ql(row['device'][0]), '; '.join(f'(({coq.zlit(a[0])}, {coq.zlit(a[1])}), ({coq.zlit(b[0])}, {coq.zlit(b[1])}))' for a, b in row['device'][1])))
            outs = '; '.join('{| ts_ordering := %s; ts_targets := [%s] |}' % (ORD_COQ[o], '; '.join(ql(t) for t in ts)) for o, ts in row['out_targets'])
            decs = '; '.join(f'({"true" if v else "false"}, {ql(qs)}, {"true" if d else "false"})' for v, qs, d in row['decisions'])
            lits.append('{| c_spec := %s; c_device := %s; c_out_targets := [%s]; c_out_qubits := %s; c_decisions := [%s] |}' % (
                device_spec_literal(data), dev, outs, ql(row['out_qubits']), decs))
        text += ';\n'.join(lits) + '].\n'
        text += 'Eval vm_compute in failing case_device_ok cases.\nEval vm_compute in failing case_to_proto_ok cases.\nEval vm_compute in failing case_validate_ok cases.\n'
        vals = coq.parse_evals(coq.coq_eval(f'c16_device_specs_{ctx.seed}_{shard}', text))
        assert len(vals) == 3, vals
        for which, val in zip(('from_proto', 'to_proto', 'validate_operation'), vals):
            for idx in coq.parse_nat_list(val):
                data, row = part[idx]
                ctx.mark_broken('correspondence:device_spec:' + which, f'model and implementation differ on the specification {dict(qubits=data["qubits"], targets=data["targets"])}: '
                                f'implementation device {row["device"]}, to_proto targets {row["out_targets"]}')
    # whole circuits of related operations against Codec/DeviceGates.v (gate variants selected by tags + qubits / couplings)
    crows = [(data, row) for data, row in rows if row['circuits']]
    items, parts, groups = [], [], [[]]
    for cr in crows:                             # shards of about 9000 circuits, so the grid specifications spread over several files
        if groups[-1] and sum(len(r['circuits']) for _, r in groups[-1]) + len(cr[1]['circuits']) > 9000:
            groups.append([])
        groups[-1].append(cr)
    for shard, part in enumerate(g for g in groups if g):
        text = 'From Coq Require Import ZArith List Bool.\nFrom VF Require Import Codec.DeviceSpec Codec.DeviceGates Base.Harness.\nImport ListNotations.\nOpen Scope Z_scope.\n'
        text += 'Definition cases : list circuit_case := [\n'
        lits = []
        for data, row in part:
            circs = '; '.join('([%s]%%nat, %s)' % ('; '.join(str(i) for i in idx), 'true' if got else 'false') for idx, got in row['circuits'])
            lits.append('{| cc_spec := %s; cc_names := [%s]; cc_pool := [%s]; cc_circuits := [%s] |}' % (
                device_spec_literal(data), '; '.join(NAME_COQ[n_] for n_ in row['names']), '; '.join(op_model(cirq, cg, o, k) for o, k in row['pool']), circs))
        text += ';\n'.join(lits) + '].\nEval vm_compute in failing case_circuits_ok cases.\n'
        items.append((f'c16_device_circuits_{ctx.seed}_{shard}', text))
        parts.append(part)
    for part, out in zip(parts, coq.coq_eval_many(items, workers=6)):
        vals = coq.parse_evals(out)
        assert len(vals) == 1, vals
        for idx in coq.parse_nat_list(vals[0]):
            data, row = part[idx]
            ctx.mark_broken('correspondence:device_spec:validate_circuit', f'model and implementation differ on validate_circuit over circuits of related operations for the '
                            f'specification {dict(qubits=data["qubits"], targets=data["targets"], gates=data["gates"])}')


# ------------------------------------------------------------------ array-valued arguments (ndarrays.py)
ND_DTYPES = ['f8', 'f4', 'f2', 'i8', 'i4', 'i2', 'i1', 'u1', 'c16', 'c8', '?']
# message type -> (element type it stores, array types the helper documents it accepts: same kind, not wider)
ND_HELPERS = [('float64', 'f8', ['f8', 'f4', 'f2']), ('float32', 'f4', ['f4', 'f2']), ('float16', 'f2', ['f2']),
              ('int64', 'i8', ['i8', 'i4', 'i2', 'i1']), ('int32', 'i4', ['i4', 'i2', 'i1']), ('int16', 'i2', ['i2', 'i1']), ('int8', 'i1', ['i1']),
              ('uint8', 'u1', ['u1']), ('complex128', 'c16', ['c16', 'c8']), ('complex64', 'c8', ['c8'])]
ND_FIELD = {'f8': 'float64_array', 'f4': 'float32_array', 'f2': 'float16_array', 'i8': 'int64_array', 'i4': 'int32_array', 'i2': 'int16_array',
            'i1': 'int8_array', 'u1': 'uint8_array', 'c16': 'complex128_array', 'c8': 'complex64_array', '?': 'bit_array'}
ND_UNSUPPORTED = ['u2', 'u4', 'u8']          # no message type: must be refused or carried, not dropped
ND_SHAPES = [(3, 4), (3, 3), (1, 5), (5, 1), (2, 3, 4), (2, 2, 2), (2, 0, 3), (0,), (7,), ()]


def nd_values(dtype, n):
    """n values of a type, pairwise different wherever the type has room (exact in half precision, both signs, both parts of a
    complex number), so that an element that moves is an element that changes."""
    dt = np.dtype(dtype)
    k = np.arange(n, dtype=np.int64)
    if dt.kind == 'b':
        return ((k * 7 + k // 3) % 5 < 2)
    if dt.kind == 'u':
        return ((k * 3 + 1) % 251).astype(dt) if dt.itemsize == 1 else (k * 1009 + 1).astype(dt)
    if dt.kind == 'i':
        return (k - n // 2).astype(dt)
    if dt.kind == 'f':
        return ((k - n // 2) * 0.5).astype(dt)
    return ((k - n // 2) * 0.5 + 1j * ((n - k) * 0.25)).astype(dt)


def nd_build(rc):
    """The array of a recipe: values laid out in a base buffer (C or Fortran order, native or swapped byte order), then an
    axis permutation, a slice per axis (any start, any step, either direction), optionally broadcast along a new leading
    axis or copied into Fortran order."""
    dt = np.dtype(rc['dtype'])
    bs = tuple(rc['base_shape'])
    n = int(np.prod(bs)) if bs else 1
    vals = np.asarray(nd_values(dt, n))
    if rc.get('swap'):
        vals = vals.astype(dt.newbyteorder('>'))
    base = vals.reshape(bs, order=rc.get('order', 'C'))
    a = base.transpose(rc['perm']) if bs else base
    a = a[tuple(slice(*sl) for sl in rc['slices'])] if bs else a
    if rc.get('bcast') is not None:
        a = np.broadcast_to(a, (rc['bcast'],) + a.shape)
    if rc.get('asfortran'):
        a = np.asfortranarray(a)
    return a


def nd_recipe(dtype, shape, layout, rng=None):
    """A recipe that yields an array of the given shape in the given layout; None when the layout does not apply."""
    nd = len(shape)
    ident = list(range(nd))
    full = [[None, None, None]] * nd
    rc = dict(dtype=dtype, base_shape=list(shape), perm=ident, slices=full, layout=layout)
    if layout == 'C':
        return rc
    if layout == 'F-allocated':
        return dict(rc, order='F')
    if layout == 'asfortranarray':
        return dict(rc, asfortran=True)
    if layout == 'transposed':
        return dict(rc, base_shape=list(shape[::-1]), perm=ident[::-1])
    if layout.startswith('axes'):
        perm = [int(ch) for ch in layout[4:]]
        if len(perm) != nd:
            return None
        bs = [0] * nd
        for i, p_ in enumerate(perm):
            bs[p_] = shape[i]
        return dict(rc, base_shape=bs, perm=perm)
    if layout == 'every-other':
        return dict(rc, base_shape=[2 * d + 1 for d in shape], slices=[[1, None, 2]] * nd) if nd else None
    if layout == 'reversed':
        return dict(rc, slices=[[None, None, -1]] * nd) if nd else None
    if layout == 'last-axis-reversed':
        return dict(rc, slices=[[None, None, None]] * (nd - 1) + [[None, None, -1]]) if nd else None
    if layout == 'window':
        return dict(rc, base_shape=[d + 2 for d in shape], slices=[[1, d + 1, None] for d in shape]) if nd else None
    if layout == 'transposed-every-other':
        return dict(rc, base_shape=[2 * d + 1 for d in shape[::-1]], perm=ident[::-1], slices=[[1, None, 2]] * nd) if nd else None
    if layout == 'broadcast':
        return dict(rc, base_shape=list(shape[1:]), perm=ident[:-1], slices=full[:-1], bcast=shape[0]) if nd else None
    if layout == 'swapped-bytes':
        return dict(rc, swap=True)
    if layout == 'swapped-bytes-transposed':
        return dict(rc, base_shape=list(shape[::-1]), perm=ident[::-1], swap=True)
    if layout == 'random':
        perm = ident[:]
        rng.shuffle(perm)
        bs, sl = [0] * nd, []
        for i, p_ in enumerate(perm):
            step = rng.choice([1, 1, 2, -1, -2, 3])
            lead, trail = rng.choice([0, 0, 1]), rng.choice([0, 0, 1])
            d = shape[i]
            bs[p_] = lead + (abs(step) * (d - 1) + 1 if d else rng.choice([0, 1])) + trail
            if step > 0:
                sl.append([lead, lead + abs(step) * (d - 1) + 1 if d else lead, step])
            else:
                hi = lead + abs(step) * (d - 1) if d else lead
                sl.append([hi, (lead - 1) if lead >= 1 else None, step] if d else [lead, lead, 1])
        return dict(rc, base_shape=bs, perm=perm, slices=sl, order=rng.choice(['C', 'C', 'F']), asfortran=rng.random() < 0.1)
    raise ValueError(layout)


ND_LAYOUTS = ['C', 'F-allocated', 'asfortranarray', 'transposed', 'axes120', 'axes201', 'axes021', 'axes102', 'axes10', 'every-other', 'reversed',
              'last-axis-reversed', 'window', 'transposed-every-other', 'broadcast']


def nd_layout_text(a):
    fl = a.flags
    kind = ('C- and Fortran-contiguous' if fl.c_contiguous and fl.f_contiguous else 'C-contiguous' if fl.c_contiguous
            else 'Fortran-contiguous, not C-contiguous' if fl.f_contiguous else 'not contiguous')
    return f'{kind}, shape {a.shape}, strides {a.strides} bytes, dtype {a.dtype.str}'


def nd_diff(a, b, same_dtype=None):
    """None when b is the array a read back (same shape, same kind of numbers -- the same type when asked -- and the same
    element at every index); else what differs."""
    if not isinstance(b, np.ndarray):
        return f'came back as {b!r} ({type(b).__name__}), not an array'
    if b.shape != a.shape:
        return f'shape {a.shape} came back as {b.shape}'
    if b.dtype.kind != a.dtype.kind or (same_dtype is not None and b.dtype.newbyteorder('=') != np.dtype(same_dtype).newbyteorder('=')):
        return f'element type {a.dtype} came back as {b.dtype}'
    for idx in np.ndindex(*a.shape):
        if not (a[idx] == b[idx]):
            return f'element {list(idx)} is {a[idx].item()!r}, came back {b[idx].item()!r}'
    return None


def nd_literal(rc):
    return 'nd_build(%r)' % ({k: v for k, v in rc.items() if k != 'layout'},)


def nd_memory(a):
    """(element strides, element offset, the memory the array is a view of as a flat array) -- read off the array object."""
    own = a
    while isinstance(own.base, np.ndarray):
        own = own.base
    if own.size == 0 or a.size == 0:
        return [0] * a.ndim, 0, np.zeros((0,), dtype=a.dtype)
    mem = own.ravel(order='K')
    if mem.size != own.size or not (own.flags.c_contiguous or own.flags.f_contiguous):
        return None
    isz = a.dtype.itemsize
    off = a.__array_interface__['data'][0] - own.__array_interface__['data'][0]
    if off % isz or any(s_ % isz for s_ in a.strides):
        return None
    strides, off = [s_ // isz for s_ in a.strides], off // isz
    for idx in list(np.ndindex(*a.shape))[:4] + list(np.ndindex(*a.shape))[-2:]:       # the view really is what we say it is
        if not (mem[off + sum(i * s_ for i, s_ in zip(idx, strides))] == a[idx]):
            return None
    return strides, off, mem


def nd_wire_elements(field, arr_msg):
    """The elements a message holds, in wire order, decoded from the message alone (ndarrays.proto: shape, endianness with
    0 = little and 1 = big, flat bytes; 8-bit types have no endianness)."""
    base = {v: k for k, v in ND_FIELD.items()}[field]
    dt = np.dtype(base)
    if dt.itemsize > 1:
        dt = dt.newbyteorder('>' if getattr(arr_msg, 'endianness', 0) == 1 else '<')
    return np.frombuffer(arr_msg.flat_bytes, dtype=dt)


def nd_check_array(cirq, cg, rc, report, count=None, in_program=True):
    """Every round trip of one array.  report(signature, what, replay) is called for each failure; returns (array, the Arg
    message arg_to_proto wrote or None)."""
    from cirq_google.api.v2 import ndarrays
    from cirq_google.serialization import arg_func_langs as afl
    S = cg.CIRCUIT_SERIALIZER
    q0 = cirq.GridQubit(0, 0)
    a = nd_build(rc)
    dtype = rc['dtype']
    own = dtype if dtype in ND_DTYPES else None
    nontriv = a.ndim >= 2 and a.size >= 4 and not a.flags.c_contiguous

    def attempt(write, read):
        """('ok', what is read back) | ('refused', why: ValueError while writing) | ('raised', other error while writing) |
        ('unreadable', error while reading what was written without complaint)."""
        try:
            m = write()
        except ValueError as e:
            return 'refused', str(e)[:160]
        except Exception as e:
            return 'raised', f'{type(e).__name__}: {str(e)[:160]}'
        try:
            return 'ok', read(m)
        except Exception as e:
            return 'unreadable', f'{type(e).__name__}: {str(e)[:160]}'

    def judge(a, entry, status, back, same_dtype=None, note=''):
        """One round trip: refusal (ValueError) is allowed only for what the format has no room for; whatever is accepted must
        come back element by element."""
        rp = dict(kind='ndarray', recipe=dict(rc), entry=entry)
        desc = f'a = {nd_literal(rc)}{note} ({rc["layout"]}: {nd_layout_text(a)})'
        supported = dtype in ND_DTYPES and not rc.get('swap') and a.ndim > 0       # (an empty shape field means an unset message)
        if status == 'ok':
            why = nd_diff(a, back, same_dtype)
            if why is None:
                return True
            if back is None or (isinstance(back, np.ndarray) and back.dtype == object):
                report('ndarray:unsupported-dtype-dropped' if not supported else 'ndarray:dropped',
                       f'{entry}: an array of type {a.dtype.str} is written without complaint and comes back as {back!r}; {desc}', rp)
                return False
            moved = (isinstance(back, np.ndarray) and back.shape == a.shape and a.size > 0
                     and sorted(map(repr, a.ravel().tolist())) == sorted(map(repr, back.ravel().tolist())))
            report('ndarray:elements-permuted' if moved else 'ndarray:roundtrip',
                   f'{entry}: the array read back differs from the array written: {why}; {desc}; sent {a.tolist()!r} got {back.tolist()!r}'[:1500], rp)
            return False
        if status == 'unreadable' and a.ndim == 0:
            report('ndarray:zero-dim-unreadable', f'{entry}: a zero-dimensional array is written without complaint (the shape field stays empty) and the message cannot be '
                   f'read: {back}; {desc}', rp)
            return False
        if status == 'refused' and not supported:
            return True                     # the format has no room for it, and says so
        report('ndarray:' + status, f'{entry}: {"writing raises" if status != "unreadable" else "written without complaint, reading raises"} {back}; {desc}', rp)
        return False

    # 1. the generic argument encoding
    holder = {}

    def write_arg():
        holder['m'] = afl.arg_to_proto(a)
        return holder['m']
    st, back = attempt(write_arg, afl.arg_from_proto)
    judge(a, 'arg_from_proto(arg_to_proto(a))', st, back, same_dtype=own)
    # 2. the helpers, with every widening they document (what they cannot hold must be refused, not cut)
    for name, elem, accepted in ND_HELPERS:
        if np.dtype(dtype).kind != np.dtype(elem).kind:
            continue
        to_f, from_f = getattr(ndarrays, f'to_{name}_array'), getattr(ndarrays, f'from_{name}_array')
        st, back = attempt(lambda: to_f(a), from_f)
        entry = f'from_{name}_array(to_{name}_array(a))'
        if dtype in accepted:
            ok = judge(a, entry, st, back, same_dtype=elem)
            if count:
                count('ndarray:helper', [name, {k: v for k, v in rc.items() if k != 'layout'}], nontriv and ok)
        elif st == 'ok' and a.ndim and nd_diff(a, back) is not None:
            report('ndarray:narrowing-accepted', f'{entry}: an array of type {a.dtype.str}, which the message cannot hold, is accepted and comes back changed: {nd_diff(a, back)}; '
                   f'a = {nd_literal(rc)}', dict(kind='ndarray', recipe=dict(rc), entry=entry))
    if dtype in ('?', 'u1'):
        bits = a if dtype == '?' else (a % 2)
        st, back = attempt(lambda: ndarrays.to_bitarray(bits), ndarrays.from_bitarray)
        if st == 'ok' and isinstance(back, np.ndarray) and back.dtype.kind in 'bu':
            back = back.astype(bits.dtype)
        judge(bits, 'from_bitarray(to_bitarray(a))', st, back, note=' % 2' if dtype == 'u1' else '')
    # 3. as an argument of an InternalGate / InternalTag, on their own and inside a program
    gate = cg.InternalGate('Pulse', 'internal.module', 1, envelope=a, other=0.5)
    st, back = attempt(lambda: afl.internal_gate_arg_to_proto(gate), lambda m: afl.internal_gate_from_proto(m).gate_args.get('envelope'))
    judge(a, "internal_gate_from_proto(internal_gate_arg_to_proto(InternalGate(.., envelope=a))).gate_args['envelope']", st, back, same_dtype=own)
    tag = cg.InternalTag(name='Shape', package='internal.module', samples=a)
    st, back = attempt(tag.to_proto, lambda m: cg.InternalTag.from_proto(m).tag_args.get('samples'))
    judge(a, "InternalTag.from_proto(InternalTag(.., samples=a).to_proto()).tag_args['samples']", st, back, same_dtype=own)
    if in_program:
        for what, circuit, pick in [('InternalGate argument', cirq.Circuit(gate.on(q0)), lambda d: next(iter(d.all_operations())).gate.gate_args.get('envelope')),
                                    ('InternalTag argument', cirq.Circuit(cirq.X(q0).with_tags(tag)), lambda d: next(iter(d.all_operations())).tags[0].tag_args.get('samples'))]:
            st, back = attempt(lambda: S.serialize(circuit), lambda m: pick(S.deserialize(m)))
            if st == 'raised' and 'unhashable' in str(back):
                report('circuit:internal-args-unhashable', f'a program with an array-valued {what} cannot be serialized: serialize raises {back} (the constants table hashes the '
                       f'operation, whose value equality holds the argument dict as it is); a = {nd_literal(rc)}', dict(kind='ndarray', recipe=dict(rc), entry='program: ' + what))
            else:
                judge(a, f'program with an {what}: deserialize(serialize(c))', st, back, same_dtype=own)
    return a, holder.get('m')


def replay_ndarray(cirq, cg, data):
    problems = []
    a, _ = nd_check_array(cirq, cg, data['recipe'], lambda sig, what, rp: problems.append((sig, what, rp)))
    print('a =', nd_literal(data['recipe']), '|', nd_layout_text(a))
    hit = [p_ for p_ in problems if p_[2].get('entry') == data['entry']] if data.get('entry') else problems
    for sig, what, _ in hit:
        print(sig, '|', what[:800])
    return not hit


def ndarrays_stream(ctx, cirq, cg, n):
    """Array-valued arguments: every element type x every shape x every memory layout, through every way an array reaches the
    wire (the to_*_array helpers with widening, arg_to_proto, an InternalGate argument, an InternalTag argument, a program)."""
    rng = ctx.rng
    recipes = []
    for dtype in ND_DTYPES:
        for shape in ND_SHAPES:
            for layout in ND_LAYOUTS:
                rc = nd_recipe(dtype, shape, layout)
                if rc is not None:
                    recipes.append(rc)
    for dtype in ND_DTYPES + ND_UNSUPPORTED:
        for shape in [(3, 4), (2, 3, 4), (5,)]:
            for layout in (['swapped-bytes', 'swapped-bytes-transposed'] if dtype in ND_DTYPES else ['C', 'transposed']):
                if np.dtype(dtype).itemsize > 1:
                    recipes.append(nd_recipe(dtype, shape, layout))
    for _ in range(n):
        nd = rng.choice([1, 2, 2, 3, 3, 4])
        shape = tuple(rng.choice([0, 1, 2, 2, 3, 3, 4, 5]) for _ in range(nd))
        recipes.append(nd_recipe(rng.choice(ND_DTYPES), shape, 'random', rng))
    rows, bitrows = [], []
    for case, rc in enumerate(recipes):
        dtype = rc['dtype']
        a, m = nd_check_array(cirq, cg, rc, ctx.violation, ctx.count, in_program=(case % 7 == 0 or rc['layout'] in ('C', 'transposed')))
        nontriv = a.ndim >= 2 and a.size >= 4 and not a.flags.c_contiguous
        ctx.count('ndarray:arg', [{k: v for k, v in rc.items() if k != 'layout'}], nontriv,
                  sample=dict(recipe=nd_literal(rc), layout=nd_layout_text(a), values=a.tolist() if 0 < a.size <= 12 and a.dtype.kind != 'c' else None))
        # the message itself against the model (Codec/NdArray.v): the shape, and the elements in the C order of the indices
        if m is None or dtype not in ND_DTYPES or rc.get('swap'):
            continue
        field = m.arg_value.ndarray_value.WhichOneof('arr')
        if field != ND_FIELD[dtype]:
            ctx.violation('ndarray:message-type', f'arg_to_proto writes an array of type {a.dtype.str} into the field {field!r} (expected {ND_FIELD[dtype]!r}); a = {nd_literal(rc)}',
                          dict(kind='ndarray', recipe=dict(rc), entry='arg_to_proto'))
            continue
        am = getattr(m.arg_value.ndarray_value, field)
        memo = nd_memory(a)
        if memo is None:
            continue
        strides, off, mem = memo
        codes = {}
        code = lambda x: codes.setdefault(x.item() if hasattr(x, 'item') else x, len(codes))
        view = f'(mkV {coq.zlist(a.shape)}%nat {coq.zlist(strides)} {coq.zlit(off)})'
        if dtype == '?':
            bitrows.append((coq.blist(bool(x) for x in mem), view, coq.zlist(am.shape) + '%nat', coq.zlist(am.flat_bytes), rc))
        else:
            wire = nd_wire_elements(field, am)
            rows.append((coq.zlist(code(x) for x in mem), view, coq.zlist(am.shape) + '%nat', coq.zlist(code(x) for x in wire), rc))
        ctx.count('ndarray:message', [{k: v for k, v in rc.items() if k != 'layout'}], nontriv)
    head = ('From Coq Require Import ZArith List Bool.\nFrom VF Require Import Codec.NdArray Base.Harness.\nImport ListNotations.\nOpen Scope Z_scope.\n')
    for shard in range(0, len(rows), 450):
        part = rows[shard:shard + 450]
        text = head + 'Definition cs : list (list Z * view * list nat * list Z) := [\n' + ';\n'.join(f'({b}, {v}, {sh}, {w})' for b, v, sh, w, _ in part) + '].\n'
        text += ('Eval vm_compute in failing (fun c => match c with (b, v, sh, w) => nl_eqb (fst (to_msg (-1) b v)) sh && zl_eqb (snd (to_msg (-1) b v)) w end) cs.\n')
        vals = coq.parse_evals(coq.coq_eval(f'c16_ndarrays_{ctx.seed}_{shard}', text))
        for idx in coq.parse_nat_list(vals[0]):
            rc = part[idx][4]
            ctx.mark_broken('correspondence:to_array', f'the message written for a = {nd_literal(rc)} ({rc["layout"]}: {nd_layout_text(nd_build(rc))}) is not shape + elements in the C order of the '
                            f'indices: model input {part[idx][:2]}, message shape {part[idx][2]} elements {part[idx][3][:300]}')
    for shard in range(0, len(bitrows), 450):
        allbits, bitrows = bitrows, bitrows[shard:shard + 450]
        text = head + 'Definition cs : list (list bool * view * list nat * list Z) := [\n' + ';\n'.join(f'({b}, {v}, {sh}, {w})' for b, v, sh, w, _ in bitrows) + '].\n'
        text += ('Eval vm_compute in failing (fun c => match c with (b, v, sh, w) => nl_eqb (fst (to_bitmsg false b v)) sh && zl_eqb (snd (to_bitmsg false b v)) w end) cs.\n')
        vals = coq.parse_evals(coq.coq_eval(f'c16_bitarrays_{ctx.seed}_{shard}', text))
        for idx in coq.parse_nat_list(vals[0]):
            rc = bitrows[idx][4]
            ctx.mark_broken('correspondence:to_bitarray', f'the bit array message written for a = {nd_literal(rc)} ({rc["layout"]}) is not shape + bits in the C order of the indices, '
                            f'most significant first: message {bitrows[idx][2]} {bitrows[idx][3][:300]}')
        bitrows = allbits


# ------------------------------------------------------------------ sequence-valued arguments (model: Codec/ArgSeq.v)
SEQ_KINDS = ['list', 'tuple', 'set', 'frozenset']
SEQ_COQ = {'list': 'KList', 'tuple': 'KTuple', 'set': 'KSet', 'frozenset': 'KFrozen'}
SEQ_TYPES = {'list': list, 'tuple': tuple, 'set': set, 'frozenset': frozenset}
SEQ_ELEM_KINDS = ['b', 'nb', 'i', 'ni', 'f', 'nf']     # bool, numpy bool, int, numpy integer, float, numpy floating
# the value an element kind takes at position 0, 1, 2 of a grid sequence: pairwise different numbers, no float is integral and
# no integer is 0 or 1, so that a number that is cut to an integer or to a bool is a number that changes
SEQ_GRID_VALUES = {'b': [['b', True], ['b', False], ['b', True]], 'nb': [['nb', False], ['nb', True], ['nb', True]],
                   'i': [['i', 2], ['i', 7], ['i', -3]], 'ni': [['ni', 4, 'int64'], ['ni', 9, 'int32'], ['ni', -5, 'int8']],
                   'f': [['f', 2.5], ['f', 0.75], ['f', -1.25]], 'nf': [['nf', 3.5, 'float64'], ['nf', 0.375, 'float32'], ['nf', -2.75, 'float16']]}
SEQ_OTHERS = ['(1, 2.5)', '[3, 0.5]', '(1+2j)', "sympy.Symbol('t')", '2 * tunits.ns', "b'ab'", "('a', (True, 0.5))", '(0.5, 7)', "('p', 'q')"]
SEQ_OTHERS_UNHASHABLE = ['[3, 0.5]']


def seq_namespace():
    import sympy
    import tunits
    return dict(np=np, sympy=sympy, tunits=tunits)


def seq_elem(e):
    """The Python value of one recipe element: [kind, payload, (numpy type)]."""
    k = e[0]
    if k == 'b':
        return bool(e[1])
    if k == 'nb':
        return np.bool_(e[1])
    if k == 'i':
        return int(e[1])
    if k in ('ni', 'nf'):
        return getattr(np, e[2])(e[1])
    if k == 'f':
        return float(e[1])
    if k == 's':
        return str(e[1])
    return eval(e[1], seq_namespace())            # 'x': any other value, given as a literal


def seq_build(rc):
    return SEQ_TYPES[rc['seq']](seq_elem(e) for e in rc['elems'])


def seq_literal(rc):
    return repr(seq_build(rc))


def is_number(x):
    return isinstance(x, (bool, np.bool_, int, float, np.integer, np.floating))


def arg_diff(want, got, path='the value'):
    """None when `got` is the argument `want` read back as the property allows: every number the same up to one single-precision
    rounding (a bool may come back as the number 0 / 1), every string / bytes / complex / symbol / unit value equal, every
    sequence of the same length with its elements in place (a set: the same elements) and of the same kind.
    Else (level, what): level 'values' when a number, an element or a length differs; when only the kind of a sequence does, 'kind' for
    a sequence of numbers and 'kind-other' for any other sequence."""
    import sympy
    if is_number(want):
        if not is_number(got):
            return 'values', f'{path} {want!r} came back as {got!r} ({type(got).__name__})'
        fw, fg = float(want), float(got)
        with np.errstate(over='ignore'):
            same = fw == fg or (fw != fw and fg != fg) or bool(np.float32(fw) == np.float32(fg))
        return None if same else ('values', f'{path} {want!r} came back as {got!r}')
    if isinstance(want, (list, tuple, set, frozenset)):
        if not isinstance(got, (list, tuple, set, frozenset)):
            return 'values', f'{path} {want!r} came back as {got!r} ({type(got).__name__})'
        kind_note = None
        if isinstance(want, (list, tuple)):
            if len(got) != len(want):
                return 'values', f'{path} {want!r} (length {len(want)}) came back as {got!r} (length {len(got)})'
            if not isinstance(got, (list, tuple)):
                return 'values', f'{path} {want!r} came back without its order: {got!r}'
            for i, (w, g) in enumerate(zip(want, got)):
                d = arg_diff(w, g, f'element {i} of {path}' if path != 'the value' else f'element {i}')
                if d is not None and d[0] == 'values':
                    return 'values', d[1] + f' ({want!r} came back as {got!r})'
                kind_note = d if d is not None and (kind_note is None or (d[0] == 'kind-other' and kind_note[0] == 'kind')) else kind_note
        else:
            # a set: the same elements (elements that single-precision rounding makes equal may have merged)
            matches = lambda w, g: (arg_diff(w, g) or ('kind',))[0] != 'values'
            for w in want:
                hit = next((g for g in got if matches(w, g)), None)
                if hit is None:
                    return 'values', f'element {w!r} of {path} {want!r} is not among what came back: {got!r}'
                d = arg_diff(w, hit)
                kind_note = d if d is not None and (kind_note is None or (d[0] == 'kind-other' and kind_note[0] == 'kind')) else kind_note
            stray = [g for g in got if not any(matches(w, g) for w in want)]
            if stray or len(got) > len(want):
                return 'values', f'{path} {want!r} came back with elements it did not hold ({stray!r}): {got!r}'
        if type(got) is not type(want):
            # a sequence of numbers travels in a repeated numeric field, which has no sequence type (finding arg:sequence-kind);
            # any other sequence travels as a tuple_value, which has one
            here = ('kind' if seq_all_numbers(want) else 'kind-other', f'{path} {want!r}, a {type(want).__name__}, came back as a {type(got).__name__}: {got!r}')
            return here if here[0] == 'kind-other' or kind_note is None else kind_note
        return kind_note
    if isinstance(want, np.ndarray):
        return None if isinstance(got, np.ndarray) and got.shape == want.shape and np.array_equal(want, got) else ('values', f'{path} {want!r} came back as {got!r}')
    if isinstance(want, sympy.Basic):
        return None if isinstance(got, sympy.Basic) and want == got else ('values', f'{path} {want!r} came back as {got!r}')
    import tunits
    alike = type(got) is type(want) or (isinstance(want, tunits.Value) and isinstance(got, tunits.Value))     # (Time(2, 'ns') is read as Value(2, 'ns'))
    if not alike or not (want == got):
        return 'values', f'{path} {want!r} came back as {got!r} ({type(got).__name__})'
    return None


def seq_int64_overflow(v):
    """Whether the sequence holds an integer the int64 field has no room for (the only thing that may be refused)."""
    return any(isinstance(x, (int, np.integer)) and not isinstance(x, bool) and not -2 ** 63 <= int(x) < 2 ** 63 for x in v)


def seq_hashable(v):
    try:
        hash(v)
        return True
    except TypeError:
        return False


def seq_all_numbers(v):
    return isinstance(v, (list, tuple, set, frozenset)) and len(v) > 0 and all(is_number(x) for x in v)


def holds_hashable_numbers(v):
    """Whether v is, or holds at any depth, a hashable sequence of numbers (a tuple or frozenset: read back as a list)."""
    if isinstance(v, (tuple, frozenset)) and seq_all_numbers(v):
        return True
    return isinstance(v, (list, tuple, set, frozenset)) and any(holds_hashable_numbers(x) for x in v)


def seq_check(cirq, cg, rc, report, in_program=True):
    """Every way one sequence-valued argument reaches the wire (always through the bytes of the message): the bare Arg, an
    InternalGate argument, an InternalTag argument, an ArgMapping value (and key), the argument of a circuit function, and
    inside a program an InternalGate argument, an InternalTag argument and a raw-value tag.  report(signature, what, replay)
    is called for each failure; returns (the value, the Arg message arg_to_proto wrote | 'refused' | None, failures)."""
    from cirq_google.api import v2
    from cirq_google.serialization import arg_func_langs as afl
    S = cg.CIRCUIT_SERIALIZER
    pb = v2.program_pb2
    q0 = cirq.GridQubit(1, 2)
    v = seq_build(rc)
    lit = repr(v)
    failures = []

    def through_bytes(msg, cls):
        m = cls()
        m.ParseFromString(msg.SerializeToString())
        return m

    def attempt(write, read):
        try:
            m = write()
        except ValueError as e:
            return 'refused', f'ValueError: {str(e)[:160]}'
        except Exception as e:
            return 'raised', f'{type(e).__name__}: {str(e)[:160]}'
        try:
            return 'ok', read(m)
        except Exception as e:
            return 'unreadable', f'{type(e).__name__}: {str(e)[:160]}'

    def fail(sig, what, entry):
        failures.append((sig, entry))
        report(sig, what[:1500], dict(kind='arg_sequence', recipe=dict(rc), entry=entry))

    def judge(entry, status, back, want=None):
        want = v if want is None else want
        if status == 'ok':
            d = arg_diff(want, back)
            if d is None:
                return True
            if d[0] == 'values':
                fail('arg:sequence-values', f'{entry}: the argument read back is not the argument written: {d[1]}; value = {lit}', entry)
            elif d[0] == 'kind':
                fail('arg:sequence-kind', f'{entry}: {d[1]}; value = {lit} (the numbers are the same, the object that holds them is not equal to the one written)', entry)
            else:
                fail('arg:sequence-kind-lost', f'{entry}: {d[1]}; value = {lit} (a sequence that is written element by element with its sequence type)', entry)
            return False
        if status == 'refused' and seq_int64_overflow(v):
            return True                         # the format has no room for the integer, and says so
        if status == 'unreadable' and 'unhashable' in str(back) and holds_hashable_numbers(v):
            fail('arg:sequence-kind', f'{entry}: written without complaint, reading raises {back}: a tuple / frozenset of numbers in {lit} is read back as a list, '
                 f'which cannot stand where it stood (a dict key, an element of a set)', entry)
            return False
        fail('arg:' + status, f'{entry}: {"writing raises" if status != "unreadable" else "written without complaint, reading raises"} {back}; value = {lit}', entry)
        return False

    holder = {}

    def write_bare():
        holder['m'] = 'refused'
        holder['m'] = through_bytes(afl.arg_to_proto(v), pb.Arg)
        return holder['m']
    st, back = attempt(write_bare, afl.arg_from_proto)
    if st not in ('ok', 'refused'):
        holder['m'] = None
    judge('arg_from_proto(arg_to_proto(value))', st, back)
    gate = cg.InternalGate('Ramp', 'pulses', 1, levels=v, other=0.5)
    st, back = attempt(lambda: through_bytes(afl.internal_gate_arg_to_proto(gate), pb.InternalGate), lambda m: afl.internal_gate_from_proto(m).gate_args.get('levels'))
    judge("internal_gate_from_proto(internal_gate_arg_to_proto(InternalGate(.., levels=value))).gate_args['levels']", st, back)
    tag = cg.InternalTag(name='Shape', package='pulses', knots=v)
    st, back = attempt(lambda: through_bytes(tag.to_proto(), pb.Tag), lambda m: cg.InternalTag.from_proto(m).tag_args.get('knots'))
    judge("InternalTag.from_proto(InternalTag(.., knots=value).to_proto()).tag_args['knots']", st, back)
    st, back = attempt(lambda: through_bytes(afl.dict_to_arg_mapping_proto({'k': v, 'other': 1.5}), pb.ArgMapping), lambda m: afl.dict_from_arg_mapping_proto(m).get('k'))
    judge("dict_from_arg_mapping_proto(dict_to_arg_mapping_proto({'k': value, ..}))['k']", st, back)
    if seq_hashable(v):
        st, back = attempt(lambda: through_bytes(afl.dict_to_arg_mapping_proto({v: 'under the value'}), pb.ArgMapping),
                           lambda m: next(iter(afl.dict_from_arg_mapping_proto(m))))
        judge("the key of dict_from_arg_mapping_proto(dict_to_arg_mapping_proto({value: ..}))", st, back)
    if in_program:
        plain = cirq.Circuit(cirq.X(q0))
        st, back = attempt(lambda: through_bytes(S.serialize_circuit_function(lambda w: plain, cirq.Points('w', [v])), pb.Program),
                           lambda m: dict(S.deserialize_multi_program(m)[0][1]).get('w'))
        judge("circuit function called with w=value: the argument listed by deserialize_multi_program(serialize_circuit_function(..))", st, back)
        ops = [gate.on(q0), cirq.X(q0).with_tags(tag)] + ([cirq.Y(q0).with_tags(v)] if seq_hashable(v) else [])
        circuit = cirq.Circuit(ops)

        def read_program(m):
            got = list(S.deserialize(m).all_operations())
            return (got[0].gate.gate_args.get('levels'), got[1].tags[0].tag_args.get('knots')) + ((got[2].tags[0],) if len(ops) == 3 else ())
        st, back = attempt(lambda: through_bytes(S.serialize(circuit), pb.Program), read_program)
        if st == 'raised' and 'unhashable' in str(back) and not seq_hashable(v):
            fail('circuit:internal-args-unhashable', f'a program with an InternalGate / InternalTag argument {lit} cannot be serialized: serialize raises {back} (the constants table '
                 f'hashes the operation, whose value equality holds the argument dict as it is)', 'program')
        elif st != 'ok':
            judge('program with the value as InternalGate argument, InternalTag argument and raw tag: deserialize(serialize(c))', st, back)
        else:
            for what, b in zip(['InternalGate argument', 'InternalTag argument', 'raw-value tag'], back):
                judge(f'program holding the value as {what}: deserialize(serialize(c))', 'ok', b)
    return v, holder.get('m'), failures


def q_lit(x):
    """Gallina literal of the exact rational a finite float is."""
    from fractions import Fraction
    fr = Fraction(float(x))
    return f'(Qmake ({fr.numerator})%Z ({fr.denominator})%positive)'


def seq_model_rows(cirq, v, m):
    """(elements of the model, message the implementation wrote as a term of Codec/ArgSeq.v) or None when the value is outside
    the model (a float that is not finite, an integer a double cannot hold exactly next to a float)."""
    from cirq_google.serialization import arg_func_langs as afl
    xs = list(v)
    sid = {}
    elems = []
    for i, x in enumerate(xs):
        if isinstance(x, bool):
            elems.append(f'EB {"true" if x else "false"}')
        elif isinstance(x, np.bool_):
            elems.append(f'ENB {"true" if x else "false"}')
        elif isinstance(x, np.integer):
            elems.append(f'ENI {coq.zlit(int(x))}')
        elif isinstance(x, int):
            elems.append(f'EI {coq.zlit(int(x))}')
        elif isinstance(x, (float, np.floating)):
            if not np.isfinite(float(x)):
                return None
            elems.append(f'EF {q_lit(x)}')
        elif isinstance(x, str):
            elems.append(f'ES {sid.setdefault(x, len(sid))}')
        else:
            elems.append(f'EX {i}')
    has_float = any(isinstance(x, (float, np.floating)) for x in xs)
    if has_float and any(isinstance(x, (int, np.integer)) and not isinstance(x, bool) and abs(int(x)) > 2 ** 53 for x in xs):
        return None
    if m == 'refused':
        wire = 'WRefused'
    else:
        av = m.arg_value
        w = av.WhichOneof('arg_value') if m.WhichOneof('arg') == 'arg_value' else None
        if w == 'bool_values':
            wire = f'(WBools {coq.blist(av.bool_values.values)})'
        elif w == 'int64_values':
            wire = f'(WInts {coq.zlist(av.int64_values.values)})'
        elif w == 'double_values':
            if not all(np.isfinite(x) for x in av.double_values.values):
                return None
            wire = f'(WDoubles [{"; ".join(q_lit(x) for x in av.double_values.values)}])'
        elif w == 'string_values':
            wire = f'(WStrings {coq.zlist(sid.get(s, -1) for s in av.string_values.values)})'
        elif w == 'tuple_value':
            tv = av.tuple_value
            kind = {1: 'KList', 2: 'KTuple', 3: 'KSet', 4: 'KFrozen'}.get(int(tv.sequence_type))
            if kind is None:
                return None
            sw = []
            for i, a in enumerate(tv.values):
                wa = a.arg_value.WhichOneof('arg_value') if a.WhichOneof('arg') == 'arg_value' else None
                if wa == 'bool_value':
                    sw.append(f'SBool {"true" if a.arg_value.bool_value else "false"}')
                elif wa == 'float_value':
                    if not np.isfinite(a.arg_value.float_value):
                        return None
                    sw.append(f'SFloat {q_lit(a.arg_value.float_value)}')
                elif wa == 'string_value':
                    sw.append(f'SStr {coq.zlit(sid.get(a.arg_value.string_value, -1))}')
                else:
                    try:        # any other message stands for the element at its place when it reads back as that element
                        same = i < len(xs) and (arg_diff(xs[i], afl.arg_from_proto(a)) or ('kind',))[0] != 'values'
                    except Exception:
                        same = False
                    sw.append(f'SOther {coq.zlit(i if same else -1)}')
            wire = f'(WTuple {kind} [{"; ".join(sw)}])'
        else:
            return None
    return '[' + '; '.join(elems) + ']', wire


def fixed_seq_recipes():
    """For every VERIF_SEED: every sequence of one, two and three numbers over the six kinds of number (bool, numpy bool, int,
    numpy integer, float, numpy floating -- every order, so every narrower-before-wider mixture) in each of the four kinds of
    sequence; then special values."""
    import itertools
    out = []
    for n in (1, 2, 3):
        for kinds in itertools.product(SEQ_ELEM_KINDS, repeat=n):
            for seq in SEQ_KINDS:
                out.append(dict(seq=seq, elems=[SEQ_GRID_VALUES[k][p] for p, k in enumerate(kinds)]))
    I, F, B, Sx, X = (lambda z: ['i', z]), (lambda x: ['f', x]), (lambda b: ['b', b]), (lambda s: ['s', s]), (lambda l: ['x', l])
    specials = [
        [I(1), F(2.5), F(0.75)], [I(0), F(0.25), F(0.5), F(0.75)], [B(True), I(3), I(0)], [B(False), F(0.5)], [I(10), F(12.5)],
        [['ni', 1, 'int64'], ['nf', 1.5, 'float64']], [F(2.5), I(1), I(4)], [I(2), B(True), I(0)], [I(3), I(8), I(-2)], [F(42.9), F(3.14), F(0.5)],
        [I(z) for z in range(2, 10)] + [F(0.1)], [B(i % 2 == 0) for i in range(8)] + [I(5)], [B(True)] * 3 + [I(4)] * 3 + [F(4.5)] * 2,
        [I(5), I(6), F(6.5), I(7), I(8)], [B(True), B(False), F(1e-7)], [I(1), F(1.0000001)], [I(-1), F(-0.999)], [I(100000), F(100000.5)],
        [I(2 ** 62), I(1)], [I(-2 ** 63), I(5)], [I(2 ** 63)], [I(2 ** 63), F(0.5)], [I(2 ** 53), F(0.5)], [I(2 ** 40 + 1), F(0.5)], [B(True), I(2 ** 40 + 1)],
        [['ni', 200, 'uint8'], F(0.5)], [['ni', 2 ** 63 - 1, 'uint64'], I(1)], [['nf', 0.1, 'float32'], I(1)], [I(1), ['nf', 0.1, 'float32']],
        [I(1), F(float('inf'))], [F(float('-inf')), I(2)],
        [Sx('a'), Sx('b')], [Sx(''), Sx('x')], [Sx('a'), I(1)], [I(1), Sx('a')], [Sx('a'), B(True)], [B(True), Sx('a')], [Sx('a'), F(2.5), I(2)], [I(2), F(2.5), Sx('a')],
        [I(3), ['nb', True]], [['nb', True], I(3)], [F(0.5), ['nb', False]], [['nb', False], F(0.5)],
        [],
    ]
    for lit in SEQ_OTHERS:
        specials += [[X(lit)], [X(lit), I(1)], [I(1), X(lit)], [I(1), F(2.5), X(lit)], [X(lit), Sx('s')], [Sx('s'), X(lit)]]
    for elems in specials:
        for seq in SEQ_KINDS:
            if seq in ('set', 'frozenset') and any(e[0] == 'x' and e[1] in SEQ_OTHERS_UNHASHABLE for e in elems):
                continue
            out.append(dict(seq=seq, elems=elems))
    return out


def gen_seq_recipe(rng):
    seq = rng.choice(SEQ_KINDS)
    profile = rng.choice(['numbers', 'numbers', 'numbers', 'mixed'])
    elems = []
    for _ in range(rng.choice([1, 2, 2, 3, 3, 4, 5, 8])):
        k = rng.choice(SEQ_ELEM_KINDS + (['s', 's', 'x'] if profile == 'mixed' else []))
        if k in ('b', 'nb'):
            elems.append([k, rng.random() < 0.5])
        elif k == 'i':
            elems.append([k, rng.choice([0, 1, 2, -1, rng.randrange(-100, 100), rng.randrange(-2 ** 31, 2 ** 31), rng.randrange(-2 ** 52, 2 ** 52)])])
        elif k == 'ni':
            t = rng.choice(['int64', 'int32', 'int16', 'int8', 'uint8', 'uint32'])
            lo, hi = (0, 200) if t.startswith('u') else (-100, 100)
            elems.append([k, rng.randrange(lo, hi), t])
        elif k == 'f':
            elems.append([k, rng.choice([0.5, 0.25, -0.75, 2.5, 0.1, 1 / 3, 1e-7, 1e10 + 0.5, round(rng.uniform(-100, 100), 3), rng.uniform(-1, 1), float(rng.randrange(-5, 5))])])
        elif k == 'nf':
            t = rng.choice(['float64', 'float32', 'float16'])
            elems.append([k, float(getattr(np, t)(rng.choice([0.5, -2.75, 0.1, 3.0, round(rng.uniform(-50, 50), 2)]))), t])
        elif k == 's':
            elems.append([k, rng.choice(['a', 'b', '', 'two words', '1'])])
        else:
            elems.append([k, rng.choice([l for l in SEQ_OTHERS if seq in ('list', 'tuple') or l not in SEQ_OTHERS_UNHASHABLE])])
    return dict(seq=seq, elems=elems)


def replay_arg_sequence(cirq, cg, data):
    problems = []
    v, _, _ = seq_check(cirq, cg, data['recipe'], lambda sig, what, rp: problems.append((sig, what, rp)))
    print('value =', repr(v))
    hit = [p_ for p_ in problems if p_[2].get('entry') == data['entry']] if data.get('entry') else problems
    if data.get('signature', '').startswith(('arg:', 'circuit:')):          # the failure that was recorded, not a recorded finding next to it
        hit = [p_ for p_ in hit if p_[0] == data['signature']]
    for sig, what, _ in hit:
        print(sig, '|', what[:800])
    return not hit


def arg_sequences_stream(ctx, cirq, cg, n):
    """Sequence-valued arguments: every mixture and order of the kinds of number, strings and other values, in a list / tuple /
    set / frozenset, through every user of the Arg encoding; the message against the model Codec/ArgSeq.v."""
    rng = ctx.rng
    recipes = fixed_seq_recipes() + [gen_seq_recipe(rng) for _ in range(n)]
    rows = []
    for case, rc in enumerate(recipes):
        hashable_seq = rc['seq'] in ('tuple', 'frozenset')
        v, m, failures = seq_check(cirq, cg, rc, ctx.violation, in_program=(hashable_seq or case % 5 == 0))
        kinds = [e[0] for e in rc['elems']]
        rank = {'b': 0, 'nb': 0, 'i': 1, 'ni': 1, 'f': 2, 'nf': 2}
        ranks = [rank.get(k, 3) for k in (kinds if rc['seq'] in ('list', 'tuple') else
                                          ['b' if isinstance(x, bool) else 'nb' if isinstance(x, np.bool_) else 'i' if isinstance(x, (int, np.integer)) else
                                           'f' if isinstance(x, (float, np.floating)) else 's' for x in v])]
        widening = len(ranks) >= 2 and max(ranks) <= 2 and ranks[0] < max(ranks)        # a narrower kind of number leads a wider one
        ctx.count('arg_sequence:roundtrip', [rc['seq'], rc['elems']], len(set(kinds)) >= 2,
                  sample=dict(value=repr(v)[:200], field=None if m in (None, 'refused') else m.arg_value.WhichOneof('arg_value')) if widening else None)
        if widening:
            ctx.count('arg_sequence:narrow_kind_leads', [rc['seq'], rc['elems']], True)
        if m is None:
            continue
        row = seq_model_rows(cirq, v, m)
        if row is None:
            continue
        rows.append((SEQ_COQ[rc['seq']], row[0], row[1], rc))
        ctx.count('arg_sequence:message', [rc['seq'], rc['elems']], len(set(kinds)) >= 2)
    head = ('From Coq Require Import ZArith QArith List Bool.\nFrom VF Require Import Codec.ArgSeq Base.Harness.\nImport ListNotations.\nOpen Scope Z_scope.\n')
    for shard in range(0, len(rows), 450):
        part = rows[shard:shard + 450]
        text = head + 'Definition cs : list (skind * list elem * wire) := [\n' + ';\n'.join(f'({k}, {xs}, {w})' for k, xs, w, _ in part) + '].\n'
        text += 'Eval vm_compute in failing (fun c => match c with (k, xs, w) => wire_eqb w (ArgSeq.encode (fun q => q) k xs) end) cs.\n'
        vals = coq.parse_evals(coq.coq_eval(f'c16_argseq_{ctx.seed}_{shard}', text))
        for idx in coq.parse_nat_list(vals[0]):
            k, xs, w, rc = part[idx]
            ctx.mark_broken('correspondence:arg_sequence', f'the message arg_to_proto writes for {seq_literal(rc)} is not the one of the model: model input {k} {xs}, '
                            f'implementation wrote {w}'[:2500])


# ------------------------------------------------------------------ result messages of measured programs
def le_bits(data, n):
    """Bit i of a packed result, little-endian within a byte (result.proto: QubitMeasurementResult.results)."""
    return [bool((data[i // 8] >> (i % 8)) & 1) if i // 8 < len(data) else None for i in range(n)]


def measurement_ops_of(cirq, circuit, key):
    return [op for op in circuit.all_operations() if isinstance(op.gate, cirq.MeasurementGate) and op.gate.key == key]


def program_measured_alike(cirq, circuit):
    """Every key is measured the same way each time it is measured (same qubits in the same order, same invert mask, same
    tags), on grid qubits: the documented form of a repeated key, which must be accepted."""
    seen = {}
    for op in circuit.all_operations():
        if isinstance(op.gate, cirq.MeasurementGate):
            if not all(isinstance(q, cirq.GridQubit) for q in op.qubits):
                return False
            d = (tuple(op.qubits), tuple(op.gate.full_invert_mask()), tuple(op.tags))
            if seen.setdefault(op.gate.key, d) != d:
                return False
    return True


def judge_measured_program(cirq, v2, circuit, reps, sim_seed):
    """The property on one program: simulate it, describe its measurements with find_measurements, write the result message
    and read the message by its documentation: the bits filed under a qubit id must be what the simulator recorded for that
    qubit, instance by instance; and the message must read back to the records.  A program may be refused (ValueError) unless
    it measures every key alike each time.  Returns (status, problems)."""
    problems = []
    try:
        infos = v2.find_measurements(circuit)
    except ValueError as e:
        if program_measured_alike(cirq, circuit):
            problems.append(('results:program-refused', f'find_measurements refuses a program that measures every key the same way each time: {str(e)[:200]}'))
        return 'refused', problems
    keys = list(dict.fromkeys(op.gate.key for op in circuit.all_operations() if isinstance(op.gate, cirq.MeasurementGate)))
    if sorted(m.key for m in infos) != sorted(keys):
        problems.append(('results:measurement-keys', f'find_measurements lists the keys {[m.key for m in infos]}, the program measures {keys}'))
        return 'accepted', problems
    try:
        result = cirq.Simulator(seed=sim_seed).run(circuit, repetitions=reps)
    except Exception as e:
        problems.append(('results:unsimulable-accepted', f'find_measurements accepts a program the simulator cannot record ({type(e).__name__}: {str(e)[:150]}): {[str(m) for m in infos]}'))
        return 'accepted', problems
    try:
        msg = v2.results_to_proto([[result]], infos)
    except Exception as e:
        problems.append(('results:accepted-not-writable', f'results_to_proto raises {type(e).__name__}: {str(e)[:150]} for the simulator\'s result and find_measurements\' list {[str(m) for m in infos]}'))
        return 'accepted', problems
    pr = msg.sweep_results[0].parameterized_results[0]
    if msg.sweep_results[0].repetitions != reps or sorted(mr.key for mr in pr.measurement_results) != sorted(keys):
        problems.append(('results:message-keys', f'the message holds {msg.sweep_results[0].repetitions} repetitions of the keys {[mr.key for mr in pr.measurement_results]}; the program has {reps} of {keys}'))
    for mr in pr.measurement_results:
        ops = measurement_ops_of(cirq, circuit, mr.key)
        instances = max(mr.instances, 1)
        record = np.asarray(result.records[mr.key])            # (repetitions, instances, qubits in the order of each operation)
        if instances != len(ops):
            problems.append(('results:instances', f'key {mr.key!r}: the message says {instances} instances, the program measures it {len(ops)} times'))
            continue
        filed = {}
        for qmr in mr.qubit_measurement_results:
            r_, c_ = qmr.qubit.id.split('_')
            filed.setdefault(cirq.GridQubit(int(r_), int(c_)), []).append(le_bits(qmr.results, reps * instances))
        for j, op in enumerate(ops):
            for c, qubit in enumerate(op.qubits):
                truth = [bool(x) for x in record[:, j, c]]
                got = [[col[r * instances + j] for r in range(reps)] for col in filed.get(qubit, [])]
                if got != [truth]:
                    problems.append(('results:bits-under-wrong-qubit',
                                     f'key {mr.key!r}, instance {j} ({op!r}): the simulator recorded {[int(b) for b in truth]} for {qubit!r}; the message files under the id '
                                     f'{"%d_%d" % (qubit.row, qubit.col)!r} ' + (f'{[int(b) for b in got[0]]}' if len(got) == 1 else f'{len(got)} entries')
                                     + f' for that instance (find_measurements: {[(m.key, m.qubits, m.instances) for m in infos if m.key == mr.key]})'))
                    break
            else:
                continue
            break
        extra = set(filed) - {q for op in ops for q in op.qubits}
        if extra:
            problems.append(('results:bits-under-wrong-qubit', f'key {mr.key!r}: the message files bits under {sorted(extra)!r}, which the key never measures'))
    if not problems:
        try:
            back = v2.results_from_proto(msg, infos)[0][0]
            for key in keys:
                if not np.array_equal(np.asarray(back.records[key]), np.asarray(result.records[key])):
                    problems.append(('results:program-roundtrip', f'key {key!r}: results_from_proto(results_to_proto(r, m), m) has the records {np.asarray(back.records[key]).astype(int).tolist()}, '
                                     f'the simulator recorded {np.asarray(result.records[key]).astype(int).tolist()}'))
                    break
        except Exception as e:
            problems.append(('results:program-roundtrip', f'results_from_proto raises {type(e).__name__}: {str(e)[:150]} on the message written for the program'))
    return 'accepted', problems


def measured_program(cirq, qubits, plan):
    """plan: [(key, [qubit indices in the order listed], invert mask, tags, [indices to flip before it])]: every qubit starts
    in |+>, so each repetition draws its own bits, each qubit its own column; flips between instances change the columns."""
    ops = [cirq.H(q) for q in qubits]
    for key, order, mask, tags, flips in plan:
        ops += [cirq.X(qubits[i]) for i in flips]
        m = cirq.measure(*[qubits[i] for i in order], key=key, invert_mask=tuple(mask))
        ops.append(m.with_tags(*tags) if tags else m)
    return cirq.Circuit(ops)


def fixed_measured_plans():
    """For every seed: one key measured 2 or 3 times on 2..4 qubits listed in the same / reversed / rotated order, with no
    invert mask, a mask that follows the qubits, a mask that stays in place, a short mask; a second key on the same qubits in
    another order; and the forms that must be accepted."""
    out = []
    for nq in (2, 3, 4):
        ident = list(range(nq))
        for oname, other in (('same order', ident), ('reversed', ident[::-1]), ('rotated', ident[1:] + ident[:1])):
            for mname, mask in (('no invert mask', []), ('invert mask following the qubits', [i % 2 == 0 for i in ident]),
                                ('invert mask staying in place', [i == 0 for i in ident]), ('short invert mask', [True])):
                for inst in (2, 3):
                    def mask_for(order):
                        if mname == 'invert mask following the qubits':
                            return [mask[i] for i in order]
                        return mask
                    plan = [('k', ident, mask_for(ident), (), [])]
                    for j in range(1, inst):
                        order = other if j % 2 else ident
                        plan.append(('k', order, mask_for(order), (), [j % nq]))
                    plan.append(('z', other, [], (), []))
                    out.append((f'{nq} qubits, key k measured {inst} times, later instances {oname}, {mname}', nq, plan))
    out.append(('two keys on permuted lists', 2, [('k0', [0, 1], [], (), []), ('k1', [1, 0], [], (), [])]))
    out.append(('one key on other qubits', 3, [('k', [0, 1], [], (), []), ('k', [1, 2], [], (), [])]))
    out.append(('tags differ', 2, [('k', [0, 1], [], ('t',), []), ('k', [0, 1], [], (), [])]))
    out.append(('tags agree', 2, [('k', [1, 0], [True], ('t',), []), ('k', [1, 0], [True], ('t',), [0])]))
    return out


def gen_measured_plan(rng):
    nq = rng.choice([2, 3, 3, 4, 5])
    plan = []
    for key in rng.sample(['a', 'b', 'm_0', 'key 3'], rng.choice([1, 1, 2, 3])):
        k = rng.randint(1, nq)
        order = rng.sample(range(nq), k)
        mask = rng.choice([[], [], [rng.random() < 0.5 for _ in order], [True]])
        tags = rng.choice([(), (), ('t',)])
        inst = rng.choice([1, 2, 2, 3])
        mode = rng.choice(['same', 'same', 'permuted', 'permuted', 'permuted-mask-in-place', 'other-qubits', 'mask-differs', 'tags-differ', 'mixed'])
        for j in range(inst):
            o, mk, tg = list(order), list(mask), tags
            md = rng.choice(['same', 'permuted']) if mode == 'mixed' else mode
            if j and md in ('permuted', 'permuted-mask-in-place') and k >= 2:
                while o == order:
                    rng.shuffle(o)
                if md == 'permuted' and len(mask) == k:
                    mk = [mask[order.index(i)] for i in o]
            elif j and md == 'other-qubits':
                o = rng.sample(range(nq), k)
            elif j and md == 'mask-differs':
                mk = [not b for b in mask] if mask else [True]
            elif j and md == 'tags-differ':
                tg = ('u',) if not tags else ()
            plan.append((key, o, mk, tg, [i for i in range(nq) if rng.random() < 0.3]))
    rng.shuffle(plan) if rng.random() < 0.3 else None
    return nq, plan


def measured_programs_stream(ctx, cirq, v2, n):
    rng = ctx.rng
    rows = []
    todo = [(name, nq, plan, False) for name, nq, plan in fixed_measured_plans()] + [None] * n
    tid = {}
    for item in todo:
        if item is None:
            nq, plan = gen_measured_plan(rng)
            name, line = 'generated', rng.random() < 0.05
        else:
            name, nq, plan, line = item
        r0, c0 = rng.choice([0, 0, -1, 3]), rng.choice([0, 0, -2, 5])
        qubits = [cirq.GridQubit(r0 + i // 3, c0 + i % 3) for i in range(nq)]
        if line:
            qubits[-1] = cirq.LineQubit(7)                 # results only speak of grid qubits: refused when measured
        circuit = measured_program(cirq, qubits, plan)
        reps = rng.choice([13, 13, 5, 9, 16, 1])
        sim_seed = rng.randint(1, 10 ** 6)
        status, problems = judge_measured_program(cirq, v2, circuit, reps, sim_seed)
        repeated = any(len({tuple(o) for k_, o, *_ in plan if k_ == key}) > 1 for key in {p_[0] for p_ in plan})
        ctx.count('results:measured_program', [repr(circuit), reps, sim_seed], repeated and reps % 8 != 0,
                  sample=dict(kind=name, circuit=str(circuit)[:400], repetitions=reps, find_measurements=status))
        for sig, what in problems:
            ctx.violation(sig, f'{what}; program ({name}): {circuit_literal(circuit)}, {reps} repetitions, simulator seed {sim_seed}'[:2500],
                          dict(kind='measured_program', literal=circuit_literal(circuit), repetitions=reps, sim_seed=sim_seed))
        # the model of find_measurements (Codec/FindMeasurements.v) on the same program
        ops = [op for op in circuit.all_operations() if isinstance(op.gate, cirq.MeasurementGate)]
        kid = {}
        K = lambda k: kid.setdefault(k, len(kid))
        T = lambda t: tid.setdefault(t, len(tid))
        qn = lambda q: _qid(q) if isinstance(q, cirq.GridQubit) else 10 ** 7 + q.x
        lit = '[' + '; '.join(f'(mkOp {K(op.gate.key)} {coq.zlist(qn(q) for q in op.qubits)} {coq.blist(op.gate.full_invert_mask())} '
                              f'{coq.zlist(T(t) for t in op.tags)} {"true" if all(isinstance(q, cirq.GridQubit) for q in op.qubits) else "false"})' for op in ops) + ']'
        try:
            infos = v2.find_measurements(circuit)
            got = '[' + '; '.join(f'(mkMX (mkM {K(m.key)} {coq.zlist(qn(q) for q in m.qubits)} {m.instances}) {coq.blist(m.invert_mask)} {coq.zlist(T(t) for t in m.tags)})' for m in infos) + ']'
        except ValueError:
            got = None
        rows.append((lit, got, circuit))
    head = ('From Coq Require Import ZArith List Bool.\nFrom VF Require Import Codec.PackBits Codec.PackBitsResults Codec.FindMeasurements Base.Harness.\n'
            'Import ListNotations.\nOpen Scope Z_scope.\n'
            'Definition mx_eqb (a b : minfox) : bool := Z.eqb (x_key a) (x_key b) && zl_eqb (m_qubits (x_info a)) (m_qubits (x_info b)) '
            '&& Nat.eqb (m_instances (x_info a)) (m_instances (x_info b)) && bl_eqb (x_invert a) (x_invert b) && zl_eqb (x_tags a) (x_tags b).\n')
    for shard in range(0, len(rows), 450):
        part = rows[shard:shard + 450]
        text = head + 'Definition cs : list (list mop * option (list minfox)) := [\n' + ';\n'.join(f'({l}, {coq.opt(g)})' for l, g, _ in part) + '].\n'
        text += 'Eval vm_compute in failing (fun c => opt_eqb (list_eqb mx_eqb) (find_measurements (fst c)) (snd c)) cs.\n'
        vals = coq.parse_evals(coq.coq_eval(f'c16_find_measurements_{ctx.seed}_{shard}', text))
        for idx in coq.parse_nat_list(vals[0]):
            ctx.mark_broken('correspondence:find_measurements', f'model and implementation differ on {circuit_literal(part[idx][2])}: model input {part[idx][0]}, implementation {part[idx][1]}'[:2500])


def scalar_extremes_stream(ctx, cirq, cg):
    """Scalar numeric arguments at the edges of the float32 value field (infinities, values beyond the float32 range, the largest
    finite float32, huge integers given as floats, tiny values): writing and reading back must not raise, and the value read back
    is the value written rounded once to float32 (fixed for every seed)."""
    import math
    from cirq_google.serialization import arg_func_langs as afl
    vals = [float('inf'), float('-inf'), 1e40, -1e39, 3.4028234e38, 3.5e38, 1e300, 2.0 ** 100, -2.0 ** 64, 1e-50, -1e-46, 16777217.0, 0.1, -0.0, 1e15, 123456789.0]
    q = cirq.GridQubit(0, 0)
    for v in vals:
        with np.errstate(all="ignore"):
            want = float(np.float32(v))
        entries = {
            'arg_from_proto(arg_to_proto(v))': lambda: afl.arg_from_proto(afl.arg_to_proto(v)),
            'float_arg_from_proto(float_arg_to_proto(v))': lambda: afl.float_arg_from_proto(afl.float_arg_to_proto(v)),
            'InternalGate argument in a program': lambda: next(iter(cg.CircuitSerializer().deserialize(cg.CircuitSerializer().serialize(cirq.Circuit(
                cg.InternalGate(gate_name='g', gate_module='m', num_qubits=1, x=v).on(q)))).all_operations())).gate.gate_args['x'],
        }
        for name, f in entries.items():
            ctx.count('scalar_extremes', [name, repr(v)], True, sample=dict(entry=name, value=repr(v)))
            try:
                with np.errstate(all='ignore'):
                    got = f()
            except Exception as e:
                ctx.violation(f'arg:scalar-extreme:raises:{type(e).__name__}', f'{name} with v = {v!r} raised {type(e).__name__}: {e}; the value is written as the float32 {want!r} and must read back as that',
                              dict(kind='scalar_extreme', entry=name, value=repr(v)))
                continue
            ok = isinstance(got, (int, float, np.floating, np.integer)) and ((math.isinf(want) and float(got) == want) or (not math.isinf(want) and float(got) == want))
            if not ok:
                ctx.violation('arg:scalar-extreme:value', f'{name} with v = {v!r} read back {got!r}; the float32 written holds {want!r}', dict(kind='scalar_extreme', entry=name, value=repr(v)))


def run(ctx):
    mods = env.import_cirq(('cirq_google',))
    cirq, cg = mods['cirq'], mods['cirq_google']
    from cirq_google.api import v2
    ctx.rule = ('bits: random bool arrays of length 0..300 (dense around multiples of 8) and random byte strings with any '
                'repetition count; non-trivial = mixed bits, >= 2 long; distinct by canonical input. circuits: generated over the serialisable '
                'vocabulary on grid / line / named / coupler qubits with coordinates on both sides of zero (one fixed program per kind and '
                'coordinate range for every seed). qubit ids: every kind of qubit over coordinates -12..12 and far from zero, then '
                'strings near valid ids. sweeps: generated Points / Linspace / ListSweep / FiniteRandomVariable under Product / Zip / '
                'ZipLongest / Concat with DeviceParameter or Metadata, values plain or carrying units of mixed scale (a fixed grid of '
                'unit pairs x both precisions x run context for every seed). device specifications: devices built from device information and '
                'written out, and DeviceSpecification messages written directly: 1..9 qubits of a 3x3 grid, 0..4 target sets of ordering '
                'SYMMETRIC / SUBSET_PERMUTATION / UNSPECIFIED (ASYMMETRIC and other defects: must be refused) with targets of one, two, '
                'three or all ids, any gates and durations, qubit attributes; a fixed grid (ordering x target size x with / without pair sets, '
                'two-qubit devices, pair sets reversed / repeated / split) for every seed; measured programs: every qubit in |+>, 1..3 keys each measured 1..3 times on the same qubits in the same / '
                'another order, on other qubits, with invert masks that follow the qubits / stay in place / differ, with tags (a fixed grid of 2..4 qubits x order x mask x 2..3 instances for '
                'every seed), simulated with 1..16 repetitions and judged bit by bit against the records; arrays: every element type x 10 shapes (0-d, empty, 1..3 axes, square) x 15 memory '
                'layouts (C, Fortran-allocated, asfortranarray, transposed, every axis permutation of 3 axes, strided, reversed, windowed, broadcast, swapped byte order) for every seed plus '
                'random axis permutations / steps / offsets, through the helpers with widening, arg_to_proto, InternalGate / InternalTag arguments and whole programs; non-trivial array = at least '
                'two axes, four elements and not C-contiguous; sequence-valued arguments: every sequence of one, two and three numbers over bool / numpy bool / int / numpy integer / float / numpy floating '
                'in every order (so every narrower-before-wider mixture) as list, tuple, set and frozenset, plus special values (zeros and bools leading fractions, a late float after eight integers, int64 limits, '
                'strings, nested sequences, complex, symbols, unit values, bytes, empty) for every seed, plus random sequences of 1..8 elements; non-trivial = at least two kinds of element; every pair of device qubits in both orders goes '
                'before validate_operation; non-trivial = the specification has a coupling or a two-id target outside SYMMETRIC sets; circuits of related operations before validate_circuit / validate_moment: a pool per device of Z powers, '
                'FSim gates, CZ, X, measurement on the same qubits under every combination of the tags that select a GateSpecification (PhysicalZTag, FSimViaModelTag, TwoPulseFSimTag) and tags that mean nothing to a device, in the other qubit order, '
                'on other / uncoupled / off-device qubits, with another exponent or gate; every ordered pair of the pool (and triples .. sextuples) on a fixed grid of specifications {no, virtual, physical, both Z} x {no, via-model, two-pulse, both FSim} (8 of the 16 combinations in the quick tier, each set in two) '
                'for every seed, the ordered pairs that differ in a selecting tag only plus a sample on every other specification and device; non-trivial = two different operations of the circuit are equal without their tags')
    ctx.assumptions += ['vf/checks/c16.py adapters calling cirq_google and canonicalising outputs',
                        'protobuf and numpy are trusted', 'leaf identifiers are assigned by Python equality/hash']
    ctx.set_obligations(coq.compile_props('C16'))
    q = ctx.tier == 'quick'
    for name, thunk in streams(ctx, cirq, cg, v2, q):
        try:                                     # a stream that dies (it does on some broken trees) must not silence the others
            thunk()
        except Exception:
            import sys
            import traceback
            sys.stderr.write(traceback.format_exc()[-3000:])
            ctx.mark_broken('harness-exception:' + name, traceback.format_exc()[-2000:])


def streams(ctx, cirq, cg, v2, q):
    out = []
    for shard in range(1 if q else 10):          # cases files stay below ~500 cases each
        out.append(('bits', lambda shard=shard: bits_stream(ctx, v2, 300, shard)))
    for shard in range(1 if q else 10):
        out.append(('results', lambda shard=shard: results_stream(ctx, cirq, v2, 120, shard)))
    nc = 150 if q else 1500
    for shard in range(0, nc, 150):
        out.append(('circuits', lambda shard=shard: circuits_stream(ctx, cirq, cg, min(150, nc - shard), shard)))
    out.append(('multi', lambda: multi_stream(ctx, cirq, cg, 25 if q else 250)))
    out.append(('measured_programs', lambda: measured_programs_stream(ctx, cirq, v2, 150 if q else 2500)))
    out.append(('ndarrays', lambda: ndarrays_stream(ctx, cirq, cg, 200 if q else 3000)))
    out.append(('arg_sequences', lambda: arg_sequences_stream(ctx, cirq, cg, 300 if q else 6000)))
    out.append(('scalar_extremes', lambda: scalar_extremes_stream(ctx, cirq, cg)))
    out.append(('qubit_ids', lambda: qubit_ids_stream(ctx, cirq, cg, v2, 300 if q else 3000)))
    out.append(('unit_values', lambda: unit_values_stream(ctx, cirq, cg, v2, 60 if q else 400)))
    out.append(('sweeps', lambda: sweeps_stream(ctx, cirq, cg, v2, 250 if q else 2500)))
    out.append(('devices', lambda: devices_stream(ctx, cirq, cg, 60 if q else 600)))
    out.append(('device_specs', lambda: device_specs_stream(ctx, cirq, cg, v2, 60 if q else 600)))
    return out


def replay(ctx, data):
    mods = env.import_cirq(('cirq_google',))
    from cirq_google.api import v2
    k = data.get('kind')
    if k == 'bits':
        bits = [bool(b) for b in data['bits']]
        d = v2.pack_bits(np.array(bits, dtype=bool))
        back = [bool(x) for x in v2.unpack_bits(d, len(bits))]
        print('packed', list(d), 'back', back)
        return back == bits and int.from_bytes(d, 'little') == sum(1 << i for i, b in enumerate(bits) if b)
    if k == 'unpack':
        raw = bytes(data['data'])
        got = [bool(x) for x in v2.unpack_bits(raw, data['repetitions'])]
        exp = [bool((int.from_bytes(raw, 'little') >> i) & 1) for i in range(min(data['repetitions'], 8 * len(raw)))]
        print('got', got, 'expected', exp)
        return got == exp
    cirq, cg = mods['cirq'], mods['cirq_google']
    import sympy
    import cirq_google.ops as cgops
    from cirq_google.ops.calibration_tag import CalibrationTag
    import tunits
    ns = dict(cirq=cirq, cirq_google=cg, sympy=sympy, np=np, numpy=np, CalibrationTag=CalibrationTag, tunits=tunits)
    ns.update({n_: getattr(cgops, n_) for n_ in dir(cgops) if not n_.startswith('_')})
    if k == 'qubit':
        q_ = eval(data['repr'], ns)
        back = v2.qubit_from_proto_id(v2.qubit_to_proto_id(q_))
        print('id', repr(v2.qubit_to_proto_id(q_)), 'back', repr(back))
        return back == q_ and v2.qubit_to_proto_id(q_) == spec_qubit_id(cirq, cg, q_)
    if k == 'qubit_id':
        got, want = v2.qubit_from_proto_id(data['id']), spec_qubit_of_id(cirq, cg, data['id'])
        print('id', repr(data['id']), 'denotes', repr(got), 'documented', repr(want))
        return want is None or got == want
    if k == 'circuit':
        c = eval(data['literal'], ns)
        norm, _, _ = make_norm(cirq, cg)
        try:
            ok, d = roundtrip_ok(cirq, cg.CIRCUIT_SERIALIZER, norm, c)
        except Exception as e:
            print('raised', type(e).__name__, e)
            return False
        print('in :', circuit_literal(c))
        print('out:', circuit_literal(d))
        return ok
    if k == 'multi':
        cs = [eval(l, ns) for l in data['literals']]
        norm, _, _ = make_norm(cirq, cg)
        S = cg.CIRCUIT_SERIALIZER
        got = S.deserialize_multi_program(S.serialize_multi_program(cs))
        return len(got) == len(cs) and all(
            len(norm(c).moments) == len(norm(g[2]).moments) and all(m1 == m2 and tuple(m1.tags) == tuple(m2.tags) for m1, m2 in zip(norm(c).moments, norm(g[2]).moments))
            for c, g in zip(cs, got))
    if k == 'sweep':
        s_ = eval(data['repr'], ns)
        f64 = data.get('float64', False)
        d = v2.sweep_from_proto(v2.sweep_to_proto(s_, use_float64=f64))
        print('in :', repr(s_))
        print('out:', repr(d))
        if isinstance(s_, cirq.ListSweep):
            return expected_values(cirq, s_, f64) == sweep_values(d)
        return sweep_desc(cirq, s_, f64) == sweep_desc(cirq, d, True) and expected_values(cirq, s_, f64) == sweep_values(d)
    if k == 'results':
        ms = [v2.MeasureInfo(key=m['key'], qubits=[cirq.GridQubit(*q) for q in m['qubits']], instances=m['instances'], invert_mask=[False] * len(m['qubits']), tags=[])
              for m in data['measurements']]
        sweeps = [[cirq.ResultDict(params=cirq.ParamResolver(t['params']), records={kk: np.array(a, dtype=bool).reshape(t['shapes'][kk]) for kk, a in t['records'].items()})
                   for t in sw] for sw in data['sweeps']]
        back = v2.results_from_proto(v2.results_to_proto(sweeps, ms), ms)
        return all(np.array_equal(b.records[m.key], t.records[m.key]) for sw, bsw in zip(sweeps, back) for t, b in zip(sw, bsw) for m in ms)
    if k == 'measured_program':
        c = eval(data['literal'], ns)
        status, problems = judge_measured_program(cirq, v2, c, data['repetitions'], data['sim_seed'])
        print('find_measurements:', status)
        for sig, what in problems:
            print(sig, '|', what[:800])
        return not problems
    if k == 'ndarray':
        return replay_ndarray(cirq, cg, data)
    if k == 'arg_sequence':
        return replay_arg_sequence(cirq, cg, data)
    if k == 'device':
        from cirq_google.devices import grid_device as gd
        fam = {gr.gate_spec_name: gr.supported_gates for gr in gd._GATES}
        qs = [cirq.GridQubit(*q) for q in data['qubits']]
        pairs = [(cirq.GridQubit(*a), cirq.GridQubit(*b)) for a, b in data['pairs']]
        dev = cg.GridDevice._from_device_information(qubit_pairs=pairs, gateset=cirq.Gateset(*[fam[n_][0] for n_ in data['gates']]),
                                                     gate_durations=None if data['durations'] == 'none' else {}, all_qubits=qs)
        dev2 = cg.GridDevice.from_proto(dev.to_proto())
        print('equal:', dev2 == dev)
        ok = dev2 == dev
        if 'op' in data:
            op = eval(data['op'], ns)
            dec = []
            for d_ in (dev, dev2):
                try:
                    d_.validate_operation(op)
                    dec.append(True)
                except ValueError:
                    dec.append(False)
            want = spec_accepts(cirq, cg, dev.to_proto(), op)
            print('decisions', dec, 'specification', want)
            ok = ok and dec[0] == dec[1] == want
        if 'circuit' in data:
            c = eval(data['circuit'], ns)
            want = all(spec_accepts(cirq, cg, dev.to_proto(), o) for o in c.all_operations())
            dec = [device_decision(d_.validate_circuit, c) for d_ in (dev, dev2)]
            print('validate_circuit', dec, 'specification', want)
            ok = ok and dec[0] is want and dec[1] is want
        return ok
    if k == 'device_spec':
        import random
        extra = [eval(data['op'], ns)] if 'op' in data else []
        extra_c = [eval(data['circuit'], ns)] if 'circuit' in data else []
        problems, _ = judge_device_spec(ctx, cirq, cg, v2, data, random.Random(0), extra_ops=extra, extra_circuits=extra_c)
        for sig, what, _ in problems:
            print(sig, '|', what[:600])
        return not problems
    if k == 'device_spec_empty':
        r = empty_valid_qubits_case(ctx, cirq, cg, v2)
        print(r)
        return r is True
    print('nothing to replay for kind', k)
    return False
