"""C16 — Google wire formats round-trip programs, sweeps, results and devices (DESIGN 5/C16)."""
import numpy as np
from .. import env, coq, runner

LEVEL = 'proof'
META = dict(
    text='Coq theorems (unbounded): bit packing round-trips for every number of repetitions with zero padding and little-endian-in-byte order; the constants-table interning scheme of the circuit serializer round-trips every circuit over abstract leaves with decidable equality, shares an index exactly between equal items and only refers backwards; result messages (keys x instances x qubits x packed repetitions) round-trip. The Gallina models are hand-written in the shape of the code and evaluated with vm_compute against the implementation on every run, together with direct round-trip oracles on the real serializers for circuits, sweeps, run contexts, results and device specifications.',
    note='Trusted: Coq kernel; protobuf and numpy; the Python adapters in vf/checks/c16.py (calling cirq_google, assigning leaf identifiers by Python equality, printing Gallina literals); the leaf codecs (gate arguments, tags, conditions) are compared on generated cases, not proved. Theorems are closed under the global context.',
    technique='Rocq/Coq proof over executable Gallina models of pack_bits, the constants table and result messages + vm_compute correspondence and round-trip oracles against cirq_google',
)


# ------------------------------------------------------------------ pack_bits / unpack_bits
def gen_bit_cases(ctx, n):
    rng = ctx.rng
    cases = []
    for i in range(n):
        r = rng.random()
        if r < 0.35:
            k = rng.choice([0, 1, 7, 8, 9, 15, 16, 17, 23, 24, 25, 63, 64, 65])
        elif r < 0.9:
            k = rng.randint(0, 40)
        else:
            k = rng.randint(41, 300)
        p = rng.choice([0.1, 0.5, 0.5, 0.9])
        cases.append([rng.random() < p for _ in range(k)])
    return cases


def bits_stream(ctx, v2, n, shard=0):
    rows_pack, rows_unpack = [], []
    for bits in sorted(gen_bit_cases(ctx, n), key=len):    # shortest first: the first failing case reported is minimal
        k = len(bits)
        data = v2.pack_bits(np.array(bits, dtype=bool))
        out = list(data)
        rows_pack.append((bits, out))
        ctx.count('pack_bits', [int(b) for b in bits], k >= 2 and any(bits) and not all(bits),
                  sample=dict(bits=[int(b) for b in bits], packed=out))
        # spec-level oracle on the real code: round trip, little-endian-in-byte, zero padding
        back = [bool(x) for x in v2.unpack_bits(data, k)]
        as_int = int.from_bytes(data, 'little')
        ok = (back == bits and len(data) == (k + 7) // 8 and as_int == sum(1 << i for i, b in enumerate(bits) if b))
        if not ok:
            ctx.violation('bits:pack-unpack', f'unpack_bits(pack_bits(b), {k}) != b or wrong layout for b={[int(b) for b in bits]}: '
                          f'packed={out} back={[int(b) for b in back]}', dict(kind='bits', bits=[int(b) for b in bits]))
        # unpack of arbitrary bytes with any repetition count (also more than 8*len)
        nb = ctx.rng.choice([0, 1, 2, 3, 5])
        raw = bytes(ctx.rng.randrange(256) for _ in range(nb))
        reps = ctx.rng.choice([0, 1, 7, 8, 9, 8 * nb, 8 * nb + 3, ctx.rng.randint(0, 8 * nb + 1)])
        got = [bool(x) for x in v2.unpack_bits(raw, reps)]
        rows_unpack.append((list(raw), reps, got))
        ctx.count('unpack_bits', [list(raw), reps], nb >= 1 and reps >= 2, sample=dict(data=list(raw), repetitions=reps, bits=[int(b) for b in got]))
        exp = [bool((int.from_bytes(raw, 'little') >> i) & 1) for i in range(min(reps, 8 * nb))]
        if got != exp:
            ctx.violation('bits:unpack', f'unpack_bits({list(raw)}, {reps}) = {[int(b) for b in got]}, little-endian bits are {[int(b) for b in exp]}',
                          dict(kind='unpack', data=list(raw), repetitions=reps))
    ZL, BL = coq.zlist, coq.blist
    text = ('From Coq Require Import ZArith List Bool.\nFrom VF Require Import Codec.PackBits Base.Harness.\n'
            'Import ListNotations.\nOpen Scope Z_scope.\n')
    text += 'Definition pk : list (list bool * list Z) := [\n' + ';\n'.join(f'({BL(b)}, {ZL(o)})' for b, o in rows_pack) + '].\n'
    text += 'Eval vm_compute in failing (fun c => zl_eqb (pack_bits (fst c)) (snd c) && bl_eqb (unpack_bits (snd c) (length (fst c))) (fst c)) pk.\n'
    text += 'Definition up : list (list Z * nat * list bool) := [\n' + ';\n'.join(
        f'({ZL(d)}, {r}%nat, {BL(g)})' for d, r, g in rows_unpack) + '].\n'
    text += 'Eval vm_compute in failing (fun c => match c with (d, r, g) => bl_eqb (unpack_bits d r) g end) up.\n'
    vals = coq.parse_evals(coq.coq_eval(f'c16_bits_{ctx.seed}_{shard}', text))
    assert len(vals) == 2, vals
    for name, rows, val in zip(['pack_bits', 'unpack_bits'], [rows_pack, rows_unpack], vals):
        for idx in coq.parse_nat_list(val):
            ctx.mark_broken(f'correspondence:{name}', f'model and implementation differ on {rows[idx]}')


# ------------------------------------------------------------------ result messages
def _qid(q):
    return q.row * 100 + q.col


def gen_results_case(ctx, cirq, v2):
    rng = ctx.rng
    grid = [cirq.GridQubit(r, c) for r in range(4) for c in range(4)]
    nkeys = rng.choice([1, 1, 2, 3, 4])
    ms = []
    for k in rng.sample(['a', 'b', 'm_0', 'zz', 'q(1, 2)', 'k5'], nkeys):
        nq = rng.choice([1, 1, 2, 3, 5])
        ms.append(v2.MeasureInfo(key=k, qubits=rng.sample(grid, nq), instances=rng.choice([1, 1, 2, 3]), invert_mask=[False] * nq, tags=[]))
    sweeps = []
    for _ in range(rng.choice([1, 1, 2, 3])):
        reps = rng.choice([0, 1, 2, 3, 7, 8, 9, 15, 16, 17, 25])
        trials = []
        for t in range(rng.choice([1, 2, 3])):
            recs = {m.key: np.array([[[rng.random() < 0.5 for _ in m.qubits] for _ in range(m.instances)] for _ in range(reps)], dtype=bool).reshape((reps, m.instances, len(m.qubits)))
                    for m in ms}
            trials.append(cirq.ResultDict(params=cirq.ParamResolver({'p': rng.choice([0.25, 0.1, 3]), 's': float(t)}), records=recs))
        sweeps.append(trials)
    return ms, sweeps


def results_stream(ctx, cirq, v2, n, shard=0):
    rng = ctx.rng
    rows_enc, rows_dec = [], []
    kid = {}
    K = lambda k: kid.setdefault(k, len(kid))

    def ms_lit(ms):
        return '[' + '; '.join(f'(mkM {K(m.key)} {coq.zlist(_qid(q) for q in m.qubits)} {m.instances})' for m in ms) + ']'

    def rec_lit(a):
        return '[' + '; '.join('[' + '; '.join(coq.blist(a[r, j]) for j in range(a.shape[1])) + ']' for r in range(a.shape[0])) + ']'

    def trial_lit(t):
        return f'(mkT {t.repetitions} [' + '; '.join(f'({K(k)}, {rec_lit(np.asarray(a))})' for k, a in t.records.items()) + '])'

    def msg_lit(msg):
        out = []
        for sr in msg.sweep_results:
            prs = []
            for pr in sr.parameterized_results:
                mrs = []
                for mr in pr.measurement_results:
                    qs = []
                    for qmr in mr.qubit_measurement_results:
                        r_, c_ = qmr.qubit.id.split('_')
                        qs.append(f'({int(r_) * 100 + int(c_)}, {coq.zlist(qmr.results)})')
                    mrs.append(f'(mkMR {K(mr.key)} {mr.instances} [' + '; '.join(qs) + '])')
                prs.append('[' + '; '.join(mrs) + ']')
            out.append(f'(mkSR {sr.repetitions} [' + '; '.join(prs) + '])')
        return '[' + '; '.join(out) + ']'

    def out_lit(res):
        return '[' + '; '.join('[' + '; '.join('[' + '; '.join(f'({K(k)}, {rec_lit(np.asarray(a))})' for k, a in t.records.items()) + ']' for t in sw) + ']' for sw in res) + ']'

    def attempt(f):
        try:
            return f()
        except (ValueError, KeyError, IndexError):
            return None

    for case in range(n):
        ms, sweeps = gen_results_case(ctx, cirq, v2)
        mode = rng.choice(['ok', 'ok', 'ok', 'ok', 'missing_key', 'bad_instances', 'reps_mismatch'])
        enc_ms, enc_sweeps = ms, sweeps
        if mode == 'missing_key':
            enc_ms = ms + [v2.MeasureInfo(key='absent', qubits=[cirq.GridQubit(0, 0)], instances=1, invert_mask=[False], tags=[])]
        elif mode == 'bad_instances':
            m0 = ms[0]
            enc_ms = [v2.MeasureInfo(key=m0.key, qubits=m0.qubits, instances=m0.instances + 1, invert_mask=m0.invert_mask, tags=[])] + ms[1:]
        elif mode == 'reps_mismatch':
            t0 = sweeps[0][0]
            extra = cirq.ResultDict(params=t0.params, records={k: np.concatenate([a, a[:1] if len(a) else np.zeros((1,) + a.shape[1:], dtype=bool)]) for k, a in t0.records.items()})
            enc_sweeps = [sweeps[0] + [extra]] + sweeps[1:]
        msg = attempt(lambda: v2.results_to_proto(enc_sweeps, enc_ms))
        reps_list = [sw[0].repetitions for sw in sweeps]
        nontriv = any(r % 8 for r in reps_list) and any(m.instances > 1 for m in ms) and any(len(m.qubits) > 1 for m in ms)
        desc = dict(keys={m.key: dict(qubits=[str(q) for q in m.qubits], instances=m.instances) for m in ms}, repetitions=reps_list, mode=mode)
        ctx.count('results:to_proto', [desc, [[{k: np.asarray(a).tolist() for k, a in t.records.items()} for t in sw] for sw in sweeps]], nontriv,
                  sample=dict(desc, packed=None if msg is None else [list(q.results) for q in msg.sweep_results[0].parameterized_results[0].measurement_results[0].qubit_measurement_results]))
        rows_enc.append((ms_lit(enc_ms), '[' + '; '.join('[' + '; '.join(trial_lit(t) for t in sw) + ']' for sw in enc_sweeps) + ']', None if msg is None else msg_lit(msg)))
        rp = dict(kind='results', mode=mode, measurements=[dict(key=m.key, qubits=[(q.row, q.col) for q in m.qubits], instances=m.instances) for m in ms],
                  sweeps=[[dict(params={str(k): float(v) for k, v in t.params.param_dict.items()}, records={k: np.asarray(a).astype(int).tolist() for k, a in t.records.items()},
                                shapes={k: list(np.asarray(a).shape) for k, a in t.records.items()}) for t in sw] for sw in sweeps])
        # a wrong instance count goes unnoticed by numpy's reshape when there is nothing to reshape (0 repetitions everywhere)
        vacuous = mode == 'bad_instances' and all(r == 0 for r in reps_list)
        if (msg is None) != (mode != 'ok') and not vacuous:
            ctx.violation('results:to_proto-defined', f'results_to_proto {"raised" if msg is None else "accepted"} in mode {mode}: {desc}', rp)
        if msg is None or vacuous:
            continue
        # ---- decoding: same measurements, no measurements, permuted qubit order, malformed messages
        dmode = rng.choice(['same', 'same', 'none', 'permuted', 'permuted', 'dup_qubit', 'missing_measure'])
        dec_ms = ms
        msg2 = msg
        if dmode == 'none':
            dec_ms = None
        elif dmode == 'permuted':
            dec_ms = []
            for m in ms:
                qs = list(m.qubits)
                rng.shuffle(qs)
                dec_ms.append(v2.MeasureInfo(key=m.key, qubits=qs, instances=m.instances, invert_mask=m.invert_mask, tags=[]))
        elif dmode == 'dup_qubit':
            msg2 = type(msg)()
            msg2.CopyFrom(msg)
            mr = msg2.sweep_results[0].parameterized_results[0].measurement_results[0]
            dup = mr.qubit_measurement_results.add()
            dup.CopyFrom(mr.qubit_measurement_results[0])
        elif dmode == 'missing_measure':
            dec_ms = ms[1:] + [v2.MeasureInfo(key='other', qubits=[cirq.GridQubit(0, 0)], instances=1, invert_mask=[False], tags=[])]
        back = attempt(lambda: v2.results_from_proto(msg2, dec_ms))
        rows_dec.append(('None' if dec_ms is None else f'(Some {ms_lit(dec_ms)})', msg_lit(msg2), None if back is None else out_lit(back)))
        ctx.count('results:from_proto', [desc, dmode, msg2.SerializeToString().hex()], nontriv, sample=dict(desc, decode=dmode, ok=back is not None))
        # spec-level oracle on the real code
        if dmode in ('same', 'none', 'permuted'):
            ok = back is not None and len(back) == len(sweeps)
            if ok:
                for sw, bsw in zip(sweeps, back):
                    ok = ok and len(sw) == len(bsw)
                    for t, b in zip(sw, bsw):
                        exp_params = {k: float(np.float32(v)) for k, v in t.params.param_dict.items()}
                        ok = ok and {k: float(v) for k, v in b.params.param_dict.items()} == exp_params and list(b.records) == [m.key for m in ms]
                        for m, dm in zip(ms, dec_ms or ms):
                            cols = [m.qubits.index(q) for q in dm.qubits]
                            ok = ok and b.records[m.key].shape == t.records[m.key].shape and np.array_equal(b.records[m.key], np.asarray(t.records[m.key])[:, :, cols])
            if not ok:
                ctx.violation('results:roundtrip', f'results_from_proto(results_to_proto(r, m), {dmode}) differs from r for {desc}', dict(rp, decode=dmode))
        elif back is not None:
            ctx.violation('results:malformed-accepted', f'results_from_proto accepted a malformed message/measurement list ({dmode}) for {desc}', dict(rp, decode=dmode))
    text = ('From Coq Require Import ZArith List Bool.\nFrom VF Require Import Codec.PackBits Codec.PackBitsResults Base.Harness.\n'
            'Import ListNotations.\nOpen Scope Z_scope.\n'
            'Definition qm_eqb := list_eqb (pair_eqb Z.eqb zl_eqb).\n'
            'Definition mr_eqb (a b : mres) := Z.eqb (mr_key a) (mr_key b) && Nat.eqb (mr_instances a) (mr_instances b) && qm_eqb (mr_qubits a) (mr_qubits b).\n'
            'Definition sr_eqb (a b : sweepres) := Nat.eqb (sr_reps a) (sr_reps b) && list_eqb (list_eqb mr_eqb) (sr_results a) (sr_results b).\n'
            'Definition recd_eqb := list_eqb (list_eqb bl_eqb).\n'
            'Definition out_eqb := list_eqb (list_eqb (list_eqb (pair_eqb Z.eqb recd_eqb))).\n')
    text += 'Definition c_enc : list (list minfo * list (list trial) * option (list sweepres)) := [\n' + ';\n'.join(
        f'({m}, {sw}, {coq.opt(msg)})' for m, sw, msg in rows_enc) + '].\n'
    text += 'Eval vm_compute in failing (fun c => match c with (m, sw, msg) => opt_eqb (list_eqb sr_eqb) (results_to_proto m sw) msg end) c_enc.\n'
    text += 'Definition c_dec : list (option (list minfo) * list sweepres * option (list (list (list (Z * recd))))) := [\n' + ';\n'.join(
        f'({m}, {msg}, {coq.opt(out)})' for m, msg, out in rows_dec) + '].\n'
    text += 'Eval vm_compute in failing (fun c => match c with (m, msg, out) => opt_eqb out_eqb (results_from_proto m msg) out end) c_dec.\n'
    vals = coq.parse_evals(coq.coq_eval(f'c16_results_{ctx.seed}_{shard}', text))
    assert len(vals) == 2, vals
    for name, rows, val in zip(['results_to_proto', 'results_from_proto'], [rows_enc, rows_dec], vals):
        for idx in coq.parse_nat_list(val):
            ctx.mark_broken(f'correspondence:{name}', f'model and implementation differ on {str(rows[idx])[:1500]}')


# ------------------------------------------------------------------ circuits
class Vocab:
    """Generator over the serialisable vocabulary (gate types with numeric / symbolic / expression arguments, tags,
    classical controls, circuit operations over shared FrozenCircuits, moment and circuit tags)."""

    def __init__(self, ctx, cirq, cg):
        import sympy
        self.rng, self.cirq, self.cg, self.sympy = ctx.rng, cirq, cg, sympy
        self.qubits = [cirq.GridQubit(r, c) for r in range(3) for c in range(3)]
        self.t, self.u = sympy.Symbol('t'), sympy.Symbol('u')
        self.cliffords = list(cirq.SingleQubitCliffordGate.all_single_qubit_cliffords)
        self.known = True      # whether inputs of the known findings may be generated

    def real(self, allow_symbolic=True):
        rng, t, u = self.rng, self.t, self.u
        r = rng.random()
        if r < 0.3:
            return rng.choice([0, 0.25, 0.5, 1, -0.5, 2, 1.9999999999, 1e-9, 0.1, 1 / 3, -1.25, 3])
        if r < 0.6 or not allow_symbolic:
            return round(rng.uniform(-2, 2), rng.choice([2, 5, 15]))
        if r < 0.75:
            return rng.choice([t, u])
        return rng.choice([2 * t, t + 0.5, t * u, t ** 2, 0.25 * t + u, t / 3, 1.7 * t - 0.1 * u, (t + u) * 0.5])

    def gate1(self):
        cirq, cg, rng = self.cirq, self.cg, self.rng
        k = rng.choice(['x', 'y', 'z', 'h', 'px', 'pxz', 'rx', 'rz', 'id', 'cliff', 'wait', 'reset', 'depol', 'internal', 'xshift'])
        if k == 'x':
            return cirq.XPowGate(exponent=self.real())
        if k == 'y':
            return cirq.YPowGate(exponent=self.real())
        if k == 'z':
            return cirq.ZPowGate(exponent=self.real())
        if k == 'h':
            return cirq.HPowGate(exponent=self.real())
        if k == 'px':
            return cirq.PhasedXPowGate(exponent=self.real(), phase_exponent=self.real())
        if k == 'pxz':
            return cirq.PhasedXZGate(x_exponent=self.real(), z_exponent=self.real(), axis_phase_exponent=self.real())
        if k == 'rx':
            return cirq.rx(self.real(False))            # global_shift = -0.5: only the global phase may be normalised
        if k == 'rz':
            return cirq.rz(self.real(False))
        if k == 'xshift':
            return cirq.XPowGate(exponent=self.real(), global_shift=rng.choice([0.25, -0.5, 0.5]))
        if k == 'id':
            return cirq.IdentityGate(1)
        if k == 'cliff':
            return rng.choice(self.cliffords)
        if k == 'wait':
            return cirq.WaitGate(cirq.Duration(nanos=rng.choice([0, 10, 12.5, 0.001, 1e6, self.t])))
        if k == 'reset':
            return cirq.ResetChannel()
        if k == 'depol':
            return cirq.DepolarizingChannel(p=rng.choice([0.1, 0.25, 0.01] + ([0.0] if self.known else [])))
        return cg.InternalGate(rng.choice(['G1', 'G2']), rng.choice(['mod.a', '']), 1,
                               **{rng.choice(['a', 'b']): rng.choice([1.5, 0.1, 3, 'txt', True, self.t])})

    def gate2(self):
        cirq, cg, rng = self.cirq, self.cg, self.rng
        k = rng.choice(['cz', 'cz', 'iswap', 'fsim', 'syc', 'willow', 'id2', 'depol2', 'internal2', 'wait2'])
        if k == 'cz':
            return cirq.CZPowGate(exponent=self.real())
        if k == 'iswap':
            return cirq.ISwapPowGate(exponent=self.real())
        if k == 'fsim':
            return cirq.FSimGate(theta=self.real(), phi=self.real())
        if k == 'syc':
            return cg.SYC
        if k == 'willow':
            return cg.WILLOW
        if k == 'id2':
            return cirq.IdentityGate(2)
        if k == 'depol2':
            return cirq.DepolarizingChannel(p=0.05, n_qubits=2)
        if k == 'wait2':
            return cirq.WaitGate(cirq.Duration(nanos=20), num_qubits=2)
        return cg.InternalGate('G2q', 'mod.b', 2, x=rng.choice([0.3, 2]))

    def tag(self, gate=None):
        cirq, cg, rng = self.cirq, self.cg, self.rng
        from cirq_google.ops import PhysicalZTag, FSimViaModelTag, TwoPulseFSimTag, CompressDurationTag, DynamicalDecouplingTag, InternalTag
        from cirq_google.ops.calibration_tag import CalibrationTag
        k = rng.choice(['str', 'str', 'int', 'float', 'cal', 'dd', 'internal', 'compress', 'flag'])
        if k == 'str':
            return rng.choice(['a', 'b', 'tag with space', ''])
        if k == 'int':
            return rng.choice([0, 1, 7, True])
        if k == 'float':
            return rng.choice([0.5, 0.1])
        if k == 'cal':
            return CalibrationTag(rng.choice(['tok1', 'tok2']))
        if k == 'dd':
            return DynamicalDecouplingTag(rng.choice(['X', 'XY4']))
        if k == 'internal':
            return InternalTag(name='T', package='pkg', **{rng.choice(['k', 'l']): rng.choice([1, 'v', 0.1])})
        if k == 'compress':
            return CompressDurationTag()
        if isinstance(gate, cirq.ZPowGate):
            return PhysicalZTag()
        if isinstance(gate, cirq.FSimGate) and not isinstance(gate, (cg.SycamoreGate, cg.WillowGate)):
            return rng.choice([FSimViaModelTag(), TwoPulseFSimTag()])
        return 'flagless'

    def condition(self, keys):
        cirq, rng, sympy = self.cirq, self.rng, self.sympy
        k = rng.choice(keys)
        r = rng.random()
        if r < 0.4:
            return cirq.KeyCondition(cirq.MeasurementKey(k), index=rng.choice([-1, -1, 0]))
        if r < 0.7:
            return cirq.BitMaskKeyCondition(k, bitmask=rng.choice([None, 1, 2]), target_value=rng.choice([0, 1, 2]), equal_target=rng.random() < 0.5)
        return cirq.SympyCondition(rng.choice([sympy.Eq(sympy.Symbol(k), 1), sympy.Symbol(k) > 0] + ([sympy.Symbol(k)] if self.known else [])))

    def op(self, free, keys, pool, allow_known=True):
        """One operation on qubits taken from `free` (mutated); None when nothing fits."""
        cirq, rng = self.cirq, self.rng
        if pool and rng.random() < 0.35:          # reuse an earlier operation: equal operations must share a constant
            o = rng.choice(pool)
            if all(q in free for q in o.qubits):
                for q in o.qubits:
                    free.remove(q)
                return o
        r = rng.random()
        if r < 0.12 and len(free) >= 1:
            n = rng.choice([1, 1, 2, 3])
            if len(free) < n:
                n = 1
            qs = [free.pop(rng.randrange(len(free))) for _ in range(n)]
            key = rng.choice(['m', 'm', 'n', 'key 3'])
            mask = rng.choice([(), (), (True,), tuple(rng.random() < 0.5 for _ in qs)])
            kw = {}
            if allow_known and rng.random() < 0.04 and n == 1:
                kw['confusion_map'] = {(0,): np.array([[0.9, 0.1], [0.2, 0.8]])}
            keys.append(key)
            o = cirq.measure(*qs, key=key, invert_mask=mask, **kw)
        elif r < 0.6 or len(free) < 2:
            g = self.gate1()
            o = g.on(free.pop(rng.randrange(len(free))))
        else:
            g = self.gate2()
            o = g.on(free.pop(rng.randrange(len(free))), free.pop(rng.randrange(len(free))))
        controlled = False
        if keys and rng.random() < 0.15 and not cirq.is_measurement(o):
            o = o.with_classical_controls(*[self.condition(keys) for _ in range(rng.choice([1, 1, 2]))])
            controlled = True
        if not controlled and rng.random() < 0.35:       # tagged classically controlled operations are rejected by the serializer
            tags = [self.tag(o.gate) for _ in range(rng.choice([1, 1, 2, 3]))]
            # flag tags (PhysicalZTag, FSimViaModelTag, TwoPulseFSimTag) in any position (finding circuit:flag-tag-order is fixed)
            if len({type(x).__name__ for x in tags} & {'FSimViaModelTag', 'TwoPulseFSimTag'}) < 2:
                o = o.with_tags(*tags)
        pool.append(o)
        return o

    def moments(self, n, qubits, keys, pool, subs=(), depth=0, allow_known=True):
        cirq, rng = self.cirq, self.rng
        out = []
        for _ in range(n):
            if out and rng.random() < 0.2:
                out.append(rng.choice(out))            # a repeated moment must share its constant
                continue
            free = list(qubits)
            ops = []
            for _ in range(rng.choice([1, 2, 2, 3, 4])):
                if not free:
                    break
                if subs and rng.random() < 0.25:
                    co = self.circuit_op(rng.choice(subs), free, keys, allow_known)
                    if co is not None:
                        ops.append(co)
                        continue
                o = self.op(free, keys, pool, allow_known)
                if o is not None:
                    ops.append(o)
            mtags = [self.tag() for _ in range(rng.choice([0, 0, 0, 1, 2]))]
            out.append(cirq.Moment(ops, tags=tuple(mtags)) if mtags else cirq.Moment(ops))
        return out

    def circuit_op(self, sub, free, keys, allow_known=True):
        cirq, rng = self.cirq, self.rng
        sq = sorted(sub.all_qubits())
        if any(q not in free for q in sq):
            # remap onto free qubits when possible
            if len(free) < len(sq):
                return None
            targets = rng.sample(free, len(sq))
            qmap = dict(zip(sq, targets))
        else:
            qmap = {}
            targets = sq
        for q in targets:
            free.remove(q)
        kw = {}
        r = rng.random()
        if r < 0.3:
            kw['repetitions'] = rng.choice([2, 3])
        elif r < 0.45:
            kw['repetitions'] = 2
            kw['repetition_ids'] = ['first', 'second']
        if rng.random() < 0.3:
            kw['use_repetition_ids'] = rng.random() < 0.5
        mkeys = sorted(cirq.measurement_key_names(sub))
        if mkeys and rng.random() < 0.3:
            kw['measurement_key_map'] = {mkeys[0]: mkeys[0] + '_x'}
        if cirq.is_parameterized(sub) and rng.random() < 0.4:
            kw['param_resolver'] = {'t': rng.choice([0.5, 0.1, self.u, 2])}
        try:
            co = cirq.CircuitOperation(sub, qubit_map=qmap, **kw)
        except ValueError:          # e.g. a key map applied to keys that already carry a repetition path
            free.extend(targets)
            return None
        if keys and rng.random() < 0.15 and not cirq.is_measurement(sub):
            co = co.with_classical_controls(self.condition(keys))
        elif allow_known and rng.random() < 0.05:
            co = co.with_tags('on-circuit-op')       # known finding circuit:tagged-circuit-operation
        return co

    def circuit(self, allow_known=True):
        cirq, rng = self.cirq, self.rng
        self.known = allow_known
        qubits = rng.sample(self.qubits, rng.choice([2, 3, 4, 6]))
        keys, pool = [], []
        subs = []
        for _ in range(rng.choice([0, 0, 1, 2])):
            sk = []
            sub_m = self.moments(rng.choice([1, 2, 3]), rng.sample(qubits, rng.choice([1, 2])), sk, pool, subs=subs if rng.random() < 0.4 else (), depth=1,
                                 allow_known=allow_known)
            stags = [self.tag()] if rng.random() < 0.2 else []
            subs.append(cirq.FrozenCircuit(sub_m, tags=stags) if stags else cirq.FrozenCircuit(sub_m))
        ms = self.moments(rng.choice([1, 2, 3, 5, 8]), qubits, keys, pool, subs=subs, allow_known=allow_known)
        ctags = [self.tag() for _ in range(rng.choice([0, 0, 1, 2]))]
        return cirq.Circuit(ms, tags=ctags) if ctags else cirq.Circuit(ms)


def make_norm(cirq, cg):
    """norm(x): x with every real argument rounded to float32 and gate global phases dropped -- the two freedoms the
    property grants.  Applied to both sides before comparing with Cirq's own equality."""
    import sympy

    def nexpr(e):
        if isinstance(e, sympy.Number):
            f = float(np.float32(float(e)))
            return sympy.Integer(int(f)) if f == int(f) else sympy.Float(f)
        if isinstance(e, sympy.Basic) and e.args:
            return e.func(*[nexpr(a) for a in e.args])
        return e

    def r32(x):
        if isinstance(x, sympy.Basic):
            return nexpr(x)
        if isinstance(x, (bool, str)) or x is None:
            return x
        if isinstance(x, (int, float, np.integer, np.floating)):
            f = float(np.float32(x))
            return int(f) if f == int(f) and abs(f) < 2 ** 31 else f
        return x

    def ngate(g):
        for cls in (cirq.XPowGate, cirq.YPowGate, cirq.ZPowGate, cirq.HPowGate, cirq.CZPowGate, cirq.ISwapPowGate):
            if isinstance(g, cls) and cirq.num_qubits(g) <= 2 and all(d == 2 for d in cirq.qid_shape(g)):
                return cls(exponent=r32(g.exponent))
        if isinstance(g, cirq.PhasedXPowGate):
            return cirq.PhasedXPowGate(exponent=r32(g.exponent), phase_exponent=r32(g.phase_exponent))
        if isinstance(g, cirq.PhasedXZGate):
            return cirq.PhasedXZGate(x_exponent=r32(g.x_exponent), z_exponent=r32(g.z_exponent), axis_phase_exponent=r32(g.axis_phase_exponent))
        if isinstance(g, (cg.SycamoreGate, cg.WillowGate)):
            return g
        if isinstance(g, cirq.FSimGate):
            return cirq.FSimGate(theta=r32(g.theta), phi=r32(g.phi))
        if isinstance(g, cirq.WaitGate) and type(g) is cirq.WaitGate:
            return cirq.WaitGate(cirq.Duration(nanos=r32(g.duration.total_nanos())), num_qubits=cirq.num_qubits(g))
        if isinstance(g, cirq.DepolarizingChannel):
            return cirq.DepolarizingChannel(p=r32(g.p), n_qubits=g.n_qubits)
        if isinstance(g, cg.InternalGate):
            return cg.InternalGate(g.gate_name, g.gate_module, g.num_qubits(), custom_args=g.custom_args or None, **{k: r32(v) for k, v in g.gate_args.items()})
        return g

    def ntag(t):
        if isinstance(t, cg.InternalTag):
            return cg.InternalTag(name=t.name, package=t.package, **{k: r32(v) for k, v in t.tag_args.items()})
        if isinstance(t, float):
            return r32(t)
        return t

    def nop(o):
        tags = tuple(ntag(t) for t in o.tags)
        u = o.untagged
        if isinstance(u, cirq.ClassicallyControlledOperation):
            inner = nop(u.without_classical_controls())
            res = inner.with_classical_controls(*u.classical_controls)
        elif isinstance(u, cirq.CircuitOperation):
            pr = {k: r32(v) for k, v in u.param_resolver.param_dict.items()}
            res = u.replace(circuit=ncirc(u.circuit).freeze(), param_resolver=cirq.ParamResolver(pr))
        elif u.gate is not None:
            res = ngate(u.gate).on(*u.qubits)
        else:
            res = u
        return res.with_tags(*tags) if tags else res

    def nmoment(m):
        tg = tuple(ntag(t) for t in m.tags)
        return cirq.Moment([nop(o) for o in m.operations], tags=tg) if tg else cirq.Moment([nop(o) for o in m.operations])

    def ncirc(c):
        tg = [ntag(t) for t in c.tags]
        ms = [nmoment(m) for m in c.moments]
        return cirq.Circuit(ms, tags=tg) if tg else cirq.Circuit(ms)

    return ncirc, nop, nmoment


class Adapter:
    """Turns a cirq circuit into a term of Codec/Intern.v.  Leaves (qubits, gate-and-controls, tags, circuit-operation
    payloads) are numbered by Python equality/hash, and every operation / moment / circuit is represented by the first
    value equal to it that was met, because that is what raw_constants (a dict) does."""

    def __init__(self, cirq):
        self.cirq = cirq
        self.q, self.g, self.t, self.p = {}, {}, {}, {}
        self.rep = {}

    @staticmethod
    def _id(d, k):
        return d.setdefault(k, len(d))

    def canon(self, x):
        return self.rep.setdefault(x, x)

    def op(self, o):
        cirq = self.cirq
        u = o.untagged
        inner = u.without_classical_controls() if isinstance(u, cirq.ClassicallyControlledOperation) else u
        if isinstance(inner, cirq.CircuitOperation):
            co = inner
            payload = (co.repetitions, tuple(co.qubit_map.items()), tuple(co.measurement_key_map.items()),
                       tuple((str(k), str(v)) for k, v in co.param_resolver.param_dict.items()),
                       None if co.repetition_ids is None else tuple(co.repetition_ids), co.use_repetition_ids, co.repeat_until,
                       tuple(o.classical_controls), tuple(o.tags))      # tags: part of what Moment equality compares
            return f'(Circ {self._id(self.p, payload)} {self.circuit(co.circuit)})'
        o = self.canon(o)
        u = o.untagged
        gate = u.without_classical_controls().gate if isinstance(u, cirq.ClassicallyControlledOperation) else u.gate
        payload = (gate, tuple(o.classical_controls))
        return (f'(Gate {self._id(self.g, payload)} {coq.zlist(self._id(self.q, q) for q in o.qubits)} '
                f'{coq.zlist(self._id(self.t, t) for t in o.tags)})')

    def moment(self, m):
        m = self.rep.setdefault(('moment', m, tuple(m.tags)), m)     # _serialize_circuit keys a moment by (moment, moment.tags)
        return f'(Mom [{"; ".join(self.op(o) for o in m.operations)}] {coq.zlist(self._id(self.t, t) for t in m.tags)})'

    def circuit(self, c):
        c = self.canon(c.freeze())
        return f'(Cir [{"; ".join(self.moment(m) for m in c.moments)}] {coq.zlist(self._id(self.t, t) for t in c.tags)})'


def proto_skeleton(msg):
    """Index structure of Program.constants and of the top-level circuit (leaf payloads dropped)."""
    rows = []
    for c in msg.constants:
        w = c.WhichOneof('const_value')
        if w == 'qubit':
            rows.append((0, [], [], []))
        elif w == 'tag_value':
            rows.append((1, [], [], []))
        elif w == 'operation_value':
            o = c.operation_value
            rows.append((2, list(o.qubit_constant_index), list(o.tag_indices), []))
        elif w == 'moment_value':
            m = c.moment_value
            rows.append((3, list(m.operation_indices), [co.circuit_constant_index for co in m.circuit_operations], list(m.tag_indices)))
        elif w == 'circuit_value':
            rows.append((4, list(c.circuit_value.moment_indices), list(c.circuit_value.tag_indices), []))
        else:
            rows.append((9, [], [], []))
    return rows, (list(msg.circuit.moment_indices), list(msg.circuit.tag_indices))


def classify_op_failure(cirq, o):
    """Signature for a single operation whose one-operation circuit does not round-trip (call-site attribution)."""
    names = [type(t).__name__ for t in o.tags]
    u = o.untagged
    inner = u.without_classical_controls() if isinstance(u, cirq.ClassicallyControlledOperation) else u
    if isinstance(inner, cirq.CircuitOperation) and o.tags:
        return 'circuit:tagged-circuit-operation'
    flags = [i for i, n in enumerate(names) if n in ('PhysicalZTag', 'FSimViaModelTag', 'TwoPulseFSimTag')]
    if flags and flags != [0]:
        return 'circuit:flag-tag-order'
    if isinstance(inner.gate, cirq.MeasurementGate) and inner.gate.confusion_map:
        return 'circuit:measurement-confusion-map'
    if isinstance(inner.gate, cirq.DepolarizingChannel) and float(inner.gate.p) == int(inner.gate.p):
        return 'circuit:depolarize-integral-probability'
    import sympy
    if any(isinstance(cc, cirq.SympyCondition) and isinstance(cc.expr, sympy.Symbol) for cc in o.classical_controls):
        return 'circuit:sympy-condition-bare-symbol'
    return 'circuit:op:' + type(inner.gate).__name__


def all_ops(cirq, c):
    for m in c.moments:
        for o in m.operations:
            yield o
            u = o.untagged
            inner = u.without_classical_controls() if isinstance(u, cirq.ClassicallyControlledOperation) else u
            if isinstance(inner, cirq.CircuitOperation):
                yield from all_ops(cirq, inner.circuit)


def roundtrip_ok(cirq, S, norm, c):
    """The property's statement on one circuit: deserialize(serialize(c)) equals c moment by moment after norm."""
    d = S.deserialize(S.serialize(c))
    a, b = norm(c), norm(d)
    if len(a.moments) != len(b.moments) or tuple(a.tags) != tuple(b.tags):
        return False, d
    return all(x == y and tuple(x.tags) == tuple(y.tags) for x, y in zip(a.moments, b.moments)), d


def moment_literal(m):
    return f'cirq.Moment([{", ".join(repr(o) for o in m.operations)}], tags={tuple(m.tags)!r})'


def circuit_literal(c):
    """repr(circuit) drops moment tags; this evaluable form keeps them."""
    return f'cirq.Circuit([{", ".join(moment_literal(m) for m in c.moments)}], tags={list(c.tags)!r})'


def explain_failure(ctx, cirq, S, norm, c, why, got=None):
    """Minimise a failing circuit to the call site: a single operation, or a pair of moments, that fails on its own."""
    found = False
    def is_cop(o):
        u = o.untagged
        inner = u.without_classical_controls() if isinstance(u, cirq.ClassicallyControlledOperation) else u
        return isinstance(inner, cirq.CircuitOperation)
    for want_cop in (False, True):          # leaves first; a circuit operation is blamed only when none of its leaves fails
        for o in all_ops(cirq, c):
            if is_cop(o) != want_cop:
                continue
            try:
                ok1, d1 = roundtrip_ok(cirq, S, norm, cirq.Circuit(o))
                w1 = f'got {list(d1.all_operations())!r}'
            except Exception as e:
                ok1, w1 = False, f'raised {type(e).__name__}: {str(e)[:200]}'
            if not ok1:
                found = True
                ctx.violation(classify_op_failure(cirq, o), f'deserialize(serialize(Circuit(op))) is not Circuit(op) for op = {o!r}; {w1}'[:1500],
                              dict(kind='circuit', literal=circuit_literal(cirq.Circuit(o))))
        if found:
            return
    if found:
        return
    def moments_of(cc):
        yield from cc.moments
        for o in all_ops(cirq, cc):
            u = o.untagged
            inner = u.without_classical_controls() if isinstance(u, cirq.ClassicallyControlledOperation) else u
            if isinstance(inner, cirq.CircuitOperation):
                yield from inner.circuit.moments
    ms = list(moments_of(c))
    for i, m1 in enumerate(ms):
        for m2 in ms[i + 1:]:
            if m1 == m2 and tuple(m1.tags) != tuple(m2.tags):
                cc = cirq.Circuit([m1, m2])
                ok2, d2 = roundtrip_ok(cirq, S, norm, cc)
                if not ok2:
                    ctx.violation('circuit:moment-tags-shared',
                                  f'two moments with equal operations and tags {m1.tags!r} / {m2.tags!r} come back with tags {[m.tags for m in d2.moments]!r}: {circuit_literal(cc)}'[:1500],
                                  dict(kind='circuit', literal=circuit_literal(cc)))
                    return
    # moments whose operations are pairwise equal but which Moment.__eq__ tells apart: an operation on interchangeable
    # qubits was replaced by the equal operation interned earlier, with the qubits in the other order
    def same_ops(m1, m2):
        rest = list(m2.operations)
        for o in m1.operations:
            hit = next((x for x in rest if x == o), None)
            if hit is None:
                return False
            rest.remove(hit)
        return not rest
    if got is not None and len(got.moments) == len(c.moments):
        a_, b_ = norm(c), norm(got)
        for i, (m1, m2) in enumerate(zip(a_.moments, b_.moments)):
            if m1 != m2 and same_ops(m1, m2) and tuple(m1.tags) == tuple(m2.tags):
                for o in c.moments[i].operations:
                    twin = next((x for x in got.moments[i].operations if x == o and x.qubits != o.qubits), None)
                    if twin is None:
                        continue
                    other = next((x for x in c.moments[i].operations if x is not o), None)
                    cc = cirq.Circuit([cirq.Moment([o.with_qubits(*twin.qubits)]), cirq.Moment([o] + ([other] if other is not None else []))])
                    try:
                        ok3, d3 = roundtrip_ok(cirq, S, norm, cc)
                    except Exception:
                        continue
                    if not ok3:
                        ctx.violation('circuit:symmetric-gate-qubit-order',
                                      f'{o!r} is interned with the equal operation {twin!r}; the moment that comes back is not == the original although its operations are pairwise equal: {circuit_literal(cc)}'[:1500],
                                      dict(kind='circuit', literal=circuit_literal(cc)))
                        return
    ctx.violation('circuit:roundtrip', f'{why}; c = {circuit_literal(c)}; got {None if got is None else circuit_literal(got)}'[:4000],
                  dict(kind='circuit', literal=circuit_literal(c)))


def special_circuits(cirq, cg):
    """Hand-picked cases run before the generated ones (the minimal inputs of the known findings among them)."""
    import sympy
    from cirq_google.ops import PhysicalZTag, FSimViaModelTag
    q0, q1, q2 = cirq.GridQubit(0, 0), cirq.GridQubit(0, 1), cirq.GridQubit(1, 1)
    t = sympy.Symbol('t')
    sub = cirq.FrozenCircuit(cirq.X(q0) ** t, cirq.CZ(q0, q1), cirq.measure(q0, key='m'))
    return [
        cirq.Circuit([cirq.Moment([cirq.X(q0)], tags=('a',)), cirq.Moment([cirq.X(q0)], tags=('b',))]),
        cirq.Circuit(cirq.CircuitOperation(cirq.FrozenCircuit(cirq.X(q0))).with_tags('t')),
        cirq.Circuit(cirq.Z(q0).with_tags('a', PhysicalZTag())),
        cirq.Circuit(cirq.FSimGate(0.1, 0.2).on(q0, q1).with_tags('a', FSimViaModelTag())),
        cirq.Circuit(cirq.measure(q0, key='m', confusion_map={(0,): np.array([[0.9, 0.1], [0.2, 0.8]])})),
        cirq.Circuit(cirq.depolarize(0.0).on(q0)),
        cirq.Circuit(cirq.Moment([cirq.CZ(q0, cirq.GridQubit(1, 0))]), cirq.Moment([cirq.CZ(cirq.GridQubit(1, 0), q0), cirq.X(cirq.GridQubit(0, 5))])),
        cirq.Circuit(cirq.measure(q0, key='m'), cirq.X(q1).with_classical_controls(sympy.Symbol('m'))),
        # equal operations written differently must share a constant and still come back equal
        cirq.Circuit(cirq.CZ(q0, q1), cirq.CZ(q1, q0), cirq.X(q0) ** 3, cirq.X(q0), cirq.X(q0) ** 1.0, cirq.X(q1).with_tags(1), cirq.X(q1).with_tags(True)),
        # unequal operations that collapse after float32 rounding keep separate constants
        cirq.Circuit(cirq.X(q0) ** 0.1, cirq.X(q0) ** (0.1 + 1e-12), cirq.X(q0) ** float(np.float32(0.1))),
        # one FrozenCircuit used three times with different payloads, and nested
        cirq.Circuit(cirq.CircuitOperation(sub), cirq.CircuitOperation(sub, repetitions=2),
                     cirq.CircuitOperation(sub, qubit_map={q0: q2}, measurement_key_map={'m': 'm2'}, param_resolver={'t': 0.25}),
                     cirq.CircuitOperation(cirq.FrozenCircuit(cirq.CircuitOperation(sub, repetitions=3), cirq.X(q2)))),
        cirq.Circuit(),
        cirq.Circuit(cirq.Moment(), cirq.Moment(), tags=['only tags']),
        cirq.Circuit(cirq.X(cirq.LineQubit(3)), cirq.Y(cirq.NamedQubit('nq')), cirq.CZ(cirq.LineQubit(3), cirq.GridQubit(2, 5))),
    ]


def circuits_stream(ctx, cirq, cg, n, shard=0):
    S = cg.CIRCUIT_SERIALIZER
    norm, nop, _ = make_norm(cirq, cg)
    V = Vocab(ctx, cirq, cg)
    rows = []
    todo = (special_circuits(cirq, cg) if shard == 0 else []) + [None] * n
    for case, c in enumerate(todo):
        if c is None:
            c = V.circuit()
        nops = sum(1 for _ in all_ops(cirq, c))
        try:
            msg = S.serialize(c)
        except Exception as e:
            if isinstance(e, ValueError) and 'confusion map' in str(e) and any(
                    cirq.is_measurement(o) and getattr(o.gate, 'confusion_map', None) for o in all_ops(cirq, c)):
                # the program format has no field for a confusion map: refused, not dropped (was finding circuit:measurement-confusion-map)
                ctx.count('circuit:rejected', repr(c), True, sample=dict(circuit=str(c)[:300], rejected=str(e)[:120]))
                continue
            explain_failure(ctx, cirq, S, norm, c, f'serialize raised {type(e).__name__}: {str(e)[:200]}')
            continue
        try:
            ok, d = roundtrip_ok(cirq, S, norm, c)
            why = 'deserialize(serialize(c)) differs from c after float32 rounding'
        except Exception as e:
            ok, d, why = False, None, f'deserialize raised {type(e).__name__}: {str(e)[:200]}'
        shared = len(msg.constants) < 1 + nops + sum(len(o.qubits) + len(o.tags) for o in all_ops(cirq, c))
        feats = sorted({type(o.untagged.without_classical_controls().gate if isinstance(o.untagged, cirq.ClassicallyControlledOperation) else o.untagged.gate).__name__ for o in all_ops(cirq, c)})
        ctx.count('circuit:roundtrip', repr(c) + repr([m.tags for m in c.moments]), nops >= 3 and shared,
                  sample=dict(circuit=str(c)[:600], constants=len(msg.constants), operations=nops, gate_types=feats))
        if not ok:
            explain_failure(ctx, cirq, S, norm, c, why, d)
        # interning model: same index structure
        ad = Adapter(cirq)
        term = ad.circuit(c)
        sk, top = proto_skeleton(msg)
        rows.append((term, sk, top, c))
        ctx.count('circuit:constants_table', repr(c), shared and nops >= 3)
    nl = lambda xs: '[' + '; '.join(str(int(x)) for x in xs) + ']'
    text = ('From Coq Require Import ZArith List Bool.\nFrom VF Require Import Codec.Intern Base.Harness.\nImport ListNotations.\n'
            'Definition skel (c : constant Z Z Z Z) : nat * list nat * list nat * list nat :=\n'
            '  match c with CQ _ => (0, [], [], []) | CT _ => (1, [], [], []) | COp _ q t => (2, q, t, [])\n'
            '  | CMom o c t => (3, o, map snd c, t) | CCir m t => (4, m, t, []) end.\n'
            'Definition sk_eqb (a b : nat * list nat * list nat * list nat) : bool :=\n'
            '  match a, b with (k, x, y, z), (k2, x2, y2, z2) => Nat.eqb k k2 && nl_eqb x x2 && nl_eqb y y2 && nl_eqb z z2 end.\n'
            'Definition ser (c : circuit Z Z Z Z) := serialize Z.eqb Z.eqb Z.eqb Z.eqb c.\n'
            'Definition agree (c : circuit Z Z Z Z) (sk : list (nat * list nat * list nat * list nat)) (top : list nat * list nat) : bool :=\n'
            '  let m := ser c in list_eqb sk_eqb (map skel (fst m)) sk && nl_eqb (fst (snd m)) (fst top) && nl_eqb (snd (snd m)) (snd top)\n'
            '  && backward m.\n')
    sk_lit = lambda sk: '[' + '; '.join(f'({k}, {nl(a)}, {nl(b)}, {nl(c_)})' for k, a, b, c_ in sk) + ']'
    text += 'Open Scope Z_scope.\nDefinition cases : list (circuit Z Z Z Z * list (nat * list nat * list nat * list nat) * (list nat * list nat)) := [\n'
    text += ';\n'.join(f'({term}, {sk_lit(sk)}%nat, ({nl(top[0])}, {nl(top[1])})%nat)' for term, sk, top, _ in rows) + '].\n'
    text += 'Eval vm_compute in failing (fun c => match c with (t, sk, top) => agree t sk top end) cases.\n'
    vals = coq.parse_evals(coq.coq_eval(f'c16_circuits_{ctx.seed}_{shard}', text))
    for idx in coq.parse_nat_list(vals[0]):
        term, sk, top, c = rows[idx]
        ctx.mark_broken('correspondence:constants_table', f'constants table differs from the interning model for {c!r}; table skeleton {sk} top {top}'[:3000])


# ------------------------------------------------------------------ sweeps and run contexts
def f32(x):
    return float(np.float32(x))


def gen_single_sweep(ctx, cirq, cg, key):
    rng = ctx.rng
    from cirq_google.study import DeviceParameter
    md = None
    if rng.random() < 0.3:
        md = DeviceParameter(path=rng.choice([['q', 'freq'], ['a'], ['x', 'y', 'z']]), idx=rng.choice([None, None, 0, 3]), units=rng.choice([None, 'GHz', 'ns']))
    r = rng.random()
    if r < 0.35:
        n = rng.choice([2, 3, 5])
        pts = [rng.choice([round(rng.uniform(-3, 3), rng.choice([1, 4, 12])), rng.randint(-5, 5), 0.1, 1 / 3]) for _ in range(n)]
        return cirq.Points(key, pts, metadata=md)
    if r < 0.55:
        return cirq.Points(key, [rng.choice([0.1, 2, -7, 0.0, 1e-9, None, 'label', 2.5])], metadata=md)
    if r < 0.85:
        return cirq.Linspace(key, rng.choice([0, 0.1, -1.5, 0.0]), rng.choice([1, 0.7, 2.5, 0.0]), rng.choice([1, 2, 5]), metadata=md)
    return cg.study.FiniteRandomVariable(key, distribution={0.1: 0.25, 2.0: 0.5, -1.0: 0.25}, length=rng.choice([1, 4]), seed=rng.randint(0, 9), metadata=md)


def gen_sweep(ctx, cirq, cg, keys, depth=0):
    rng = ctx.rng
    if depth >= 2 or len(keys) == 1 or rng.random() < 0.3:
        r = rng.random()
        if r < 0.08:
            return cirq.UnitSweep
        if r < 0.2 and depth == 0:
            n = rng.choice([1, 2, 3])
            ks = keys[:rng.choice([1, 2])]
            if rng.random() < 0.15 and len(keys) >= 2:      # resolvers with different key sets: known finding sweep:listsweep-heterogeneous
                return cirq.ListSweep([{keys[0]: 1}, {keys[1]: 2}])
            return cirq.ListSweep([{k: rng.choice([0.5, 1, 0.1, -2]) for k in ks} for _ in range(n)])
        if r < 0.3:
            a, b = gen_single_sweep(ctx, cirq, cg, keys[0]), gen_single_sweep(ctx, cirq, cg, keys[0])
            return cirq.Concat(a, b)
        return gen_single_sweep(ctx, cirq, cg, keys[0])
    cut = rng.randint(1, len(keys) - 1)
    a, b = gen_sweep(ctx, cirq, cg, keys[:cut], depth + 1), gen_sweep(ctx, cirq, cg, keys[cut:], depth + 1)
    return rng.choice([cirq.Zip, cirq.ZipLongest, cirq.Product, cirq.Product])(a, b)


def sweep_desc(cirq, s, float64):
    """Specification-level description of a sweep: structure, keys, values (float32 unless float64), metadata."""
    r = (lambda x: x) if float64 else (lambda x: f32(x) if isinstance(x, (int, float)) and not isinstance(x, bool) else x)
    if s is cirq.UnitSweep:
        return ('unit',)
    if isinstance(s, cirq.ListSweep):
        return ('list', [sorted((str(k), r(v)) for k, v in pr.param_dict.items()) for pr in s])
    if isinstance(s, cirq.Product):
        return ('product', [sweep_desc(cirq, f, float64) for f in s.factors])
    if isinstance(s, cirq.ZipLongest):
        return ('ziplongest', [sweep_desc(cirq, f, float64) for f in s.sweeps])
    if isinstance(s, cirq.Zip):
        return ('zip', [sweep_desc(cirq, f, float64) for f in s.sweeps])
    if isinstance(s, cirq.Concat):
        return ('concat', [sweep_desc(cirq, f, float64) for f in s.sweeps])
    md = getattr(s, 'metadata', None)
    mdd = None if md is None else (list(md.path), md.idx, md.units)
    if isinstance(s, cirq.Linspace):
        return ('linspace', s.key, float(r(s.start)), float(r(s.stop)), s.length, mdd)
    if isinstance(s, cirq.Points):
        pts = list(s.points)
        if len(pts) == 1 and isinstance(pts[0], int):
            return ('points', s.key, pts, mdd)         # a single int is kept exact (const int_value)
        return ('points', s.key, [float(r(x)) if isinstance(x, (int, float)) else x for x in pts], mdd)
    return ('frv', s.key, sorted((float(k), f32(v) if False else float(v)) for k, v in s.distribution.items()), s.length, s.seed, mdd)


def round_sweep(cirq, s, float64):
    """The sweep the receiver is entitled to: the same structure with the stored numbers rounded to float32."""
    if float64 or s is cirq.UnitSweep:
        return s
    r = lambda x: f32(x) if isinstance(x, (int, float)) and not isinstance(x, bool) else x
    if isinstance(s, cirq.ListSweep):
        return cirq.ListSweep([{k: r(v) for k, v in pr.param_dict.items()} for pr in s])
    if isinstance(s, cirq.Product):
        return cirq.Product(*[round_sweep(cirq, f, float64) for f in s.factors])
    if isinstance(s, cirq.ZipLongest):
        return cirq.ZipLongest(*[round_sweep(cirq, f, float64) for f in s.sweeps])
    if isinstance(s, cirq.Zip):
        return cirq.Zip(*[round_sweep(cirq, f, float64) for f in s.sweeps])
    if isinstance(s, cirq.Concat):
        return cirq.Concat(*[round_sweep(cirq, f, float64) for f in s.sweeps])
    if isinstance(s, cirq.Linspace):
        return cirq.Linspace(s.key, r(s.start), r(s.stop), s.length, metadata=s.metadata)
    if isinstance(s, cirq.Points):
        pts = list(s.points)
        return s if len(pts) == 1 and isinstance(pts[0], int) else cirq.Points(s.key, [r(x) for x in pts], metadata=s.metadata)
    return s


def sweep_values(sw):
    return [sorted((str(k), float(v) if isinstance(v, (int, float)) and not isinstance(v, bool) else v) for k, v in t) for t in sw.param_tuples()]


def hetero_listsweep(cirq, s):
    return isinstance(s, cirq.ListSweep) and len({tuple(sorted(map(str, pr.param_dict))) for pr in s}) > 1


def sweeps_stream(ctx, cirq, cg, v2, n):
    import gzip
    from cirq_google.api.v2 import run_context_pb2
    rng = ctx.rng
    from cirq_google.study import DeviceParameter
    specials = [cirq.Points('a', [0.1, 0.2], metadata=DeviceParameter(path=['x', 'y'], idx=0)),
                cg.study.FiniteRandomVariable('a', distribution={0.1: 0.25, 2.0: 0.5, -1.0: 0.25}, seed=0, length=8),
                cirq.ListSweep([{'a': 1}, {'b': 2}]), cirq.ListSweep([{'a': 1, 'b': 0.1}, {'a': 2, 'b': 0.2}]), cirq.UnitSweep,
                cirq.Zip(cirq.Points('a', [1, 2, 3]), cirq.Points('b', [0.5, 0.25])), cirq.ZipLongest(cirq.Points('a', [1, 2, 3]), cirq.Points('b', [0.5, 0.25])),
                cirq.Product(cirq.Zip(cirq.Points('a', [1, 2]), cirq.Points('b', [3, 4])), cirq.Linspace('c', 0, 1, 3)),
                cirq.Concat(cirq.Points('a', [1, 2]), cirq.Linspace('a', 0, 1, 3))]
    for case in range(n + len(specials)):
        keys = rng.sample(['a', 'b', 'c', 'theta'], rng.choice([1, 2, 3]))
        s = specials[case] if case < len(specials) else gen_sweep(ctx, cirq, cg, keys)
        f64 = rng.random() < 0.3
        rp = dict(kind='sweep', repr=repr(s), float64=f64)
        try:
            d = v2.sweep_from_proto(v2.sweep_to_proto(s, use_float64=f64))
        except Exception as e:
            if isinstance(e, ValueError) and hetero_listsweep(cirq, s):
                # not expressible as a zip of per-key points: refused, nothing is changed silently (was finding sweep:listsweep-heterogeneous)
                ctx.count('sweep:rejected', repr(s), True, sample=dict(sweep=repr(s), rejected=str(e)[:120]))
                continue
            ctx.violation('sweep:raises:' + type(e).__name__, f'sweep round trip raised {type(e).__name__}: {e} on {s!r}', rp)
            continue
        exp, got = sweep_desc(cirq, s, f64), sweep_desc(cirq, d, True)
        nontriv = not isinstance(s, (cirq.Points, cirq.Linspace)) and s is not cirq.UnitSweep and len(s) > 1
        ctx.count('sweep:roundtrip', [repr(s), f64], nontriv, sample=dict(sweep=repr(s), float64=f64, back=repr(d)))
        if isinstance(s, cirq.ListSweep):
            # a ListSweep travels as a Zip of Points: the parameter assignments are what must survive
            r = (lambda x: x) if f64 else f32
            e_res = [sorted((str(k), r(v)) for k, v in pr.param_dict.items()) for pr in s]
            g_res = [sorted((str(k), float(v)) for k, v in pr.param_dict.items()) for pr in d]
            if e_res != g_res:
                hetero = len({tuple(sorted(map(str, pr.param_dict))) for pr in s}) > 1
                ctx.violation('sweep:listsweep-heterogeneous' if hetero else 'sweep:listsweep', f'{s!r} comes back as {d!r} with assignments {g_res}, expected {e_res}', rp)
            continue
        if exp != got:
            sig = 'sweep:roundtrip'
            if 'idx=0' in repr(s) and str(exp).replace("'], 0, ", "'], None, ") == str(got):
                sig = 'sweep:device-parameter-idx-zero'
            ctx.violation(sig, f'sweep_from_proto(sweep_to_proto(s, use_float64={f64})) = {d!r} ({got}); expected {exp} for s = {s!r}', rp)
        else:
            if isinstance(s, cg.study.FiniteRandomVariable) and len(s.distribution) > 1:
                # the wire format is a map: its order is unspecified (and differs from run to run), so every ordering of the
                # distribution is a legitimate decoding; all of them compare equal and must then yield the same values
                alt = cg.study.FiniteRandomVariable(s.key, distribution=dict(reversed(list(s.distribution.items()))), seed=s.seed, length=s.length, metadata=s.metadata)
                if alt == s and sweep_values(alt) != sweep_values(s):
                    ctx.violation('sweep:finite-random-variable-order',
                                  f'{s!r} and the same sweep with its distribution listed in another order (what a decoded proto map may give) are equal but yield '
                                  f'{sweep_values(s)} and {sweep_values(alt)}', rp)
            e_vals, g_vals = sweep_values(round_sweep(cirq, s, f64)), sweep_values(d)
            if e_vals != g_vals:
                sig = 'sweep:finite-random-variable-order' if 'FiniteRandomVariable' in repr(s) else 'sweep:values'
                ctx.violation(sig, f'the decoded sweep is equal in structure but yields other parameter values: {g_vals} instead of {e_vals} for {s!r} -> {d!r}', rp)
        # ---- run context: sweepable + repetitions
        if rng.random() < 0.5:
            kind = rng.choice(['none', 'dict', 'dicts', 'sweep', 'sweeps', 'resolver'])
            sweepable = {'none': None, 'dict': {'a': 0.5, 'b': 2}, 'dicts': [{'a': 0.5}, {'a': 0.25, 'b': 1}], 'sweep': s,
                         'sweeps': [s, gen_sweep(ctx, cirq, cg, keys)], 'resolver': cirq.ParamResolver({'a': 0.1})}[kind]
            nsw = len(cirq.to_sweeps(sweepable))
            reps = rng.choice([rng.randint(1, 1000), [rng.randint(1, 50) for _ in range(nsw)], [5, 6, 7] if nsw == 1 else [1] * (nsw + 1)])
            compress = rng.random() < 0.3
            try:
                rc = v2.run_context_to_proto(sweepable, reps, compress_proto=compress, use_float64=f64)
                if compress:
                    rc = run_context_pb2.RunContext.FromString(gzip.decompress(rc.compressed_run_context))
                got_reps = [ps.repetitions for ps in rc.parameter_sweeps]
                got_sw = [v2.sweep_from_proto(ps.sweep) for ps in rc.parameter_sweeps]
            except ValueError:
                got_reps = got_sw = None
            sl = cirq.to_sweeps(sweepable)
            if isinstance(reps, list):
                if len(sl) == 1 and len(reps) > 1:
                    sl = sl * len(reps)
                exp_reps = reps if len(sl) == len(reps) else None
            else:
                exp_reps = [reps] * len(sl)
            if any(hetero_listsweep(cirq, e) for e in sl):
                exp_reps = None          # refused by sweep_to_proto
            ok = (got_reps is None) == (exp_reps is None) and (got_reps is None or (
                got_reps == exp_reps and [sweep_values(g) for g in got_sw] == [sweep_values(round_sweep(cirq, e, f64)) for e in sl]))
            ctx.count('run_context', [kind, repr(sweepable), repr(reps), compress, f64], isinstance(reps, list) and len(reps) > 1,
                      sample=dict(sweepable=repr(sweepable)[:300], repetitions=reps, compressed=compress, decoded_repetitions=got_reps))
            if not ok:
                # is it the run context, or one of its sweeps on its own (a known sweep-level finding)?
                sig = 'run_context:roundtrip'
                noidx = lambda dsc: str(dsc).replace("'], 0, ", "'], None, ")
                if got_reps == exp_reps and got_sw is not None and len(got_sw) == len(sl):
                    sigs = set()
                    for e, g in zip(sl, got_sw):
                        if sweep_values(g) == sweep_values(round_sweep(cirq, e, f64)):
                            continue
                        if isinstance(e, cirq.ListSweep):
                            sigs.add('sweep:listsweep-heterogeneous' if len({tuple(sorted(map(str, pr.param_dict))) for pr in e}) > 1 else 'run_context:roundtrip')
                        elif 'FiniteRandomVariable' in repr(e) and noidx(sweep_desc(cirq, g, True)) == noidx(sweep_desc(cirq, e, f64)):
                            sigs.add('sweep:finite-random-variable-order')
                        else:
                            sigs.add('run_context:roundtrip')
                    if len(sigs) == 1:
                        sig = sigs.pop()
                ctx.violation(sig, f'run_context_to_proto({sweepable!r}, {reps}) decodes to repetitions {got_reps} and sweeps {got_sw!r}', dict(rp, sweepable=repr(sweepable), repetitions=reps))


# ------------------------------------------------------------------ multi-program and circuit-function forms
def multi_stream(ctx, cirq, cg, n):
    S = cg.CIRCUIT_SERIALIZER
    norm, _, _ = make_norm(cirq, cg)
    V = Vocab(ctx, cirq, cg)
    rng = ctx.rng
    import sympy
    for case in range(n):
        cs = [V.circuit(allow_known=False) for _ in range(rng.choice([1, 2, 3]))]
        if len(cs) > 1 and rng.random() < 0.5:
            cs.append(cs[0])                       # the same circuit twice: everything is shared
        form = rng.choice(['list', 'dict', 'function'])
        try:
            if form == 'list':
                msg = S.serialize_multi_program(cs)
                exp = [('', {}, c) for c in cs]
            elif form == 'dict':
                keys = [f'k{i}' for i in range(len(cs))]
                msg = S.serialize_multi_program(dict(zip(keys, cs)))
                exp = [(k, {}, c) for k, c in zip(keys, cs)]
            else:
                sweep = cirq.Product(cirq.Points('idx', list(range(len(cs)))), cirq.Points('w', [0.1, 0.5]))
                msg = S.serialize_circuit_function(lambda idx, w: cs[int(idx)], sweep)
                exp = [('', dict(t), cs[int(dict(t)['idx'])]) for t in sweep.param_tuples()]
            got = S.deserialize_multi_program(msg)
        except Exception as e:
            ctx.violation('multi:raises:' + type(e).__name__, f'{form} form raised {type(e).__name__}: {str(e)[:300]}', dict(kind='multi', form=form, literals=[circuit_literal(c) for c in cs]))
            continue
        ok = len(got) == len(exp)
        for (k, a, c), (gk, ga, gc) in zip(exp, got):
            ok = ok and k == gk and {kk: f32(v) for kk, v in a.items()} == {kk: float(v) for kk, v in dict(ga).items()}
            x, y = norm(c), norm(gc)
            ok = ok and len(x.moments) == len(y.moments) and all(m1 == m2 and tuple(m1.tags) == tuple(m2.tags) for m1, m2 in zip(x.moments, y.moments)) and tuple(x.tags) == tuple(y.tags)
        tot = sum(len(S.serialize(c).constants) for c in cs)
        ctx.count('multi_program', [form, [circuit_literal(c) for c in cs]], len(cs) > 1 and len(msg.constants) < tot,
                  sample=dict(form=form, circuits=len(exp), constants=len(msg.constants), constants_if_separate=tot))
        if not ok:
            # moment tags shared across programs are the known finding; anything else is new
            shared_tags = False
            allm = [m for c in cs for m in c.moments]
            for i_, m1 in enumerate(allm):
                shared_tags = shared_tags or any(m1 == m2 and tuple(m1.tags) != tuple(m2.tags) for m2 in allm[i_ + 1:])
            single = [roundtrip_ok(cirq, S, norm, c) for c in cs]
            if not shared_tags and any(not okc for okc, _ in single):
                for c, (okc, dc) in zip(cs, single):       # a circuit that already fails on its own: explain it there
                    if not okc:
                        explain_failure(ctx, cirq, S, norm, c, 'deserialize(serialize(c)) differs from c', dc)
            else:
                ctx.violation('circuit:moment-tags-shared' if shared_tags else 'multi:roundtrip', f'{form} form: deserialize_multi_program(serialize(...)) differs from the circuits',
                              dict(kind='multi', form=form, literals=[circuit_literal(c) for c in cs]))


# ------------------------------------------------------------------ device specifications
GATE_NAMES = ['syc', 'sqrt_iswap', 'sqrt_iswap_inv', 'cz', 'cz_pow_gate', 'phased_xz', 'virtual_zpow', 'physical_zpow', 'meas', 'wait',
              'fsim_via_model', 'two_pulse_fsim', 'internal_gate', 'reset']


def spec_accepts(cirq, cg, proto, op):
    """Accept/reject decision read off the DeviceSpecification alone (written from the documentation of the fields)."""
    from cirq_google.api import v2
    names = {g.WhichOneof('gate') for g in proto.valid_gates}
    gate, tags = op.gate, set(type(t).__name__ for t in op.tags)

    def same(target):
        try:
            return cirq.equal_up_to_global_phase(cirq.unitary(gate), cirq.unitary(target), atol=1e-8)
        except Exception:
            return False
    ok = False
    for nme in names:
        if nme == 'syc':
            ok |= cirq.num_qubits(gate) == 2 and same(cg.SYC)
        elif nme == 'sqrt_iswap':
            ok |= cirq.num_qubits(gate) == 2 and same(cirq.SQRT_ISWAP)
        elif nme == 'sqrt_iswap_inv':
            ok |= cirq.num_qubits(gate) == 2 and same(cirq.SQRT_ISWAP_INV)
        elif nme == 'cz':
            ok |= cirq.num_qubits(gate) == 2 and same(cirq.CZ)
        elif nme == 'cz_pow_gate':
            ok |= isinstance(gate, cirq.CZPowGate)
        elif nme == 'phased_xz':
            ok |= isinstance(gate, (cirq.IdentityGate, cirq.PhasedXZGate, cirq.XPowGate, cirq.YPowGate, cirq.HPowGate, cirq.PhasedXPowGate, cirq.SingleQubitCliffordGate))
        elif nme == 'virtual_zpow':
            ok |= isinstance(gate, cirq.ZPowGate) and 'PhysicalZTag' not in tags
        elif nme == 'physical_zpow':
            ok |= isinstance(gate, cirq.ZPowGate) and 'PhysicalZTag' in tags
        elif nme == 'meas':
            ok |= isinstance(gate, cirq.MeasurementGate)
        elif nme == 'wait':
            ok |= isinstance(gate, cirq.WaitGate)
        elif nme == 'fsim_via_model':
            ok |= isinstance(gate, cirq.FSimGate) and 'FSimViaModelTag' in tags
        elif nme == 'two_pulse_fsim':
            ok |= isinstance(gate, cirq.FSimGate) and 'TwoPulseFSimTag' in tags
        elif nme == 'internal_gate':
            ok |= isinstance(gate, cg.InternalGate)
        elif nme == 'reset':
            ok |= isinstance(gate, cirq.ResetChannel)
    if not ok:
        return False
    ids = [v2.qubit_to_proto_id(q) for q in op.qubits]
    if any(i not in proto.valid_qubits for i in ids):
        return False
    if len(ids) == 2 and not isinstance(gate, (cirq.MeasurementGate, cirq.WaitGate)):
        pairs = {frozenset(t.ids) for ts in proto.valid_targets if ts.target_ordering == v2.device_pb2.TargetSet.SYMMETRIC for t in ts.targets if len(t.ids) == 2}
        return frozenset(ids) in pairs
    return True


def proto_canon(proto):
    """A DeviceSpecification up to the order of its repeated fields (qubits of a set are written in iteration order)."""
    return (sorted(proto.valid_qubits),
            sorted((ts.name, ts.target_ordering, tuple(sorted(tuple(sorted(t.ids)) for t in ts.targets))) for ts in proto.valid_targets),
            sorted((g.WhichOneof('gate'), g.gate_duration_picos) for g in proto.valid_gates),
            sorted((q, sorted((k, v.WhichOneof('val'), str(getattr(v, v.WhichOneof('val')) if v.WhichOneof('val') else None)) for k, v in a.attributes.items()))
                   for q, a in proto.qubit_attributes.items()))


def devices_stream(ctx, cirq, cg, n):
    from cirq_google.devices import grid_device as gd
    from cirq_google.ops import PhysicalZTag, FSimViaModelTag, TwoPulseFSimTag
    rng = ctx.rng
    grid = [cirq.GridQubit(r, c) for r in range(3) for c in range(3)]
    fam = {gr.gate_spec_name: gr.supported_gates for gr in gd._GATES}
    test_gates1 = [cirq.X, cirq.Y ** 0.3, cirq.Z ** 0.2, cirq.H, cirq.PhasedXZGate(x_exponent=0.1, z_exponent=0.2, axis_phase_exponent=0.3), cirq.I,
                   cirq.rx(0.3), cirq.ResetChannel(), cirq.WaitGate(cirq.Duration(nanos=5)), cg.InternalGate('g', 'm', 1), cirq.S, cirq.T]
    test_gates2 = [cirq.CZ, cirq.CZ ** 0.5, cirq.CZ ** -1, cg.SYC, cirq.SQRT_ISWAP, cirq.SQRT_ISWAP_INV, cirq.ISWAP, cirq.FSimGate(np.pi / 2, np.pi / 6),
                   cirq.FSimGate(0.3, 0.4), cirq.CNOT, cirq.SWAP, cirq.ISWAP ** 0.5, cirq.WaitGate(cirq.Duration(nanos=5), num_qubits=2)]
    for case in range(n):
        qs = rng.sample(grid, rng.choice([2, 4, 6, 9]))
        adj = [(a, b) for a in qs for b in qs if a < b and a.is_adjacent(b)]
        pairs = rng.sample(adj, rng.randint(0, len(adj))) if adj else []
        names = rng.sample(GATE_NAMES, rng.randint(1, 8))
        gateset = cirq.Gateset(*[rng.choice(fam[nm]) for nm in names])
        dmode = rng.choice(['none', 'empty', 'some', 'some'])
        durs = None if dmode == 'none' else ({} if dmode == 'empty' else {g: cirq.Duration(picos=rng.choice([0, 1000, 25000, 12])) for g in rng.sample(sorted(gateset.gates, key=repr), rng.randint(1, len(gateset.gates)))})
        rp = dict(kind='device', qubits=[(q.row, q.col) for q in qs], pairs=[[(a.row, a.col), (b.row, b.col)] for a, b in pairs], gates=names, durations=dmode)
        try:
            dev = cg.GridDevice._from_device_information(qubit_pairs=pairs, gateset=gateset, gate_durations=durs, all_qubits=qs)
        except ValueError:
            continue                       # inconsistent durations for one gate representation: not a device
        proto = dev.to_proto()
        if rng.random() < 0.4:             # qubit attributes only exist on devices read from a specification
            for q in rng.sample(qs, rng.randint(1, len(qs))):
                a = proto.qubit_attributes[f'{q.row}_{q.col}']
                for nm_, val in rng.sample([('freq', 5.1), ('idx', 3), ('ok', True), ('label', 'x'), ('none', None)], rng.randint(1, 3)):
                    gd._qubit_attribute_value_to_proto(a.attributes[nm_], val)
            dev = cg.GridDevice.from_proto(proto)
            proto = dev.to_proto()
        dev2 = cg.GridDevice.from_proto(proto)
        same_parts = (dev2.metadata.qubit_set == dev.metadata.qubit_set and dev2.metadata.qubit_pairs == dev.metadata.qubit_pairs
                      and dev2.metadata.gateset == dev.metadata.gateset and dict(dev2.qubit_attributes) == dict(dev.qubit_attributes)
                      and proto_canon(dev2.to_proto()) == proto_canon(proto))
        durs_equal = dev2.metadata.gate_durations == dev.metadata.gate_durations
        ctx.count('device:roundtrip', rp, len(pairs) >= 1 and len(names) >= 2, sample=dict(rp, valid_gates=[g.WhichOneof('gate') for g in proto.valid_gates]))
        if not same_parts:
            ctx.violation('device:roundtrip', f'GridDevice.from_proto(d.to_proto()) differs from d in qubits/pairs/gateset/attributes for {rp}', rp)
        elif not durs_equal or dev2 != dev:
            if dev.metadata.gate_durations is None and all(v == cirq.Duration() for v in dev2.metadata.gate_durations.values()):
                ctx.violation('device:absent-durations-become-zero', f'a device without gate durations comes back with zero durations for every gate, so from_proto(d.to_proto()) != d: {rp}', rp)
            else:
                ctx.violation('device:durations', f'gate durations change in the round trip: {dev.metadata.gate_durations} -> {dev2.metadata.gate_durations}', rp)
        # equal accept / reject decisions, and equal to what the specification says
        for _ in range(12):
            if rng.random() < 0.5:
                g = rng.choice(test_gates1)
                q = rng.choice(grid)
                op = g.on(q)
                if isinstance(g, cirq.ZPowGate) and rng.random() < 0.5:
                    op = op.with_tags(PhysicalZTag())
            elif rng.random() < 0.2:
                op = cirq.measure(*rng.sample(grid, rng.choice([1, 2, 3])), key='m')
            else:
                g = rng.choice(test_gates2)
                a = rng.choice(grid)
                b = rng.choice([x for x in grid if x != a and (rng.random() < 0.3 or x.is_adjacent(a))])
                op = g.on(a, b)
                if isinstance(g, cirq.FSimGate) and rng.random() < 0.5:
                    op = op.with_tags(rng.choice([FSimViaModelTag(), TwoPulseFSimTag()]))
            dec = []
            for d_ in (dev, dev2):
                try:
                    d_.validate_operation(op)
                    dec.append(True)
                except ValueError:
                    dec.append(False)
            want = spec_accepts(cirq, cg, proto, op)
            ctx.count('device:validate', [rp, repr(op)], dec[0], sample=dict(gates=names, op=repr(op), accepted=dec[0]))
            if dec[0] != dec[1] or dec[0] != want:
                ctx.violation('device:validate', f'operation {op!r}: device says {dec[0]}, device read back from its specification says {dec[1]}, the specification says {want}; {rp}',
                              dict(rp, op=repr(op)))


def run(ctx):
    mods = env.import_cirq(('cirq_google',))
    cirq, cg = mods['cirq'], mods['cirq_google']
    from cirq_google.api import v2
    ctx.rule = ('bits: random bool arrays of length 0..300 (dense around multiples of 8) and random byte strings with any '
                'repetition count; non-trivial = mixed bits, >= 2 long; distinct by canonical input')
    ctx.assumptions += ['vf/checks/c16.py adapters calling cirq_google and canonicalising outputs',
                        'protobuf and numpy are trusted', 'leaf identifiers are assigned by Python equality/hash']
    ctx.set_obligations(coq.compile_props('C16'))
    q = ctx.tier == 'quick'
    try:
        streams(ctx, cirq, cg, v2, q)
    except Exception:
        import traceback
        ctx.mark_broken('harness-exception', traceback.format_exc()[-2000:])


def streams(ctx, cirq, cg, v2, q):
    for shard in range(1 if q else 10):          # cases files stay below ~500 cases each
        bits_stream(ctx, v2, 300, shard)
    for shard in range(1 if q else 10):
        results_stream(ctx, cirq, v2, 120, shard)
    nc = 150 if q else 1500
    for shard in range(0, nc, 150):
        circuits_stream(ctx, cirq, cg, min(150, nc - shard), shard)
    multi_stream(ctx, cirq, cg, 25 if q else 250)
    sweeps_stream(ctx, cirq, cg, v2, 250 if q else 2500)
    devices_stream(ctx, cirq, cg, 60 if q else 600)


def replay(ctx, data):
    mods = env.import_cirq(('cirq_google',))
    from cirq_google.api import v2
    k = data.get('kind')
    if k == 'bits':
        bits = [bool(b) for b in data['bits']]
        d = v2.pack_bits(np.array(bits, dtype=bool))
        back = [bool(x) for x in v2.unpack_bits(d, len(bits))]
        print('packed', list(d), 'back', back)
        return back == bits and int.from_bytes(d, 'little') == sum(1 << i for i, b in enumerate(bits) if b)
    if k == 'unpack':
        raw = bytes(data['data'])
        got = [bool(x) for x in v2.unpack_bits(raw, data['repetitions'])]
        exp = [bool((int.from_bytes(raw, 'little') >> i) & 1) for i in range(min(data['repetitions'], 8 * len(raw)))]
        print('got', got, 'expected', exp)
        return got == exp
    cirq, cg = mods['cirq'], mods['cirq_google']
    import sympy
    import cirq_google.ops as cgops
    from cirq_google.ops.calibration_tag import CalibrationTag
    ns = dict(cirq=cirq, cirq_google=cg, sympy=sympy, np=np, numpy=np, CalibrationTag=CalibrationTag)
    ns.update({n_: getattr(cgops, n_) for n_ in dir(cgops) if not n_.startswith('_')})
    if k == 'circuit':
        c = eval(data['literal'], ns)
        norm, _, _ = make_norm(cirq, cg)
        try:
            ok, d = roundtrip_ok(cirq, cg.CIRCUIT_SERIALIZER, norm, c)
        except Exception as e:
            print('raised', type(e).__name__, e)
            return False
        print('in :', circuit_literal(c))
        print('out:', circuit_literal(d))
        return ok
    if k == 'multi':
        cs = [eval(l, ns) for l in data['literals']]
        norm, _, _ = make_norm(cirq, cg)
        S = cg.CIRCUIT_SERIALIZER
        got = S.deserialize_multi_program(S.serialize_multi_program(cs))
        return len(got) == len(cs) and all(
            len(norm(c).moments) == len(norm(g[2]).moments) and all(m1 == m2 and tuple(m1.tags) == tuple(m2.tags) for m1, m2 in zip(norm(c).moments, norm(g[2]).moments))
            for c, g in zip(cs, got))
    if k == 'sweep':
        s_ = eval(data['repr'], ns)
        f64 = data.get('float64', False)
        d = v2.sweep_from_proto(v2.sweep_to_proto(s_, use_float64=f64))
        print('in :', repr(s_))
        print('out:', repr(d))
        if isinstance(s_, cirq.ListSweep):
            return sweep_values(round_sweep(cirq, s_, f64)) == sweep_values(d)
        return sweep_desc(cirq, s_, f64) == sweep_desc(cirq, d, True) and sweep_values(round_sweep(cirq, s_, f64)) == sweep_values(d)
    if k == 'results':
        ms = [v2.MeasureInfo(key=m['key'], qubits=[cirq.GridQubit(*q) for q in m['qubits']], instances=m['instances'], invert_mask=[False] * len(m['qubits']), tags=[])
              for m in data['measurements']]
        sweeps = [[cirq.ResultDict(params=cirq.ParamResolver(t['params']), records={kk: np.array(a, dtype=bool).reshape(t['shapes'][kk]) for kk, a in t['records'].items()})
                   for t in sw] for sw in data['sweeps']]
        back = v2.results_from_proto(v2.results_to_proto(sweeps, ms), ms)
        return all(np.array_equal(b.records[m.key], t.records[m.key]) for sw, bsw in zip(sweeps, back) for t, b in zip(sw, bsw) for m in ms)
    if k == 'device':
        from cirq_google.devices import grid_device as gd
        fam = {gr.gate_spec_name: gr.supported_gates for gr in gd._GATES}
        qs = [cirq.GridQubit(*q) for q in data['qubits']]
        pairs = [(cirq.GridQubit(*a), cirq.GridQubit(*b)) for a, b in data['pairs']]
        dev = cg.GridDevice._from_device_information(qubit_pairs=pairs, gateset=cirq.Gateset(*[fam[n_][0] for n_ in data['gates']]),
                                                     gate_durations=None if data['durations'] == 'none' else {}, all_qubits=qs)
        dev2 = cg.GridDevice.from_proto(dev.to_proto())
        print('equal:', dev2 == dev)
        ok = dev2 == dev
        if 'op' in data:
            op = eval(data['op'], ns)
            dec = []
            for d_ in (dev, dev2):
                try:
                    d_.validate_operation(op)
                    dec.append(True)
                except ValueError:
                    dec.append(False)
            want = spec_accepts(cirq, cg, dev.to_proto(), op)
            print('decisions', dec, 'specification', want)
            ok = ok and dec[0] == dec[1] == want
        return ok
    print('nothing to replay for kind', k)
    return False
