"""C16 — Google wire formats round-trip programs, sweeps, results and devices (DESIGN 5/C16)."""
import numpy as np
from .. import env, coq, runner

LEVEL = 'proof'
META = dict(
    text='Coq theorems (unbounded): bit packing round-trips for every number of repetitions with zero padding and little-endian-in-byte order; the constants-table interning scheme of the circuit serializer round-trips every circuit over abstract leaves with decidable equality, shares an index exactly between equal items and only refers backwards; result messages (keys x instances x qubits x packed repetitions) round-trip. The Gallina models are hand-written in the shape of the code and evaluated with vm_compute against the implementation on every run, together with direct round-trip oracles on the real serializers for circuits, sweeps, run contexts, results and device specifications.',
    note='Trusted: Coq kernel; protobuf and numpy; the Python adapters in vf/checks/c16.py (calling cirq_google, assigning leaf identifiers by Python equality, printing Gallina literals); the leaf codecs (gate arguments, tags, conditions) are compared on generated cases, not proved. Theorems are closed under the global context.',
    technique='Rocq/Coq proof over executable Gallina models of pack_bits, the constants table and result messages + vm_compute correspondence and round-trip oracles against cirq_google',
)


# ------------------------------------------------------------------ pack_bits / unpack_bits
def gen_bit_cases(ctx, n):
    rng = ctx.rng
    cases = []
    for i in range(n):
        r = rng.random()
        if r < 0.35:
            k = rng.choice([0, 1, 7, 8, 9, 15, 16, 17, 23, 24, 25, 63, 64, 65])
        elif r < 0.9:
            k = rng.randint(0, 40)
        else:
            k = rng.randint(41, 300)
        p = rng.choice([0.1, 0.5, 0.5, 0.9])
        cases.append([rng.random() < p for _ in range(k)])
    return cases


def bits_stream(ctx, v2, n):
    rows_pack, rows_unpack = [], []
    for bits in sorted(gen_bit_cases(ctx, n), key=len):    # shortest first: the first failing case reported is minimal
        k = len(bits)
        data = v2.pack_bits(np.array(bits, dtype=bool))
        out = list(data)
        rows_pack.append((bits, out))
        ctx.count('pack_bits', [int(b) for b in bits], k >= 2 and any(bits) and not all(bits),
                  sample=dict(bits=[int(b) for b in bits], packed=out))
        # spec-level oracle on the real code: round trip, little-endian-in-byte, zero padding
        back = [bool(x) for x in v2.unpack_bits(data, k)]
        as_int = int.from_bytes(data, 'little')
        ok = (back == bits and len(data) == (k + 7) // 8 and as_int == sum(1 << i for i, b in enumerate(bits) if b))
        if not ok:
            ctx.violation('bits:pack-unpack', f'unpack_bits(pack_bits(b), {k}) != b or wrong layout for b={[int(b) for b in bits]}: '
                          f'packed={out} back={[int(b) for b in back]}', dict(kind='bits', bits=[int(b) for b in bits]))
        # unpack of arbitrary bytes with any repetition count (also more than 8*len)
        nb = ctx.rng.choice([0, 1, 2, 3, 5])
        raw = bytes(ctx.rng.randrange(256) for _ in range(nb))
        reps = ctx.rng.choice([0, 1, 7, 8, 9, 8 * nb, 8 * nb + 3, ctx.rng.randint(0, 8 * nb + 1)])
        got = [bool(x) for x in v2.unpack_bits(raw, reps)]
        rows_unpack.append((list(raw), reps, got))
        ctx.count('unpack_bits', [list(raw), reps], nb >= 1 and reps >= 2, sample=dict(data=list(raw), repetitions=reps, bits=[int(b) for b in got]))
        exp = [bool((int.from_bytes(raw, 'little') >> i) & 1) for i in range(min(reps, 8 * nb))]
        if got != exp:
            ctx.violation('bits:unpack', f'unpack_bits({list(raw)}, {reps}) = {[int(b) for b in got]}, little-endian bits are {[int(b) for b in exp]}',
                          dict(kind='unpack', data=list(raw), repetitions=reps))
    ZL, BL = coq.zlist, coq.blist
    text = ('From Coq Require Import ZArith List Bool.\nFrom VF Require Import Codec.PackBits Base.Harness.\n'
            'Import ListNotations.\nOpen Scope Z_scope.\n')
    text += 'Definition pk : list (list bool * list Z) := [\n' + ';\n'.join(f'({BL(b)}, {ZL(o)})' for b, o in rows_pack) + '].\n'
    text += 'Eval vm_compute in failing (fun c => zl_eqb (pack_bits (fst c)) (snd c) && bl_eqb (unpack_bits (snd c) (length (fst c))) (fst c)) pk.\n'
    text += 'Definition up : list (list Z * nat * list bool) := [\n' + ';\n'.join(
        f'({ZL(d)}, {r}%nat, {BL(g)})' for d, r, g in rows_unpack) + '].\n'
    text += 'Eval vm_compute in failing (fun c => match c with (d, r, g) => bl_eqb (unpack_bits d r) g end) up.\n'
    vals = coq.parse_evals(coq.coq_eval(f'c16_bits_{ctx.seed}', text))
    assert len(vals) == 2, vals
    for name, rows, val in zip(['pack_bits', 'unpack_bits'], [rows_pack, rows_unpack], vals):
        for idx in coq.parse_nat_list(val):
            ctx.mark_broken(f'correspondence:{name}', f'model and implementation differ on {rows[idx]}')


def run(ctx):
    mods = env.import_cirq(('cirq_google',))
    cirq, cg = mods['cirq'], mods['cirq_google']
    from cirq_google.api import v2
    ctx.rule = ('bits: random bool arrays of length 0..300 (dense around multiples of 8) and random byte strings with any '
                'repetition count; non-trivial = mixed bits, >= 2 long; distinct by canonical input')
    ctx.assumptions += ['vf/checks/c16.py adapters calling cirq_google and canonicalising outputs',
                        'protobuf and numpy are trusted', 'leaf identifiers are assigned by Python equality/hash']
    ctx.set_obligations(coq.compile_props('C16'))
    q = ctx.tier == 'quick'
    bits_stream(ctx, v2, 300 if q else 3000)


def replay(ctx, data):
    mods = env.import_cirq(('cirq_google',))
    from cirq_google.api import v2
    k = data.get('kind')
    if k == 'bits':
        bits = [bool(b) for b in data['bits']]
        d = v2.pack_bits(np.array(bits, dtype=bool))
        back = [bool(x) for x in v2.unpack_bits(d, len(bits))]
        print('packed', list(d), 'back', back)
        return back == bits and int.from_bytes(d, 'little') == sum(1 << i for i, b in enumerate(bits) if b)
    if k == 'unpack':
        raw = bytes(data['data'])
        got = [bool(x) for x in v2.unpack_bits(raw, data['repetitions'])]
        exp = [bool((int.from_bytes(raw, 'little') >> i) & 1) for i in range(min(data['repetitions'], 8 * len(raw)))]
        print('got', got, 'expected', exp)
        return got == exp
    print('nothing to replay for kind', k)
    return False
